"""histories on ONE quantizer object (strengthening round, seeds C01-5 / C02-5)

The other families of `fixedq` build a fresh quantizer per configuration and call it once.  Here one
object of each fixed-point class lives through a HISTORY:

  call            on a tensor of some rank (0..5) / shape / container (ndarray, tf.constant, tf.Variable)
  report          min() / max() / range() in some order
  set             a public attribute is assigned (bits, integer, symmetric, keep_negative, alpha,
                  negative_slope, relu_upper_bound, is_quantized_clip, use_sigmoid, use_real_*), the
                  value in one of several argument forms (int / np.int64 / np.int32, bool / int /
                  np.bool_, float / np.float32 / np.float64 / 0-d ndarray)
  trainable       q._set_trainable_parameter()
  layer           the object is handed to QDense / QConv1D / QConv2D / QDepthwiseConv2D /
                  QSeparableConv* / QActivation in some role (kernel-like roles invoke
                  _set_trainable_parameter, the others must leave the object alone)
  mode            set_internal_sigmoid(...) for the classes that read the module-level `_sigmoid`

and after EVERY step the object must behave as the function of its CURRENT attributes:
  * twin tie:   a fresh quantizer built from the current attributes gives bit-identical outputs and
                reporters on the same tensor;
  * model tie:  the Lean state machine (`QKV.Model.FixedQObj`, driver op "hist") run over the same
                events gives the same outputs / reporters;
  * clause oracles of C01 / C02 judge the outputs of every call against the format described by the
                current attributes (one `fixedq.Rec` per call step and channel).

After `_set_trainable_parameter()` an `alpha=None` quantizer uses a data-dependent power-of-two scale
(outside the value-level property); the scale the object reports after the call enters as an oracle
value and the clauses are judged GIVEN that scale: every output is a code of the CURRENT format
(symmetric: -(2^ub - 1) .. 2^ub - 1) times the reported scale, nearest / end code with respect to it."""
from fractions import Fraction as F

import numpy as np

from . import core
from . import fixedq as fq


KERNEL_ROLES = {
    ("QDense", "kernel"), ("QConv1D", "kernel"), ("QConv2D", "kernel"), ("QDepthwiseConv2D", "depthwise"),
    ("QSeparableConv2D", "depthwise"), ("QSeparableConv2D", "pointwise"), ("QSeparableConv1D", "pointwise"),
}
OTHER_ROLES = {("QDense", "bias"), ("QDense", "activation"), ("QConv2D", "bias"), ("QActivation", "activation")}

INT_FORMS = ("int", "i64", "i32")
BOOL_FORMS = ("bool", "int", "npbool")
FLOAT_FORMS = ("float", "f32", "f64", "a0")
SHAPES = ("vec", "mat", "r3", "r4", "r5", "one", "r0")
CONTAINERS = ("np", "tf", "var")


def form_value(v, form):
  if v is None or isinstance(v, str):
    return v
  return {"int": int, "i64": np.int64, "i32": np.int32, "bool": bool, "npbool": np.bool_,
          "float": float, "f32": np.float32, "f64": np.float64,
          "a0": lambda x: np.array(x, dtype=np.float32)}[form](v)


# --------------------------------------------------------------------------- the real objects

def make_layer(ltype, role, q):
  import qkeras
  if ltype == "QDense":
    return qkeras.QDense(3, **{{"kernel": "kernel_quantizer", "bias": "bias_quantizer",
                                "activation": "activation"}[role]: q})
  if ltype == "QConv2D":
    return qkeras.QConv2D(2, (2, 2), **{{"kernel": "kernel_quantizer", "bias": "bias_quantizer"}[role]: q})
  if ltype == "QConv1D":
    return qkeras.QConv1D(2, 2, kernel_quantizer=q)
  if ltype == "QDepthwiseConv2D":
    return qkeras.QDepthwiseConv2D((2, 2), depthwise_quantizer=q)
  if ltype == "QSeparableConv2D":
    return qkeras.QSeparableConv2D(2, (2, 2), **{role + "_quantizer": q})
  if ltype == "QSeparableConv1D":
    return qkeras.QSeparableConv1D(2, 2, **{role + "_quantizer": q})
  if ltype == "QActivation":
    return qkeras.QActivation(q)
  raise ValueError(ltype)


def held_quantizer(layer, ltype, role):
  if ltype == "QActivation":
    return layer.quantizer
  if role == "activation":
    return layer.activation
  return getattr(layer, role + "_quantizer_internal")


ATTR = {  # spec name -> real attribute name
    "qrelu": {"slope_log": "negative_slope", "upper": "relu_upper_bound", "qclip": "is_quantized_clip",
              "use_sigmoid": "use_sigmoid", "bits": "bits", "integer": "integer"},
    "qtanh": {"real": "use_real_tanh", "bits": "bits", "symmetric": "symmetric"},
    "qsigmoid": {"real": "use_real_sigmoid", "bits": "bits", "symmetric": "symmetric"},
    "qbits": {"bits": "bits", "integer": "integer", "symmetric": "symmetric", "keep_negative": "keep_negative",
              "alpha": "alpha"},
    "qlinear": {"symmetric": "symmetric", "alpha": "alpha"},
}


def real_value(kind, attr, v, form):
  if kind == "qrelu" and attr == "slope_log":
    return form_value(0.0 if v is None else 2.0 ** -v, form)
  return form_value(v, form)


def build_real(kind, cur, forms=None, stoch=False):
  """a FRESH quantizer from the attributes in `cur` (also used for the twins).  `stoch`: the object under
  test is built with use_stochastic_rounding=True (strengthening round 3); the twins never are — in the
  inference phase, where every history runs, the flagged object must equal its deterministic twin"""
  from qkeras import quantizers as Q0
  f = forms or {}
  Q = Q0
  if stoch:
    class Q:   # pylint: disable=function-redefined
      quantized_linear = staticmethod(lambda *a, **k: Q0.quantized_linear(*a, use_stochastic_rounding=True, **k))
      quantized_bits = staticmethod(lambda *a, **k: Q0.quantized_bits(*a, use_stochastic_rounding=True, **k))
      quantized_relu = staticmethod(lambda *a, **k: Q0.quantized_relu(*a, use_stochastic_rounding=True, **k))
      quantized_tanh = staticmethod(lambda *a, **k: Q0.quantized_tanh(*a, use_stochastic_rounding=True, **k))
      quantized_sigmoid = staticmethod(lambda *a, **k: Q0.quantized_sigmoid(*a, use_stochastic_rounding=True, **k))

  def fv(name, default):
    return form_value(cur[name], f.get(name, default))
  if kind == "qlinear":
    return Q.quantized_linear(fv("bits", "int"), fv("integer", "int"), fv("symmetric", "int"),
                              keep_negative=fv("keep_negative", "bool"), alpha=fv("alpha", "float"))
  if kind == "qbits":
    return Q.quantized_bits(fv("bits", "int"), fv("integer", "int"), fv("symmetric", "int"),
                            keep_negative=fv("keep_negative", "bool"), alpha=fv("alpha", "float"))
  if kind == "qrelu":
    sl = cur["slope_log"]
    return Q.quantized_relu(fv("bits", "int"), fv("integer", "int"), use_sigmoid=fv("use_sigmoid", "int"),
                            negative_slope=form_value(0.0 if sl is None else 2.0 ** -sl, f.get("slope_log", "float")),
                            relu_upper_bound=fv("upper", "float"), is_quantized_clip=fv("qclip", "bool"))
  if kind == "qtanh":
    return Q.quantized_tanh(fv("bits", "int"), symmetric=fv("symmetric", "int"), use_real_tanh=fv("real", "int"))
  if kind == "qsigmoid":
    return Q.quantized_sigmoid(fv("bits", "int"), symmetric=fv("symmetric", "int"),
                               use_real_sigmoid=fv("real", "int"))
  raise ValueError(kind)


# --------------------------------------------------------------------------- the specification side

def is_auto(cur):
  return isinstance(cur.get("alpha"), str)


def spec_apply(kind, cur, step):
  """what the step means for the attributes (the SPECIFICATION, not the implementation); returns the
  wire events of the Lean machine"""
  op = step[0]
  if op == "set":
    _, attr, v, _form = step
    cur[attr] = v
    if attr == "alpha":
      if isinstance(v, str):
        return [{"ev": "set_alpha_auto"}]
      return [{"ev": "set_alpha", "val": None if v is None else core.rj(v)}]
    if attr == "real":
      return [{"ev": "noop"}]
    if attr == "slope_log":
      return [{"ev": "set_slope", "val": v}]
    if attr == "upper":
      return [{"ev": "set_upper", "val": None if v is None else core.rj(v)}]
    if attr in ("symmetric", "keep_negative", "qclip", "use_sigmoid"):
      return [{"ev": "set_" + attr, "val": bool(v)}]
    return [{"ev": "set_" + attr, "val": int(v)}]
  if op == "trainable" or (op == "layer" and (step[1], step[2]) in KERNEL_ROLES):
    # `_set_trainable_parameter`: an alpha=None quantized_linear / quantized_bits becomes the symmetric
    # "auto_po2" quantizer; every other class (and every other alpha) is left alone
    if kind in ("qlinear", "qbits") and cur["alpha"] is None:
      cur["alpha"] = "auto_po2"
      cur["symmetric"] = 1
    return [{"ev": "trainable"}]
  if op == "layer":
    return [{"ev": "noop"}]
  if op == "mode":
    cur["mode"] = step[1]
    return [{"ev": "noop"}]
  raise ValueError(op)


def real_apply(kind, q, step, keep):
  op = step[0]
  if op == "set":
    _, attr, v, form = step
    setattr(q, ATTR[kind][attr], real_value(kind, attr, v, form))
  elif op == "trainable":
    q._set_trainable_parameter()   # pylint: disable=protected-access
  elif op == "layer":
    layer = make_layer(step[1], step[2], q)
    keep.append(layer)
    if held_quantizer(layer, step[1], step[2]) is not q:
      raise AssertionError("the layer holds another object")
  elif op == "mode":
    from qkeras import quantizers as Q
    Q.set_internal_sigmoid(step[1])


def rec_kind_cfg(kind, cur, stale=False):
  """(Rec kind, cfg dict in the vocabulary of `fixedq.lattice` / `surrogate_exact`)"""
  if kind in ("qlinear", "qbits"):
    c = dict(bits=cur["bits"], integer=cur["integer"], symmetric=int(cur["symmetric"]),
             keep_negative=int(cur["keep_negative"]), alpha=cur["alpha"])
    if stale:
      c["route"] = "reassign-alpha"
    return kind, c
  if kind == "qrelu":
    c = dict(bits=cur["bits"], integer=cur["integer"], slope_log=cur["slope_log"])
    if cur["upper"] is not None or not cur["qclip"]:
      c["upper"], c["qclip"] = cur["upper"], int(cur["qclip"])
    if cur["use_sigmoid"]:
      c["mode"] = cur["mode"]
      return "qrelusig", c
    return "qrelu", c
  c = dict(bits=cur["bits"], symmetric=int(cur["symmetric"]), real=int(cur["real"]), mode=cur["mode"])
  return kind, c


# --------------------------------------------------------------------------- inputs

def stream_for(rng, rkind, cfg, big=True):
  """float32 inputs aimed at the case splits of the CURRENT format (light version of the stream of
  `fixedq._collect_scalar`)"""
  lat = fq.lattice(rkind, cfg)
  if lat is None:
    g = F(1) if cfg.get("alpha") is None else F(cfg["alpha"])
    step, lo, hi, gain = (g if rkind == "qbits" else g * F(2) ** cfg["integer"] / 2), -1, 1, F(1)
  else:
    step, lo, hi, gain = lat
  if rkind in ("qtanh", "qsigmoid"):
    base = fq.points(rng, step, lo, hi, n_random=4, big=False)
    xs = [base if rkind == "qtanh" else (2.0 * base - 1.0).astype(np.float32),
          (base * (8.0 / 3.0) if rkind == "qtanh" else (base - 0.5) * (16.0 / 3.0)).astype(np.float32),
          np.array([-8, -4, -2.5, 2.5, 4, 8, -1, 1], dtype=np.float32)]
    return fq.distinct(np.concatenate(xs))
  if rkind == "qrelusig":
    mi = 2.0 ** cfg["integer"]
    m = 2 ** (cfg["bits"] - (0 if cfg["slope_log"] is None else 1))
    s01 = fq.points(rng, 1.0 / m, 0, m, n_random=4, big=False)
    xs = [(mi * (2.0 * s01 - 1.0)).astype(np.float32), (mi * (s01 - 0.5) * (16.0 / 3.0)).astype(np.float32)]
    return fq.distinct(np.concatenate(xs))
  extra = ()
  ub = cfg.get("upper")
  if ub is not None:
    extra = (ub, ub - float(step) / 2, ub + float(step) / 2, 2 * ub, 4 * float(hi * step) + 7)
  xs = fq.points(rng, step, lo, hi, n_random=6, extra=extra, big=big and gain == 1)
  if gain != 1:
    # legacy quantized_bits: the scale multiplies the OUTPUT only; the float32 envelope (2^24 output
    # steps) is the one of step * gain
    xs = np.concatenate([xs, fq.points(rng, step * gain, lo, hi, n_random=2, big=big)])
  if rkind == "qrelu" and cfg["slope_log"] is not None:
    xs = np.concatenate([xs, -np.abs(fq.points(rng, step * 2 ** cfg["slope_log"], 0, max(1, -lo), n_random=3,
                                               big=False))])
  return fq.distinct(xs)


def auto_units(half, floor_trick=False):
  """multi-resolution stream in units of the intended step: every multiple of 1/8 up to R > half + 1
  with R / half < sqrt(2) where possible (the power-of-two scale search then settles on the intended
  step and the outermost points lie beyond the end codes), +-1 ulp at the half-integers"""
  R = max(half + 1, int(1.35 * half))
  j = np.arange(-8 * R, 8 * R + 1, dtype=np.float32) / 8.0
  halves = (np.arange(-R, R, dtype=np.float32) + 0.5)
  xs = fq.distinct(np.concatenate([j, np.nextafter(halves, np.float32(np.inf)),
                                    np.nextafter(halves, np.float32(-np.inf))]))
  if floor_trick:
    # quantized_bits rounds with floor(|p| + 0.5): for |p| one ulp below 1/2 the float32 sum is exactly 1
    # (a tie of the ADDITION, rounded to even), so the element is rounded up although it is below the
    # breakpoint.  Float artefact of the data-dependent branch, outside the exact model: not generated.
    xs = xs[(np.abs(xs) >= 0.5) | (np.abs(xs) < 0.4)]
  return xs


def shape_tensor(xs, shape, container):
  """(tensor handed to the quantizer, function mapping the output back to the vector)"""
  import tensorflow as tf
  n = len(xs)
  if shape in ("vec", "r0"):
    arr = xs
  elif shape == "one":
    arr = xs.reshape(1, n)                      # batch 1
  else:
    pad = (-n) % 6
    arr = np.concatenate([xs, np.repeat(xs[-1:], pad)]) if pad else xs
    arr = arr.reshape({"mat": (-1, 3), "r3": (-1, 1, 3), "r4": (-1, 2, 1, 3), "r5": (-1, 1, 1, 2, 3)}[shape])
  t = arr if container == "np" else (tf.constant(arr) if container == "tf" else tf.Variable(arr))
  return t, lambda y: np.asarray(y, dtype=np.float32).ravel()[:n]


# --------------------------------------------------------------------------- generation

def _upper_choices(rng, cur):
  nsb = cur["bits"] - (0 if cur["slope_log"] is None else 1)
  step = 2.0 ** (cur["integer"] - nsb)
  top = (2 ** nsb - 1) * step
  return [None, None, 0.0, max(step, 2 ** max(nsb - 1, 0) * step), top, top + step, 2.0 ** (cur["integer"] + 1)]


def random_set(rng, kind, cur):
  """a legal assignment of one public attribute (the new value usually differs from the current one)"""
  def pick(lst):
    return lst[int(rng.integers(0, len(lst)))]
  if kind == "qlinear":
    if rng.random() < 0.7:
      return ("set", "symmetric", 1 - int(cur["symmetric"]), pick(BOOL_FORMS))
    if is_auto(cur):
      return ("set", "symmetric", 1 - int(cur["symmetric"]), pick(BOOL_FORMS))
    return ("set", "alpha", pick([a for a in (None, 0.5, 2.0, 1.0, 0.25) if a != cur["alpha"]]), pick(FLOAT_FORMS))
  if kind == "qbits":
    attr = pick(["bits", "integer", "symmetric", "keep_negative", "alpha", "symmetric", "bits"])
    if is_auto(cur) and attr in ("symmetric", "alpha"):
      attr = "integer"       # symmetric=0 under "auto_po2" is an AssertionError; alpha: see templates
    if attr == "bits":
      lo = 2 if is_auto(cur) else 1
      return ("set", "bits", pick([b for b in range(lo, 6) if b != cur["bits"]]), pick(INT_FORMS))
    if attr == "integer":
      return ("set", "integer", pick([i for i in (-1, 0, 1, 2, 3) if i != cur["integer"]]), pick(INT_FORMS))
    if attr == "alpha":
      return ("set", "alpha", pick([a for a in (None, 0.5, 2.0, 1.0, 0.25) if a != cur["alpha"]]), pick(FLOAT_FORMS))
    return ("set", attr, 1 - int(cur[attr]), pick(BOOL_FORMS))
  if kind == "qrelu":
    attr = pick(["bits", "integer", "slope_log", "upper", "qclip", "use_sigmoid", "bits", "slope_log"])
    if attr == "bits":
      lo = 2 if cur["slope_log"] is not None else 1
      return ("set", "bits", pick([b for b in range(max(lo, (cur["slope_log"] or 0) + 1), 6) if b != cur["bits"]]),
              pick(INT_FORMS))
    if attr == "integer":
      return ("set", "integer", pick([i for i in (0, 1, 2, 3) if i != cur["integer"]]), pick(INT_FORMS))
    if attr == "slope_log":
      ch = [None] + [k for k in (1, 2) if k <= cur["bits"] - 1]
      return ("set", "slope_log", pick([k for k in ch if k != cur["slope_log"]] or [None]), pick(FLOAT_FORMS))
    if attr == "upper":
      return ("set", "upper", pick(_upper_choices(rng, cur)), pick(FLOAT_FORMS))
    return ("set", attr, 1 - int(cur[attr]), pick(BOOL_FORMS))
  attr = pick(["bits", "symmetric", "real", "bits"])
  if attr == "bits":
    return ("set", "bits", pick([b for b in range(1, 7) if b != cur["bits"]]), pick(INT_FORMS))
  return ("set", attr, 1 - int(cur[attr]), pick(BOOL_FORMS))


def _pick(rng, lst):
  return lst[int(rng.integers(0, len(lst)))]


def random_call(rng, auto=False):
  if auto:
    return ("call", _pick(rng, ["mat", "r4", "r3"]), _pick(rng, CONTAINERS))
  return ("call", _pick(rng, ["vec", "vec", "mat", "r3", "r4", "r5", "one", "r0"]), _pick(rng, CONTAINERS))


def random_report(rng):
  names = ["min", "max", "range"]
  order = [names[i] for i in rng.permutation(3)]
  return ("report", tuple(order[:int(rng.integers(1, 4))]))


def random_layer(rng, kernel=None):
  roles = sorted(KERNEL_ROLES) if kernel else (sorted(OTHER_ROLES) if kernel is False
                                               else sorted(KERNEL_ROLES | OTHER_ROLES))
  lt, role = _pick(rng, roles)
  return ("layer", lt, role)


def initial(rng, kind):
  if kind in ("qlinear", "qbits"):
    kn = int(rng.random() < 0.8)
    lo_bits = 2 if kind == "qlinear" else 1
    b = int(rng.integers(max(lo_bits, kn), 6))
    return dict(bits=b, integer=int(rng.integers(-1, 3)), symmetric=int(rng.integers(0, 2)), keep_negative=kn,
                alpha=_pick(rng, [None, None, 0.5, 2.0, 1.0]))
  if kind == "qrelu":
    b = int(rng.integers(1, 6))
    # (quantized_relu with a negative `integer` raises in K.pow(2, integer): integer powers of ints)
    return dict(bits=b, integer=int(rng.integers(0, 4)),
                slope_log=_pick(rng, [None, None] + [k for k in (1, 2) if k <= b - 1]),
                upper=None, qclip=1, use_sigmoid=0, mode="hard")
  return dict(bits=int(rng.integers(1, 7)), symmetric=int(rng.integers(0, 2)), real=int(rng.integers(0, 2)),
              mode="hard")


def histories(tier, rng):
  """(kind, initial attributes, constructor argument forms, steps, tag)"""
  quick = tier == "quick"
  out = []

  def forms_for(cur):
    f = {}
    for k, v in cur.items():
      if k in ("mode",) or v is None or isinstance(v, str):
        continue
      if k in ("bits", "integer"):
        f[k] = _pick(rng, INT_FORMS)
      elif k in ("symmetric", "keep_negative", "qclip", "use_sigmoid", "real"):
        f[k] = _pick(rng, BOOL_FORMS)
      else:
        f[k] = _pick(rng, FLOAT_FORMS)
    return f

  def add(kind, cur, steps, tag):
    out.append((kind, dict(cur), forms_for(cur), list(steps), tag))

  # ---- templates (every run): the orders the seeds and their siblings need
  for rep in range(2 if quick else 6):
    for kind in ("qlinear", "qbits"):
      def base(sym, alpha, kn=1):
        lo_bits = 3
        return dict(bits=int(rng.integers(lo_bits, 6)), integer=int(rng.integers(-1, 3)), symmetric=sym,
                    keep_negative=kn, alpha=alpha)
      # A: call, flip `symmetric`, call (both directions; no scale and a constant one)
      for s0 in (0, 1):
        c = base(s0, _pick(rng, [None, 0.5, 2.0]))
        add(kind, c, [random_call(rng), ("set", "symmetric", 1 - s0, _pick(rng, BOOL_FORMS)), random_call(rng),
                      random_report(rng), ("set", "symmetric", s0, _pick(rng, BOOL_FORMS)), random_call(rng)],
            "A:call-flip-symmetric-call")
      # B: used on its own, then _set_trainable_parameter() (direct), then used as the auto_po2 quantizer
      add(kind, base(0, None), [random_call(rng), ("trainable",), random_call(rng, auto=True), random_call(rng, auto=True)],
          "B:call-trainable-call")
      # C: only the reporters are read, then handed to a layer as kernel quantizer
      add(kind, base(0, None), [("report", ("min", "max")), random_layer(rng, kernel=True), random_call(rng, auto=True)],
          "C:report-layer-call")
      add(kind, base(0, None), [("report", ("range",)), random_layer(rng, kernel=True), random_call(rng, auto=True)],
          "C:range-layer-call")
      # D: handed to a layer before any use (control), then to a second layer
      # (a quantized_linear that has stored a per-channel scale cannot be handed to a second layer:
      # qlayers.get_constraint evaluates `max(1, quantizer.max())` on the tensor -> ValueError; see notes)
      add(kind, base(0, None), [random_layer(rng, kernel=True), random_call(rng, auto=True),
                                random_layer(rng, kernel=True) if kind == "qbits" else ("trainable",),
                                random_call(rng, auto=True)], "D:layer-call-layer-call")
      # E: roles that must leave the object alone (random pair; every role: template E2 below)
      c = base(int(rng.integers(0, 2)), _pick(rng, [None, 0.5]))
      add(kind, c, [random_call(rng), random_layer(rng, kernel=False), random_call(rng), random_layer(rng, kernel=False),
                    random_report(rng), random_call(rng)], "E:other-roles")
      # F: a constant alpha is NOT made trainable
      add(kind, base(0, _pick(rng, [0.5, 2.0, 1.0])), [random_call(rng), ("trainable",), random_call(rng),
                                                       random_layer(rng, kernel=True), random_call(rng)],
          "F:constant-alpha-trainable")
    # E2: EVERY (layer type, role) on a used alpha=None object: the kernel-like roles must switch it to the
    # symmetric auto_po2 quantizer, all others must leave it alone
    for n_role, (lt, role) in enumerate(sorted(KERNEL_ROLES | OTHER_ROLES)):
      kind = ("qlinear", "qbits")[(n_role + rep) % 2]
      c = dict(bits=int(rng.integers(3, 6)), integer=int(rng.integers(-1, 3)), symmetric=0, keep_negative=1, alpha=None)
      first = random_call(rng) if (n_role + rep) % 3 else ("report", ("max", "min"))
      add(kind, c, [first, ("layer", lt, role), random_call(rng, auto=(lt, role) in KERNEL_ROLES)], "E2:every-role")
    # quantized_linear: the reporters first, then flip, then the reporters again
    c = dict(bits=int(rng.integers(2, 6)), integer=int(rng.integers(-1, 3)), symmetric=1, keep_negative=1, alpha=None)
    add("qlinear", c, [("report", ("range", "min")), ("set", "symmetric", 0, "int"), ("report", ("min", "range", "max")),
                       random_call(rng)], "G:report-flip-report")
    # quantized_linear: alpha = "auto_po2" assigned directly; symmetric stays assignable
    c = dict(bits=int(rng.integers(3, 6)), integer=int(rng.integers(-1, 3)), symmetric=0, keep_negative=1, alpha=None)
    add("qlinear", c, [random_call(rng), ("set", "alpha", "auto_po2", "float"), random_call(rng, auto=True),
                       ("set", "symmetric", 1, "bool"), random_call(rng, auto=True),
                       ("set", "symmetric", 0, "int"), random_call(rng, auto=True)], "H:alpha-auto-assigned")
    # quantized_linear: constant alpha assigned after construction (recorded finding: stale scale)
    c = dict(bits=int(rng.integers(2, 6)), integer=int(rng.integers(-1, 3)), symmetric=int(rng.integers(0, 2)),
             keep_negative=1, alpha=_pick(rng, [None, 0.5]))
    add("qlinear", c, [random_call(rng), ("set", "alpha", 2.0, _pick(rng, FLOAT_FORMS)), random_call(rng),
                       ("set", "symmetric", 1 - c["symmetric"], "int"), random_call(rng)], "I:alpha-assigned")
    # quantized_bits: back from auto_po2 to no scale (symmetric stays on)
    c = dict(bits=int(rng.integers(3, 6)), integer=int(rng.integers(-1, 3)), symmetric=0, keep_negative=1, alpha=None)
    add("qbits", c, [random_call(rng), ("trainable",), random_call(rng, auto=True), ("set", "alpha", None, "float"),
                     random_call(rng), ("set", "symmetric", 0, "int"), random_call(rng)], "J:auto-and-back")
    # quantized_bits: every attribute re-assigned after a call
    c = initial(rng, "qbits")
    st = [random_call(rng)]
    for attr in ("bits", "integer", "symmetric", "keep_negative", "alpha"):
      if attr == "bits":
        v = _pick(rng, [b for b in range(max(1, c["keep_negative"]), 6) if b != c["bits"]])
      elif attr == "integer":
        v = _pick(rng, [i for i in (-1, 0, 1, 2) if i != c["integer"]])
      elif attr == "alpha":
        v = _pick(rng, [a for a in (None, 0.5, 2.0) if a != c["alpha"]])
      else:
        v = 1 - c[attr]
      if attr == "keep_negative" and v == 1 and c["bits"] < 1:
        continue
      st += [("set", attr, v, _pick(rng, INT_FORMS if attr in ("bits", "integer") else
                                    FLOAT_FORMS if attr == "alpha" else BOOL_FORMS)), random_call(rng)]
    add("qbits", c, st + [random_report(rng)], "K:each-attribute")
    # quantized_relu: every attribute re-assigned after a call, _set_trainable_parameter is a no-op
    c = initial(rng, "qrelu")
    c["slope_log"] = None
    b2 = _pick(rng, [b for b in range(2, 6) if b != c["bits"]])
    st = [random_call(rng), ("set", "bits", b2, _pick(rng, INT_FORMS)), random_call(rng),
          ("set", "integer", _pick(rng, [i for i in (0, 1, 2, 3) if i != c["integer"]]), _pick(rng, INT_FORMS)),
          random_call(rng), ("set", "slope_log", 1, _pick(rng, FLOAT_FORMS)), random_call(rng), random_report(rng),
          ("trainable",), random_call(rng), ("set", "slope_log", None, "float"),
          ("set", "qclip", 0, _pick(rng, BOOL_FORMS)), random_call(rng)]
    add("qrelu", c, st, "L:each-attribute")
    c2 = dict(c, bits=b2, slope_log=None, qclip=0)
    c = initial(rng, "qrelu")
    c["slope_log"] = None
    nsb = c["bits"]
    step = 2.0 ** (c["integer"] - nsb)
    st = [random_call(rng), ("set", "qclip", 0, "bool"), ("set", "upper", max(step, 2 ** max(nsb - 1, 0) * step), "float"),
          random_call(rng), ("set", "upper", (2 ** nsb) * step, _pick(rng, FLOAT_FORMS)), random_call(rng),
          random_layer(rng), random_call(rng), ("set", "use_sigmoid", 1, "int"), random_call(rng),
          ("mode", "smooth"), random_call(rng), ("set", "use_sigmoid", 0, "bool"), ("set", "qclip", 1, "int"),
          random_call(rng)]
    add("qrelu", c, st, "M:upper-bound-and-sigmoid")
    del c2
    for kind in ("qtanh", "qsigmoid"):
      c = initial(rng, kind)
      st = [random_call(rng), ("set", "bits", _pick(rng, [b for b in range(1, 7) if b != c["bits"]]), _pick(rng, INT_FORMS)),
            random_call(rng), ("set", "symmetric", 1 - c["symmetric"], _pick(rng, BOOL_FORMS)), random_call(rng),
            random_report(rng), ("set", "real", 1 - c["real"], _pick(rng, BOOL_FORMS)), random_call(rng),
            ("mode", _pick(rng, ["smooth", "real"])), random_call(rng), random_layer(rng), random_call(rng),
            ("set", "real", c["real"], "int"), ("mode", "hard"), random_call(rng)]
      add(kind, c, st, "N:each-attribute")
  # ---- random histories
  n_rand = {"qlinear": 14, "qbits": 14, "qrelu": 12, "qtanh": 5, "qsigmoid": 5} if quick else \
           {"qlinear": 120, "qbits": 120, "qrelu": 100, "qtanh": 40, "qsigmoid": 40}
  for kind, n in n_rand.items():
    for _ in range(n):
      c0 = initial(rng, kind)
      cur = dict(c0)
      steps = []
      calls = 0
      auto_called = False
      for _i in range(int(rng.integers(4, 9))):
        u = rng.random()
        auto = is_auto(cur)
        if u < 0.34 or (_i == 0 and u < 0.7):
          if auto and cur["bits"] < 2:
            continue
          steps.append(random_call(rng, auto=auto))
          calls += 1
          auto_called = auto_called or auto
          continue
        if u < 0.46:
          if not auto:
            steps.append(random_report(rng))
          continue
        if u < 0.80:
          st = random_set(rng, kind, cur)
        elif u < 0.88:
          st = ("trainable",)
        elif u < 0.96 or kind in ("qlinear", "qbits"):
          st = random_layer(rng)
        else:
          st = ("mode", _pick(rng, list(fq.MODES)))
        if kind == "qbits" and cur["bits"] < 2 and cur["alpha"] is None and \
            (st[0] == "trainable" or (st[0] == "layer" and (st[1], st[2]) in KERNEL_ROLES)):
          continue     # a 1-bit quantized_bits under "auto_po2" divides by zero levels
        if kind == "qlinear" and st[0] == "layer" and auto_called:
          continue     # see template D
        steps.append(st)
        spec_apply(kind, cur, st)
      if calls == 0 or not (is_auto(cur) and cur["bits"] < 2):
        steps.append(random_call(rng, auto=is_auto(cur)))
      add(kind, c0, steps, "R:random")
  return out


# --------------------------------------------------------------------------- running one history

def _eq_bits(a, b):
  a = np.asarray(a, dtype=np.float32).ravel()
  b = np.asarray(b, dtype=np.float32).ravel()
  return a.shape == b.shape and bool(np.all((a == b) | (np.isnan(a) & np.isnan(b))))


def _read_reporter(q, name):
  """Fraction / list of Fractions / 'err:<type>' / per-channel ndarray"""
  try:
    v = getattr(q, name)()
  except AttributeError:
    return "err"
  except AssertionError:
    return "err"
  except Exception as e:  # pylint: disable=broad-except
    return "err:" + type(e).__name__
  return np.asarray(v, dtype=np.float32)


def _surrogates(kind, rkind, cur, xs):
  """float32 surrogate values handed to the model as oracle inputs, from the CURRENT attributes and
  mode, through the functions themselves"""
  import tensorflow as tf
  xt = tf.constant(xs)
  if rkind == "qtanh":
    return np.asarray(tf.tanh(xt) if cur["real"] else 2.0 * fq.surrogate32(cur["mode"], xt) - 1.0, dtype=np.float32)
  if rkind == "qsigmoid":
    return np.asarray(tf.sigmoid(xt) if cur["real"] else fq.surrogate32(cur["mode"], xt), dtype=np.float32)
  if rkind == "qrelusig":
    mi = tf.constant(2.0 ** cur["integer"], dtype=tf.float32)
    return np.asarray(fq.surrogate32(cur["mode"], xt / mi), dtype=np.float32)
  return None


def run_history(run, rng, hid, kind, c0, forms, steps, tag, jobs, recs):
  from qkeras import quantizers as Q
  cur = dict(c0)
  cur.setdefault("mode", "hard")
  label0 = "hist#%d[%s] %s(%s)" % (hid, tag, kind, ",".join("%s=%s" % kv for kv in c0.items() if kv[0] != "mode"))
  try:
    q = build_real(kind, cur, forms, stoch=bool(c0.get("stoch")))
    if c0.get("stoch"):
      run.count("hist_stochastic_flag_objects")
      if not q.use_stochastic_rounding:
        raise AssertionError("flag lost")
  except Exception as e:  # pylint: disable=broad-except
    run.count("hist_ctor_error")
    run.count("hist_ctor_error:" + kind + ":" + type(e).__name__)
    return
  keep = []
  # quantized_linear: the alpha its STORED quantization_scale was computed from (`__init__`) resp. "data"
  stored = cur["alpha"] if kind == "qlinear" and not is_auto(cur) else None
  wire0 = {"bits": cur["bits"]}
  if kind in ("qlinear", "qbits"):
    wire0.update(integer=cur["integer"], symmetric=bool(cur["symmetric"]), keep_negative=bool(cur["keep_negative"]),
                 alpha=None if cur["alpha"] is None or is_auto(cur) else core.rj(cur["alpha"]), auto=is_auto(cur))
  elif kind == "qrelu":
    wire0.update(integer=cur["integer"], slope_log=cur["slope_log"], use_sigmoid=bool(cur["use_sigmoid"]),
                 upper=None if cur["upper"] is None else core.rj(cur["upper"]), qclip=bool(cur["qclip"]))
  else:
    wire0.update(symmetric=bool(cur["symmetric"]))
  # one wire track per channel (auto-scale calls have per-channel scales); track 0 carries the rest
  C = 3
  tracks = [[] for _ in range(C)]
  sinks = []            # (track, ask index) -> callback
  n_asks = [0] * C

  def push_ev(evs):
    for tr in tracks:
      tr.extend(evs)

  def push_ask(j, ask, cb):
    tracks[j].append(ask)
    sinks.append((j, n_asks[j], cb))
    n_asks[j] += 1
  run.count("hist_" + kind)
  run.count("hist_tag_" + tag.split(":")[0])
  try:
    for k, st in enumerate(steps):
      op = st[0]
      where = "%s step %d" % (label0, k)
      if op in ("set", "trainable", "layer", "mode"):
        try:
          real_apply(kind, q, st, keep)
        except Exception as e:  # pylint: disable=broad-except
          run.disagree("hist-step:" + kind, {"history": label0, "step": k, "op": str(st)},
                       "raises " + type(e).__name__ + ": " + str(e)[:200], "accepted")
          break
        push_ev(spec_apply(kind, cur, st))
        run.count("hist_step_" + (op if op != "layer" else ("layer_kernel" if (st[1], st[2]) in KERNEL_ROLES
                                                             else "layer_other")))
        if op == "set":
          run.count("hist_set_%s_%s" % (kind, st[1]))
          if st[1] == "alpha" and kind == "qlinear" and not isinstance(st[2], str):
            pass      # `stored` is NOT refreshed (recorded finding)
        continue
      auto = is_auto(cur)
      stale = kind == "qlinear" and not auto and stored != cur["alpha"]
      try:
        twin = build_real(kind, cur)
      except Exception as e:  # pylint: disable=broad-except
        run.disagree("hist-twin-ctor:" + kind, {"history": label0, "step": k, "attributes": str(cur)},
                     "twin cannot be built: " + type(e).__name__, "constructible")
        break
      if op == "report":
        if auto:
          continue
        for name in st[1]:
          if name == "range" and kind in ("qtanh", "qsigmoid"):
            continue
          v = _read_reporter(q, name)
          tv = _read_reporter(twin, name)
          run.count("hist_report_" + name)
          same = (isinstance(v, str) and isinstance(tv, str) and v == tv) or \
                 (not isinstance(v, str) and not isinstance(tv, str) and _eq_bits(v, tv))
          if not same and not stale:
            run.disagree("hist-twin-report:" + kind, {"history": label0, "step": k, "reporter": name,
                                                      "attributes": str(cur)}, str(v)[:200], str(tv)[:200])

          def cb(ans, v=v, name=name, k=k, cur_snapshot=dict(cur)):
            run.compared += 1
            if isinstance(v, str):
              ok = ans == "err"
            elif name == "range":
              ok = isinstance(ans, list) and fq.fr(v) == [core.unrj(p) for p in ans]
            else:
              ok = isinstance(ans, list) and len(ans) == 2 and not isinstance(ans[0], list) and \
                  fq.fr(v) == [core.unrj(ans)]
            if not ok:
              run.disagree("hist-report:" + kind, {"history": label0, "step": k, "reporter": name,
                                                   "attributes": str(cur_snapshot)}, str(v)[:200], str(ans)[:200])
          push_ask(0, {"ask": name}, cb)
        continue
      # ---- a call
      assert op == "call"
      shape, container = st[1], st[2]
      run.count("hist_call_shape_" + shape)
      run.count("hist_call_container_" + container)
      if not auto:
        rkind, rcfg = rec_kind_cfg(kind, cur, stale=stale)
        aim = dict(rcfg, alpha=stored) if stale and not isinstance(stored, str) else rcfg
        xs = stream_for(rng, rkind, aim)
        if stale:
          # (no +-(2^24-1) steps of the DECLARED format: they may lie outside the float32 envelope of the
          # format the object behaves as)
          xs = fq.distinct(np.concatenate([xs, stream_for(rng, rkind, rcfg, big=False)]))
        if shape == "r0":
          xs = xs[rng.choice(len(xs), size=min(10, len(xs)), replace=False)]

        def call_on(obj, arr, shape=shape, container=container):
          if shape == "r0":
            import tensorflow as tf
            return np.array([np.asarray(obj(np.float32(v) if container == "np" else tf.constant(np.float32(v))),
                                        dtype=np.float32).reshape(()) for v in arr], dtype=np.float32)
          t, back = shape_tensor(np.asarray(arr, dtype=np.float32), shape, container)
          return back(obj(t))
        try:
          ys = call_on(q, xs)
        except Exception as e:  # pylint: disable=broad-except
          run.disagree("hist-call:" + kind, {"history": label0, "step": k, "attributes": str(cur)},
                       "raises " + type(e).__name__ + ": " + str(e)[:200], "returns")
          break
        yt = call_on(twin, xs)
        run.compared += len(xs)
        if not stale:
          run.count("hist_twin_compared", len(xs))
          if not _eq_bits(ys, yt):
            bad = [i for i in range(len(xs)) if not (ys[i] == yt[i])]
            run.disagree("hist-twin:" + kind, {"history": label0, "step": k, "attributes": str(cur),
                                               "n_bad": len(bad)},
                         [(float(xs[i]), float(ys[i])) for i in bad[:3]], [(float(xs[i]), float(yt[i])) for i in bad[:3]])
        else:
          run.count("hist_twin_skipped_stale_alpha")
        r = fq.Rec(rkind, "%s call[%s,%s] as %s" % (where, shape, container, fq._label(rkind, rcfg)), rcfg)
        r.family = "history"
        r.q = q
        r.xs, r.ys, r.x32 = fq.fr(fq.flush(xs)), fq.fr(ys), xs
        ps = _surrogates(kind, rkind, cur, xs)
        if ps is not None:
          r.ps = fq.fr(ps)
        # reporters of the object as it is NOW, and what the clause oracles will ask the object later
        # (fixed points of range(), q(q(x))): evaluated here, while the object is in this state
        memo = {}
        mn, mx = _read_reporter(q, "min"), _read_reporter(q, "max")
        if not isinstance(mn, str) and not isinstance(mx, str) and mn.size == 1 and mx.size == 1:
          r.impl_min, r.impl_max = F(float(mn.ravel()[0])), F(float(mx.ravel()[0]))
        rg = None
        if rkind in ("qbits", "qrelu", "qlinear"):
          rg = _read_reporter(q, "range")
          r.impl_range = fq.fr(rg) if not isinstance(rg, str) else ("assert" if rg == "err" else rg)
        again = [ys] + ([rg.ravel()] if rg is not None and not isinstance(rg, str) else [])
        if rkind in ("qbits", "qrelu", "qlinear"):
          arr = fq.distinct(np.concatenate(again))
          try:
            back = call_on(q, arr) if shape != "r0" else call_on(q, arr, shape="vec")
          except Exception:  # pylint: disable=broad-except
            back = np.full(arr.shape, np.nan, dtype=np.float32)
          for a, b in zip(arr.view(np.int32).tolist(), back.tolist()):
            memo[a] = b
            if a in (0, -2 ** 31):          # +-0.0: the oracles see a zero as the rational 0
              memo.setdefault(0, b)
              memo.setdefault(-2 ** 31, b)
          run.evaluations += len(arr)
        r.call = (lambda arr, memo=memo: np.array([memo[a] for a in np.asarray(arr, dtype=np.float32)
                                                   .view(np.int32).tolist()], dtype=np.float32))

        def cb_call(ans, r=r):
          r.model = [core.unrj(p) if isinstance(p, list) else None for p in ans]
        line = {"ask": "call", "xs": fq._rats(r.xs)}
        if r.ps is not None:
          line["ps"] = fq._rats(r.ps)
        push_ask(0, line, cb_call)

        def cb_min(ans, r=r):
          r.model_min = core.unrj(ans) if isinstance(ans, list) else None

        def cb_max(ans, r=r):
          r.model_max = core.unrj(ans) if isinstance(ans, list) else None

        def cb_range(ans, r=r):
          r.model_range = [core.unrj(p) for p in ans] if isinstance(ans, list) else None
        push_ask(0, {"ask": "min"}, cb_min)
        push_ask(0, {"ask": "max"}, cb_max)
        if rkind in ("qbits", "qrelu", "qlinear"):
          push_ask(0, {"ask": "range"}, cb_range)
        recs.append(r)
        continue
      # ---- a call under a data-dependent scale: [N, C] tensor, one channel per track
      kn = int(cur["keep_negative"])
      ubits = cur["bits"] - kn
      half = (2 ** ubits - 1) if kind == "qlinear" else (2 ** (cur["bits"] - 1) - 1)
      units = auto_units(max(half, 1), floor_trick=kind == "qbits")
      base = 2.0 ** (cur["integer"] - ubits)
      facs = [base * f for f in (0.25, 1.0, 8.0)]
      X = np.stack([(units * np.float32(f)).astype(np.float32) for f in facs], axis=1)
      import tensorflow as tf
      arr = X if shape == "mat" else (X.reshape(-1, 1, 1, C) if shape == "r4" else X.reshape(-1, 1, C))
      t = arr if container == "np" else (tf.constant(arr) if container == "tf" else tf.Variable(arr))
      t2 = arr if container == "np" else (tf.constant(arr) if container == "tf" else tf.Variable(arr))
      try:
        Y = np.asarray(q(t), dtype=np.float32).reshape(-1, C)
        sc = np.asarray(q.quantization_scale if kind == "qlinear" else q.scale, dtype=np.float32).ravel()
      except Exception as e:  # pylint: disable=broad-except
        run.disagree("hist-call:" + kind, {"history": label0, "step": k, "attributes": str(cur)},
                     "raises " + type(e).__name__ + ": " + str(e)[:200], "returns")
        break
      if kind == "qlinear":
        stored = "data"
      Yt = np.asarray(twin(t2), dtype=np.float32).reshape(-1, C)
      run.compared += X.size
      run.count("hist_twin_compared", X.size)
      if not _eq_bits(Y, Yt):
        bad = np.argwhere(~(Y == Yt))
        run.disagree("hist-twin:" + kind, {"history": label0, "step": k, "attributes": str(cur), "n_bad": len(bad)},
                     [(float(X[i, j]), float(Y[i, j])) for i, j in bad[:3]],
                     [(float(X[i, j]), float(Yt[i, j])) for i, j in bad[:3]])
      if sc.size != C or not np.all(np.isfinite(sc)) or np.any(sc <= 0):
        run.disagree("hist-auto-scale:" + kind, {"history": label0, "step": k}, str(sc), "one positive scale per channel")
        break
      mn = mx = None
      if kind == "qlinear":
        mn, mx = _read_reporter(q, "min"), _read_reporter(q, "max")
      for j in range(C):
        if kind == "qlinear":
          a = F(float(sc[j])) / F(2) ** (cur["integer"] - ubits)       # alpha-equivalent of the reported scale
          rkind = "qlinear"
          rcfg = dict(bits=cur["bits"], integer=cur["integer"], symmetric=int(cur["symmetric"]), keep_negative=kn,
                      alpha=a, auto=1)
          rescale = a
          g = F(float(sc[j])) / F(facs[j])
        else:
          s = F(float(sc[j])) / F(2) ** ubits                            # `scale` before the final `* m`
          rkind = "qbitsauto"
          rcfg = dict(bits=cur["bits"], integer=cur["integer"], symmetric=int(cur["symmetric"]), keep_negative=kn,
                      scale=s, auto=1)
          rescale = s
          g = s * F(2) ** cur["integer"] / F(facs[j])
        run.count("hist_auto_gain_%s" % g)
        r = fq.Rec(rkind, "%s call[%s,%s] channel %d as %s" % (where, shape, container, j, fq._label(rkind, rcfg)), rcfg)
        r.family = "history"
        r.q = q
        r.xs, r.ys, r.x32 = fq.fr(fq.flush(X[:, j])), fq.fr(Y[:, j]), X[:, j]
        step_j, lo_j, hi_j, _ = fq.lattice(rkind, rcfg)
        run.count("hist_auto_sat_low", sum(1 for x in r.xs if x <= (lo_j - F(1, 2)) * step_j))
        run.count("hist_auto_sat_high", sum(1 for x in r.xs if x >= (hi_j + F(1, 2)) * step_j))
        if mn is not None and not isinstance(mn, str) and not isinstance(mx, str) and mn.size == C:
          r.impl_min, r.impl_max = F(float(mn.ravel()[j])), F(float(mx.ravel()[j]))
        tracks[j].append({"ev": "rescale", "val": core.rj(rescale)})

        def cb_call(ans, r=r):
          r.model = [core.unrj(p) if isinstance(p, list) else None for p in ans]
        push_ask(j, {"ask": "call", "xs": fq._rats(r.xs)}, cb_call)
        if kind == "qlinear":
          def cb_min(ans, r=r):
            r.model_min = core.unrj(ans) if isinstance(ans, list) else None

          def cb_max(ans, r=r):
            r.model_max = core.unrj(ans) if isinstance(ans, list) else None
          push_ask(j, {"ask": "min"}, cb_min)
          push_ask(j, {"ask": "max"}, cb_max)
        recs.append(r)
  finally:
    Q.set_internal_sigmoid("hard")
  for j in range(C):
    if n_asks[j] == 0:
      continue
    line = {"op": "hist", "cls": kind, "cfg": wire0, "steps": tracks[j]}
    mine = [(i, cb) for (tj, i, cb) in sinks if tj == j]

    def done(o, mine=mine):
      ans = o["answers"]
      for i, cb in mine:
        cb(ans[i])
    jobs.append((line, done))


def collect(run, tier, jobs, recs):
  rng = np.random.default_rng([run.seed, 20261001])
  hs = histories(tier, rng)
  flagged = fq.have_phase()
  for hid, (kind, c0, forms, steps, tag) in enumerate(hs):
    if flagged and hid % 3 == 1:
      # every third history runs on an object built with use_stochastic_rounding=True (the whole harness runs
      # in the inference phase): same twin, same machine, same clauses (Props.C02.C02_*_inference)
      c0 = dict(c0, stoch=1)
    run_history(run, rng, hid, kind, c0, forms, steps, tag, jobs, recs)
  run.extra["histories"] = len(hs)
