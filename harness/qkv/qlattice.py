"""qkv.qlattice — option lattice of the 14 registered quantizer classes, value encoding and the
behavioural observation of a quantizer (outputs / scale / gradient on probe tensors).
Shared by the C09 and C10 harnesses.
"""
import itertools

import numpy as np

from . import core

# --------------------------------------------------------------------------- value encoding
# Python literal  <->  protocol value (QKV/Drv/PyJson.lean)


def enc(v):
  """python value -> protocol value; numbers are exact (floats as [num, den])"""
  if v is None:
    return None
  if hasattr(v, "numpy") and not isinstance(v, np.ndarray):
    v = v.numpy()
  if isinstance(v, (bool, np.bool_)):
    return bool(v)
  if isinstance(v, (int, np.integer)):
    return {"i": int(v)}
  if isinstance(v, (float, np.floating)):
    return {"f": core.rj(float(v))}
  if isinstance(v, str):
    return {"s": v}
  if isinstance(v, np.ndarray):
    if v.ndim == 0:
      return enc(v.item())
    v = v.reshape(-1).tolist()
  if isinstance(v, (list, tuple)):
    out = []
    for e in v:
      ee = enc(e)
      if not (isinstance(ee, dict) and ("i" in ee or "f" in ee)):
        raise ValueError("unsupported list element %r" % (e,))
      out.append(ee)
    return {"l": out}
  raise ValueError("unsupported value %r" % (v,))


def dec(p):
  """protocol value -> python value (floats via correctly rounded Fraction -> float)"""
  if p is None or isinstance(p, bool):
    return p
  if "i" in p:
    return int(p["i"])
  if "f" in p:
    return float(core.unrj(p["f"]))
  if "s" in p:
    return p["s"]
  return [dec(e) for e in p["l"]]


def enc_env(d):
  return [[k, enc(v)] for k, v in d.items()]


def canon_env(pairs):
  """order-insensitive canonical form of an encoded environment"""
  return sorted(([k, v] for k, v in pairs), key=lambda kv: kv[0])


def err_tag(e):
  n = type(e).__name__
  return {"ParseException": "ParseException", "ParseSyntaxException": "ParseException"}.get(n, n)


# --------------------------------------------------------------------------- the lattice

A1 = np.array([0.5], dtype=np.float32)
A2 = np.array([2.0], dtype=np.float32)

# per class: option -> non-default values ; contexts = base keyword sets under which the
# options are swept one at a time (chosen so that every option influences the output somewhere)
LATTICE = {
    "quantized_linear": dict(
        options=dict(bits=[4, 1], integer=[1, 2], symmetric=[0], keep_negative=[False],
                     alpha=["auto", "auto_po2", 2.0], use_stochastic_rounding=[True],
                     scale_axis=[0, 1], qnoise_factor=[0.5, 0.0]),
        contexts=[{}, {"bits": 4, "alpha": "auto"}, {"bits": 4, "alpha": "auto_po2"}]),
    "quantized_bits": dict(
        options=dict(bits=[4, 6], integer=[1, 2], symmetric=[1], keep_negative=[False],
                     alpha=["auto", "auto_po2", 2.0], use_stochastic_rounding=[True],
                     scale_axis=[0, 1], qnoise_factor=[0.5, 0.0], use_ste=[False],
                     elements_per_scale=[2, 3], min_po2_exponent=[1, -1],
                     max_po2_exponent=[-2, 0], post_training_scale=[A1, A2]),
        contexts=[{}, {"bits": 4, "alpha": "auto"}, {"bits": 4, "alpha": "auto_po2"},
                  {"bits": 4, "alpha": "auto_po2", "scale_axis": 1}]),
    "bernoulli": dict(
        options=dict(alpha=["auto", "auto_po2"], temperature=[1.0, 0.25],
                     use_real_sigmoid=[False]),
        contexts=[{}, {"alpha": "auto"}]),
    "ternary": dict(
        options=dict(alpha=["auto", "auto_po2", 2.0], threshold=[0.5, 0.25],
                     use_stochastic_rounding=[True], number_of_unrolls=[1, 3]),
        contexts=[{}, {"alpha": "auto"}]),
    "stochastic_ternary": dict(
        options=dict(alpha=["auto", "auto_po2"], threshold=[0.5, 0.25], temperature=[4.0, 1.0],
                     use_real_sigmoid=[False], number_of_unrolls=[1, 3]),
        contexts=[{}, {"alpha": "auto"}]),
    "binary": dict(
        options=dict(use_01=[True], alpha=["auto", "auto_po2", 2.0],
                     use_stochastic_rounding=[True], scale_axis=[0, 1, [0, 1]],
                     elements_per_scale=[2, 3], min_po2_exponent=[1, -1],
                     max_po2_exponent=[-2, 0]),
        contexts=[{}, {"alpha": "auto"}, {"alpha": "auto_po2"},
                  {"alpha": "auto_po2", "scale_axis": 1}]),
    "stochastic_binary": dict(
        options=dict(alpha=["auto", "auto_po2"], temperature=[1.0, 0.25],
                     use_real_sigmoid=[False]),
        contexts=[{}, {"alpha": "auto"}]),
    "quantized_relu": dict(
        options=dict(bits=[4, 6], integer=[1, 2], use_sigmoid=[1], negative_slope=[0.25, 0.125],
                     use_stochastic_rounding=[True], relu_upper_bound=[1.5, 6.0],
                     is_quantized_clip=[False], qnoise_factor=[0.5, 0.0], use_ste=[False]),
        contexts=[{}, {"bits": 4, "integer": 1}, {"bits": 4, "integer": 2, "relu_upper_bound": 1.5}]),
    "quantized_ulaw": dict(
        options=dict(bits=[4, 6], integer=[1, 2], symmetric=[1], u=[100.0, 15.0]),
        contexts=[{}]),
    "quantized_tanh": dict(
        options=dict(bits=[4, 6], use_stochastic_rounding=[True], symmetric=[True],
                     use_real_tanh=[True]),
        contexts=[{}, {"bits": 4}]),
    "quantized_sigmoid": dict(
        options=dict(bits=[4, 6], symmetric=[True], use_real_sigmoid=[True],
                     use_stochastic_rounding=[True]),
        contexts=[{}, {"bits": 4}]),
    "quantized_po2": dict(
        options=dict(bits=[4, 6], max_value=[0.5, 4.0, 1], use_stochastic_rounding=[True],
                     quadratic_approximation=[True], log2_rounding=["floor"],
                     qnoise_factor=[0.5, 0.0], use_ste=[False]),
        contexts=[{}, {"bits": 4}]),
    "quantized_relu_po2": dict(
        options=dict(bits=[4, 6], max_value=[0.5, 4.0, 1], negative_slope=[0.25, 0.125],
                     use_stochastic_rounding=[True], quadratic_approximation=[True],
                     log2_rounding=["floor"], qnoise_factor=[0.5, 0.0], use_ste=[False]),
        contexts=[{}, {"bits": 4}]),
    "quantized_hswish": dict(
        options=dict(bits=[4, 6], integer=[1, 2], symmetric=[1], alpha=["auto", "auto_po2"],
                     use_stochastic_rounding=[True], scale_axis=[0], qnoise_factor=[0.5],
                     relu_shift=[2, 1], relu_upper_bound=[4, 8]),
        contexts=[{}, {"bits": 4, "integer": 1}]),
}


def _key(kw):
  return tuple(sorted((k, repr(enc(v))) for k, v in kw.items()))


def configs(cls_name, tier, rng):
  """keyword sets of one class: default, every option value under every context, then
  pairs of options (a seeded sample in quick, all pairs plus sampled triples in thorough)"""
  lat = LATTICE[cls_name]
  opts = lat["options"]
  out, seen = [], set()

  def add(kw, kind):
    k = _key(kw)
    if k not in seen:
      seen.add(k)
      out.append((kind, dict(kw)))

  add({}, "default")
  for ctx in lat["contexts"]:
    add(ctx, "context")
    for o, vals in opts.items():
      if o in ctx:
        continue
      for v in vals:
        kw = dict(ctx)
        kw[o] = v
        add(kw, "single")
  pairs = []
  names = list(opts)
  for a, b in itertools.combinations(names, 2):
    for va in opts[a]:
      for vb in opts[b]:
        pairs.append({a: va, b: vb})
  if tier == "quick":
    n = min(len(pairs), 36)
    idx = sorted(rng.choice(len(pairs), size=n, replace=False).tolist()) if pairs else []
    for i in idx:
      add(pairs[i], "pair")
  else:
    for p in pairs:
      add(p, "pair")
    for _ in range(60):
      ks = rng.choice(len(names), size=min(3, len(names)), replace=False).tolist()
      kw = {names[i]: opts[names[i]][int(rng.integers(len(opts[names[i]])))] for i in ks}
      add(kw, "triple")
  return out


# --------------------------------------------------------------------------- observation

def probes(rng):
  """rank-2 and rank-4 probe tensors with distinct rows / columns / channels, values inside
  and far outside every clip range, both signs, exact zeros"""
  base = np.array([[0.11, -0.73, 1.9, 3.3, -0.3, 0.02],
                   [-2.6, 0.47, -0.05, 7.5, 0.9, -6.1],
                   [0.9, -1.2, 0.3, -0.02, 12.0, 0.65],
                   [0.0, 0.26, -0.51, 1.01, -1.49, 2.3]], dtype=np.float32)
  r = (rng.standard_normal((4, 6)) * np.array([[0.3], [1.0], [3.0], [0.1]])).astype(np.float32)
  x4 = (rng.standard_normal((2, 3, 2, 6)) * np.linspace(0.2, 4.0, 6)).astype(np.float32)
  return [base, r, x4]


def observe(q, xs, phases=(0, 1), grad=True):
  """outputs, scale and gradient of quantizer `q` on the probe tensors, as comparable bytes"""
  import tensorflow as tf
  import tensorflow.keras.backend as K
  obs = {}
  for ph in phases:
    K.set_learning_phase(ph)
    for i, x in enumerate(xs):
      tf.random.set_seed(1234 + i)
      try:
        xt = tf.constant(x)
        if grad:
          with tf.GradientTape() as tape:
            tape.watch(xt)
            y = q(xt)
          g = tape.gradient(y, xt)
          obs["g%d_%d" % (ph, i)] = None if g is None else np.asarray(g.numpy(), np.float32).tobytes()
        else:
          y = q(xt)
        obs["y%d_%d" % (ph, i)] = np.asarray(y.numpy() if hasattr(y, "numpy") else y,
                                             np.float32).tobytes()
        s = getattr(q, "scale", None)
        if s is not None:
          s = np.asarray(K.eval(s) if hasattr(s, "numpy") or tf.is_tensor(s) else s, np.float32)
          obs["s%d_%d" % (ph, i)] = (s.shape, s.tobytes())
        else:
          obs["s%d_%d" % (ph, i)] = None
      except Exception as e:  # pylint: disable=broad-except
        obs["y%d_%d" % (ph, i)] = ("raises", err_tag(e))
  K.set_learning_phase(0)
  return obs


def obs_diff(a, b):
  """which kinds of observation differ: subset of {'output','scale','gradient'}"""
  kinds = set()
  for k in a:
    if a[k] != b.get(k):
      kinds.add({"y": "output", "s": "scale", "g": "gradient"}[k[0]])
  return kinds


def attrs(q, names):
  """stored constructor arguments of a live quantizer (encoded)"""
  out = {}
  for n in names:
    try:
      out[n] = enc(getattr(q, n))
    except Exception as e:  # pylint: disable=broad-except
      out[n] = {"s": "<unreadable:%s>" % err_tag(e)}
  return out


# =========================================================================== strengthening round
# (C09, seeds C09-5 / C09-6 and the cross-cutting blind spots).  Additions only: nothing above
# changes, so the C10 generator is what it was.

PO2_CLASSES = ("quantized_po2", "quantized_relu_po2")
STOCHASTIC_CLASSES = ("bernoulli", "stochastic_binary", "stochastic_ternary")
SIGMOID_MODES = ("hard", "smooth", "real")


def po2_boundary(cls_name, tier="quick"):
  """boundary cells of the exponent-range derivation of the two po2 classes: the smallest
  exponent widths x max_value below / at / above 1 (1 is where the exponent sign bit appears),
  a non-power-of-two max_value, with and without the quadratic approximation, both slopes"""
  if cls_name not in PO2_CLASSES:
    return []
  out = []
  bits_l = [1, 2] if tier == "quick" else [1, 2, 3]
  for bits in bits_l:
    for mv in [None, 0.5, 1, 2, 4, 3]:
      for quad in [False, True]:
        slopes = [None] if cls_name == "quantized_po2" else [0, 0.25]
        for sl in slopes:
          kw = {"bits": bits}
          if mv is not None:
            kw["max_value"] = mv
          if quad:
            kw["quadratic_approximation"] = True
          if sl:
            kw["negative_slope"] = sl
          out.append(kw)
  # the same boundary under the other rounding modes / a large width
  out += [{"bits": 1, "max_value": 2, "log2_rounding": "floor"},
          {"bits": 2, "max_value": 2, "quadratic_approximation": True, "use_stochastic_rounding": True},
          {"bits": 1, "max_value": 2.0}, {"bits": 1, "max_value": 1.0}, {"bits": 1, "max_value": 1.5},
          {"bits": 8, "max_value": 2}, {"bits": 8, "max_value": 1}]
  return out


def po2_probe():
  """probe across the WHOLE float32 exponent range: +-2**k, values between the powers, the
  float32 extremes, zero"""
  ks = np.array([-149, -140, -127, -126, -100, -65, -64, -63, -33, -32, -31, -17, -16, -15, -10, -9, -8,
                 -7, -5, -4, -3, -2, -1, 0, 1, 2, 3, 4, 5, 7, 8, 9, 15, 16, 17, 31, 32, 33, 63, 64, 65,
                 100, 126, 127], dtype=np.float64)
  p = np.concatenate([2.0 ** ks, 1.4 * 2.0 ** ks[2:-1], 1.5 * 2.0 ** ks[2:-1], [0.0]])
  x = np.concatenate([p, -p]).astype(np.float32)
  return x.reshape(2, -1)


def sigmoid_probe():
  """values on which hard / smooth / real sigmoid differ visibly (and their saturation)"""
  return np.linspace(-4.0, 4.0, 161).astype(np.float32).reshape(7, 23)


# attributes every call rewrites (a used object differs from a fresh one in these only)
VOLATILE = ("built", "scale", "quantization_scale")
# private copy of a build-only option (`use_variables` is deliberately not serialised)
BUILD_ONLY_MIRRORS = ("_use_variables",)


def henc(v):
  """comparable encoding of an attribute value that need not be a literal"""
  try:
    return enc(v)
  except Exception:  # pylint: disable=broad-except
    pass
  if callable(v):
    return {"s": "<callable:%s>" % getattr(v, "__name__", type(v).__name__)}
  return {"s": "<%s>" % type(v).__name__}


def hidden(q, names):
  """everything a live quantizer holds besides its constructor arguments: vars(q) minus the
  signature names (insertion order = __init__ order), encoded"""
  # `_self_*`: bookkeeping of tf.Module's attribute tracking (appears with list-valued options)
  return [[k, henc(v)] for k, v in vars(q).items() if k not in names and not k.startswith("_self_")]


def form_of(v):
  """how a value is held: literal | np_scalar | ndarray | tensor | variable"""
  import tensorflow as tf
  if isinstance(v, tf.Variable):
    return "variable"
  if tf.is_tensor(v):
    return "tensor"
  if isinstance(v, np.ndarray):
    return "ndarray"
  if isinstance(v, np.generic):
    return "np_scalar"
  return "literal"


def forms(v, alt=0):
  """the same option value held in other forms (bool / int / float literals only); `alt`
  selects which of two numpy widths is used (both in the thorough tier: alt=None)"""
  import tensorflow as tf
  out = []
  if isinstance(v, bool):
    out += [("int", int(v)), ("np.bool_", np.bool_(v))]
  elif isinstance(v, int):
    out += [("np.int64", np.int64(v)), ("np.int32", np.int32(v))] if alt is None else \
        [("np.int64", np.int64(v))] if alt == 0 else [("np.int32", np.int32(v))]
    out += [("ndarray0", np.array(v)), ("tf.constant", tf.constant(v)), ("float", float(v))]
  elif isinstance(v, float):
    out += [("np.float32", np.float32(v)), ("np.float64", np.float64(v))] if alt is None else \
        [("np.float32", np.float32(v))] if alt == 0 else [("np.float64", np.float64(v))]
    out += [("ndarray0", np.array(v, dtype=np.float32)), ("tf.constant", tf.constant(v))]
    if v == int(v):
      out.append(("int", int(v)))
  return out


def is_tensor_dict(v):
  """a tf.Tensor as serialize_keras_object leaves it: {'class_name': '__tensor__', ...}"""
  try:
    return v.get("class_name") == "__tensor__"
  except Exception:  # pylint: disable=broad-except
    return False


# =========================================================================== strengthening round 2
# (C09, seeds C09-7 / C09-8).  Additions only.

def form_of2(v):
  """like form_of, but a numpy array with >= 1 dimension is "array" (the model's Form.array: what
  `isinstance(self.alpha, np.ndarray)` branches on and serialize_keras_object tags `__numpy__`)"""
  f = form_of(v)
  if f == "ndarray" and v.ndim > 0:
    return "array"
  return f


def tagged_dict(v):
  """the tag of a value as serialize_keras_object leaves a tf.Tensor / numpy array of >= 1
  dimension: "__tensor__" / "__numpy__" ; None for anything else"""
  try:
    t = v.get("class_name")
    return t if t in ("__tensor__", "__numpy__") else None
  except Exception:  # pylint: disable=broad-except
    return None


CHANNEL_FACTORS = (1.0, 2.0, 0.5, 0.25, 1.0, 4.0)     # last axis of every probe tensor has size 6


def array_forms(v):
  """a numeric option value held as array-like: size-1 array, per-channel arrays (rank 1 and
  rank 2, float32 and float64), list, tuple.  The per-channel variants of a float scale the value
  by powers of two (distinct channels), of an int repeat it."""
  if isinstance(v, bool) or not isinstance(v, (int, float)):
    return []
  if isinstance(v, int):
    chan, dt = [v] * 6, np.int64
  else:
    chan, dt = [v * c for c in CHANNEL_FACTORS], np.float32
  return [("ndarray[1]", np.array([v], dtype=dt)),
          ("ndarray[6]", np.array(chan, dtype=dt)),
          ("ndarray[1,6]", np.array([chan], dtype=np.float64 if dt is np.float32 else np.int32)),
          ("list[1]", [v]),
          ("tuple[6]", tuple(chan))]


def public_state(q):
  """every attribute of a live quantizer except what a call rewrites and tf.Module bookkeeping,
  encoded (model-free: no table of names involved)"""
  return {k: henc(v) for k, v in vars(q).items() if k not in VOLATILE and not k.startswith("_self_")}


def live_params(cls):
  """[(name, default, annotation)] of the LIVE constructor signature"""
  import inspect
  out = []
  for p in list(inspect.signature(cls.__init__).parameters.values())[1:]:
    if p.kind in (p.VAR_POSITIONAL, p.VAR_KEYWORD):
      continue
    out.append((p.name, None if p.default is p.empty else p.default,
                None if p.annotation is p.empty else p.annotation))
  return out


BUILD_ONLY = ("var_name", "use_variables")

_NAME_HINTS = (
    (("exponent", "shift"), [-1, 1, -2, 0, -7]),
    (("axis",), [0, 1, -1]),
    (("bits", "integer", "unroll"), [4, 1, 2]),
    (("elements",), [2, 3]),
    (("alpha",), ["auto", "auto_po2", 2.0]),
    (("scale", "threshold", "bound", "value", "slope", "factor", "temperature", "clip", "max", "min"),
     [0.5, 2.0, 1, 0.0]),
    (("use_", "is_", "enable", "symmetric", "keep_", "stochastic"), [True, False, 1]),
    (("rounding", "mode"), ["floor", "rnd"]),
)


def guess_values(pname, default, annotation=None, cap=7):
  """typed candidate values of a constructor parameter the lattice does not know: values of the
  same-named option of any class of the lattice, neighbours of the default (by its type), values by
  annotation, values suggested by the name; falsy-but-legal values included; the default excluded"""
  vals = []
  for lat in LATTICE.values():
    vals += [v for v in lat["options"].get(pname, []) if not isinstance(v, (np.ndarray, list))]
  if isinstance(default, bool):
    vals += [not default]
  elif isinstance(default, int):
    vals += [default + 1, default - 1, 0, 2 * default]
  elif isinstance(default, float):
    vals += [default / 2, default * 2, 0.0, default + 1.0]
  elif isinstance(default, str):
    vals += [s for s in ("auto", "auto_po2", "floor", "rnd", "") if s != default]
  ann = getattr(annotation, "__name__", str(annotation)) if annotation is not None else ""
  if ann == "int":
    vals += [1, 0, -1, 4]
  elif ann == "float":
    vals += [0.5, 0.0, 2.0]
  elif ann == "bool":
    vals += [True, False]
  low = pname.lower()
  for keys, vs in _NAME_HINTS:
    if any(k in low for k in keys):
      vals += vs
  if not vals:
    vals = [1, 0, -1, 0.5, True, "auto"]
  out, seen = [], set()
  for v in vals:
    k = (type(v).__name__, repr(v))
    if k in seen or (v == default and type(v) is type(default)):
      continue
    seen.add(k)
    out.append(v)
  return out[:cap]


def sweep_contexts(cls_name):
  """keyword sets under which an option unknown to the lattice is swept: every context of the
  class, and every context extended by one (option, value) of the lattice - an option usually
  matters only next to another one (exponent bounds next to alpha="auto_po2")"""
  lat = LATTICE.get(cls_name, {"options": {}, "contexts": [{}]})
  out, seen = [], set()

  def add(kw):
    k = _key(kw)
    if k not in seen:
      seen.add(k)
      out.append(dict(kw))
  for ctx in lat["contexts"]:
    add(ctx)
  for ctx in lat["contexts"]:
    for o, vs in lat["options"].items():
      if o in ctx:
        continue
      for v in vs:
        kw = dict(ctx)
        kw[o] = v
        add(kw)
  return out


# =========================================================================== strengthening round 3
# (C09, seed C09-9: state derived at construction goes stale when a layer adopts the quantizer).
# Additions only.

def _rnn_held(layer):
  return layer.cell.recurrent_quantizer_internal


# public wrappers that call `_set_trainable_parameter()` on the quantizer they are handed:
# (name, layer factory, how to reach the held quantizer)
LAYER_WRAPPERS = (
    ("QDense.kernel", lambda m, q: m.QDense(4, kernel_quantizer=q),
     lambda l: l.kernel_quantizer_internal),
    ("QConv2D.kernel", lambda m, q: m.QConv2D(4, 3, kernel_quantizer=q),
     lambda l: l.kernel_quantizer_internal),
    ("QDepthwiseConv2D.depthwise", lambda m, q: m.QDepthwiseConv2D(3, depthwise_quantizer=q),
     lambda l: l.depthwise_quantizer_internal),
    ("QSeparableConv2D.pointwise", lambda m, q: m.QSeparableConv2D(4, 3, pointwise_quantizer=q),
     lambda l: l.pointwise_quantizer_internal),
    ("QConv1D.kernel", lambda m, q: m.QConv1D(4, 3, kernel_quantizer=q),
     lambda l: l.kernel_quantizer_internal),
    ("QSimpleRNN.recurrent", lambda m, q: m.QSimpleRNN(4, recurrent_quantizer=q), _rnn_held),
    ("QBatchNormalization.gamma", lambda m, q: m.QBatchNormalization(gamma_quantizer=q),
     lambda l: l.gamma_quantizer_internal),
)


def adopt(idx, q):
  """hand the live quantizer `q` to a layer through the public constructor; returns
  (wrapper name, layer, getter)"""
  import qkeras
  name, make, held = LAYER_WRAPPERS[idx % len(LAYER_WRAPPERS)]
  return name, make(qkeras, q), held


def stp_overridden(cls):
  """the class (or a base other than BaseQuantizer) defines `_set_trainable_parameter`"""
  for k in cls.__mro__:
    if "_set_trainable_parameter" in vars(k):
      return k.__name__ != "BaseQuantizer"
  return False


_REPORTER_METHODS = ("max", "min", "range", "get_clip_bounds")
_REPORTER_PROPERTIES = ("data_type_scale", "use_sign_function", "auto_alpha", "default_quantization_scale")


def reporters(q):
  """what the public reporters of a live quantizer answer NOW (model-free; a reporter that
  raises is recorded as such)"""
  out = {}
  for n in _REPORTER_METHODS:
    f = getattr(q, n, None)
    if callable(f):
      try:
        out[n + "()"] = henc(f())
      except Exception as e:  # pylint: disable=broad-except
        out[n + "()"] = {"s": "<raises:%s>" % err_tag(e)}
  for n in _REPORTER_PROPERTIES:
    if isinstance(getattr(type(q), n, None), property):
      try:
        out[n] = henc(getattr(q, n))
      except Exception as e:  # pylint: disable=broad-except
        out[n] = {"s": "<raises:%s>" % err_tag(e)}
  return out


def lin_derived(q):
  """call-time derived quantities of a quantized_linear as exact rationals (model: linDerived)"""
  if type(q).__name__ != "quantized_linear":
    return None
  try:
    lo, hi = q.get_clip_bounds()
    return {"clip": [core.rj(float(lo)), core.rj(float(hi))],
            "data_type_scale": core.rj(float(q.data_type_scale)),
            "use_sign_function": bool(q.use_sign_function), "auto_alpha": bool(q.auto_alpha)}
  except Exception as e:  # pylint: disable=broad-except
    return {"raises": err_tag(e)}


def trainable_cells(cls_name, rewritten):
  """configurations on which `_set_trainable_parameter()` FIRES (alpha None), aimed at its case
  split: (A) every single-option configuration of the default context, (B) every context with
  `alpha` stripped, alone and next to every lattice value and 0 / 1 of every option the
  step REWRITES besides alpha (`rewritten`: read from the model).  Returns [(kind, kw)]"""
  lat = LATTICE[cls_name]
  if "alpha" not in lat["options"]:
    return []
  out, seen = [], set()

  def add(kind, kw):
    k = _key(kw)
    if k not in seen and kw.get("alpha") is None:
      seen.add(k)
      out.append((kind, {a: b for a, b in kw.items() if a != "alpha"}))
  stripped = []
  for ctx in lat["contexts"]:
    s = {a: b for a, b in ctx.items() if a != "alpha"}
    if s not in stripped:
      stripped.append(s)
  for o in rewritten:
    vals = list(lat["options"].get(o, [])) + [0, 1]
    for s in stripped:
      if o in s:
        continue
      for v in vals:
        kw = dict(s)
        kw[o] = v
        add("B", kw)
  for s in stripped:
    add("B", s)
  for o, vals in lat["options"].items():
    if o == "alpha":
      continue
    for v in vals:
      if isinstance(v, np.ndarray):
        continue
      add("A", {o: v})
  return out
