"""entry point: python -m qkv.run <property> <tier>"""
import importlib
import os
import subprocess
import sys
import time
import traceback

from . import core


def main(argv):
  if len(argv) < 2:
    print("usage: python -m qkv.run Cxx quick|thorough")
    return 2
  prop, tier = argv[0], argv[1]
  try:
    r = core.Run(prop, tier)
    mod = importlib.import_module("qkv.props." + prop.lower())
    mods = getattr(mod, "PROP_MODULES", None)
    r.audit = core.audit(prop, mods, getattr(mod, "PROP_PREFIXES", None))
    if tier == "thorough" and r.audit["build_ok"]:
      lc = core.leanchecker(prop, mods)
      r.extra["leanchecker"] = lc
      if not lc["ok"]:
        r.audit["ok"] = False
        r.audit["build_log"] = "leanchecker rejected: " + lc["log"]
    child_rc = 0
    if tier == "thorough" and getattr(mod, "KERAS3_PASS", False) and not os.environ.get("QKV_CHILD_TAG"):
      # the pure-quantizer properties are repeated under the pinned Keras 3 (DESIGN §2)
      env = dict(os.environ)
      env.pop("TF_USE_LEGACY_KERAS", None)
      env["QKV_CHILD_TAG"] = ".keras3"
      p = subprocess.run([sys.executable, "-W", "ignore", "-m", "qkv.run", prop, "quick"], env=env,
                         capture_output=True, text=True)
      lines = [l for l in p.stdout.splitlines() if l.startswith(("VIOLATION", "KNOWN-FINDING", "[", "INFRA"))]
      for l in lines:
        if not l.startswith("KNOWN-FINDING"):
          print(l)
      child_rc = p.returncode
      r.extra["keras3_pass"] = {"exit": child_rc, "summary": [l for l in lines if l.startswith("[")]}
    mod.run(r, tier)
    rc = r.finish()
    return max(rc, child_rc)
  except core.InfraError as e:
    print("INFRA-ERROR %s: %s" % (prop, e))
    return 2
  except Exception:  # pylint: disable=broad-except
    traceback.print_exc()
    print("INFRA-ERROR %s: harness exception" % prop)
    return 2


if __name__ == "__main__":
  sys.exit(main(sys.argv[1:]))
