"""entry point: python -m qkv.run <property> <tier>"""
import importlib
import sys
import time
import traceback

from . import core


def main(argv):
  if len(argv) < 2:
    print("usage: python -m qkv.run Cxx quick|thorough")
    return 2
  prop, tier = argv[0], argv[1]
  try:
    r = core.Run(prop, tier)
    r.audit = core.audit(prop)
    if tier == "thorough" and r.audit["build_ok"]:
      lc = core.leanchecker(prop)
      r.extra["leanchecker"] = lc
      if not lc["ok"]:
        r.audit["ok"] = False
        r.audit["build_log"] = "leanchecker rejected: " + lc["log"]
    mod = importlib.import_module("qkv.props." + prop.lower())
    mod.run(r, tier)
    return r.finish()
  except core.InfraError as e:
    print("INFRA-ERROR %s: %s" % (prop, e))
    return 2
  except Exception:  # pylint: disable=broad-except
    traceback.print_exc()
    print("INFRA-ERROR %s: harness exception" % prop)
    return 2


if __name__ == "__main__":
  sys.exit(main(sys.argv[1:]))
