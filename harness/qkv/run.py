"""entry point: python -m qkv.run <property> <tier>"""
import importlib
import os
import subprocess
import sys
import time
import traceback

from . import core


def main(argv):
  if len(argv) < 2:
    print("usage: python -m qkv.run Cxx quick|thorough")
    return 2
  prop, tier = argv[0], argv[1]
  try:
    r = core.Run(prop, tier)
    mod = importlib.import_module("qkv.props." + prop.lower())
    mods = getattr(mod, "PROP_MODULES", None)
    r.audit = core.audit(prop, mods, getattr(mod, "PROP_PREFIXES", None))
    if tier == "thorough" and r.audit["build_ok"]:
      lc = core.leanchecker(prop, mods)
      r.extra["leanchecker"] = lc
      if not lc["ok"]:
        r.audit["ok"] = False
        r.audit["build_log"] = "leanchecker rejected: " + lc["log"]
    child_rc = 0
    if tier == "thorough" and getattr(mod, "KERAS3_PASS", False) and not os.environ.get("QKV_CHILD_TAG"):
      # the pure-quantizer properties are repeated under the pinned Keras 3 (DESIGN §2)
      env = dict(os.environ)
      env.pop("TF_USE_LEGACY_KERAS", None)
      env["QKV_CHILD_TAG"] = ".keras3"
      p = subprocess.run([sys.executable, "-W", "ignore", "-m", "qkv.run", prop, "quick"], env=env,
                         capture_output=True, text=True)
      lines = [l for l in p.stdout.splitlines() if l.startswith(("VIOLATION", "KNOWN-FINDING", "[", "INFRA"))]
      for l in lines:
        if not l.startswith("KNOWN-FINDING"):
          print(l)
      child_rc = p.returncode
      r.extra["keras3_pass"] = {"exit": child_rc, "summary": [l for l in lines if l.startswith("[")]}
    mod.run(r, tier)
    rc = r.finish()
    return max(rc, child_rc)
  except core.InfraError as e:
    print("INFRA-ERROR %s: %s" % (prop, e))
    return 2
  except (MemoryError, OSError, subprocess.SubprocessError):
    traceback.print_exc()
    print("INFRA-ERROR %s: harness exception" % prop)
    return 2
  except Exception as e:  # pylint: disable=broad-except
    # The harness is deterministic for a seed and completes on the tree it was built against, so an
    # exception while it drives the real code means the code's behaviour changed under it (a call that
    # used to return now raises, an output has another shape, ...).  That breaks the correspondence:
    # report it as such (DESIGN.md section 1C: broken tie, no failing input identified) rather than as an
    # infrastructure failure, with the traceback as the replay.
    tb = traceback.format_exc()
    traceback.print_exc()
    try:
      in_repo = (os.path.realpath(core.REPO) + os.sep) in tb or "/qkeras/" in tb
      r.disagree("harness-exception", {"exception": type(e).__name__, "message": str(e)[:500],
                                       "raised_inside_repo_code": in_repo},
                 "traceback", tb[-4000:])
      return max(r.finish(), 1)
    except Exception:  # pylint: disable=broad-except
      traceback.print_exc()
      print("INFRA-ERROR %s: harness exception" % prop)
      return 2


if __name__ == "__main__":
  sys.exit(main(sys.argv[1:]))
