"""C01 — fixed-point quantizers emit only representable codes of the declared format."""
from fractions import Fraction as F

from .. import core, fixedq


KERAS3_PASS = True   # thorough tier repeats the tie under the pinned Keras 3
# the float32 transfer theorems (QKV.Props.C01F) are proof obligations of C01 as well
PROP_MODULES = ["QKV.Props.C01", "QKV.Props.C01F"]
PROP_PREFIXES = ["C01_"]   # C01_f32_* in Props/C01F.lean (its C01F_* aliases are duplicates)


def run(run: core.Run, tier: str):
  recs = fixedq.collect(run, tier, "C01")
  run.extra["rule"] = (
      "configurations = stratified seeded sample of the lattice (bits 1..8 quick / 1..12 thorough, integer "
      "-2..bits+1, keep_negative, symmetric, alpha in {None,1,1/2,2,1/4}, slopes 2^-k) for quantized_bits, "
      "quantized_linear, quantized_relu, quantized_tanh, quantized_sigmoid; inputs per configuration = every "
      "code's lattice point and rounding breakpoint +-1,2 ulp (all codes up to 40, else both ends + 24 "
      "interior), saturation edges, +-0, subnormals, +-(2^24-1) steps, random uniform and log-uniform; "
      "non-trivial = distinct (configuration, input bit pattern); PLUS per-channel constant alpha tensors "
      "(layouts [1,C] / [C] / [C,1] / list / tuple / tf.constant, differing and equal entries; one record per "
      "channel, min()/max() paired with each output element as numpy broadcasting pairs them, range() per "
      "channel or as one list), quantized_relu x is_quantized_clip x relu_upper_bound (None, 0.0, on-grid "
      "below / at / above the largest code, off-grid) x leaky slope, every reader of the module-level _sigmoid "
      "(quantized_sigmoid, quantized_tanh, quantized_relu(use_sigmoid=1)) x mode at construction x mode at "
      "call, and construct-with-decoy-then-assign-attributes; PLUS histories on ONE object of every class "
      "(fixedq_hist): sequences of {call on a tensor of rank 0..5 / batch 1 as ndarray, tf.constant or "
      "tf.Variable; min()/max()/range() in any order; assignment of a public attribute (bits, integer, "
      "symmetric, keep_negative, alpha, negative_slope, relu_upper_bound, is_quantized_clip, use_sigmoid, "
      "use_real_*) with the value as int / np.int64 / np.int32, bool / int / np.bool_, float / np.float32 / "
      "np.float64 / 0-d ndarray; _set_trainable_parameter(); handing the object to QDense / QConv1D / QConv2D / "
      "QDepthwiseConv2D / QSeparableConv1D/2D / QActivation in every role; set_internal_sigmoid}: fixed "
      "templates (call-flip symmetric-call both ways, used-then-trainable, reporters-then-layer, every role, "
      "every attribute, alpha assigned, auto_po2 and back) plus random histories; after every step the outputs "
      "and reporters are compared bit for bit with a FRESH twin built from the current attributes and with the "
      "Lean state machine (QKV.Model.FixedQObj), and each call is one record judged by the clauses against the "
      "format of the CURRENT attributes (under the data-dependent scale of auto_po2: given the scale the object "
      "reports); PLUS family stoch-phase (use_stochastic_rounding set, flag in 4 argument forms, inference phase "
      "reached by 10 routes, and the flag off in the training phase; model QKV.qbitsS etc.) and stoch-train (the "
      "TRAINING-phase calls made on those routes: random draws, no model value; judged by on_lattice / minmax / "
      "cardinality, which Props.C01.C01_*_stoch_on_lattice prove for every draw)")
  fixedq.compare(run, recs)
  import numpy as np
  for r in recs:
    key0 = r.flags()
    lat = fixedq.lattice(r.kind, r.cfg)
    seen = set()
    per_elem = getattr(r, "impl_min_all", None)
    for idx, (x, y) in enumerate(zip(r.xs, r.ys)):
      run.case((r.label, x), nontrivial=True)
      seen.add(y)
      # ---- clause: min()/max() enclose every output (per-channel reporters: the bound numpy
      # broadcasting pairs with this element)
      if r.impl_min is not None:
        mn, mx = (per_elem[idx], r.impl_max_all[idx]) if per_elem is not None else (r.impl_min, r.impl_max)
        if not (mn <= y <= mx):
          a = r.cfg.get("alpha")
          run.violate("minmax", dict(key0, alpha_gt_1=bool(a not in (None, 1.0) and a > 1),
                                     which="max" if y > mx else "min"),
                      {"config": r.label, "x": str(x), "y": str(y), "min": str(mn), "max": str(mx)},
                      mirrored=r.mirrored)
      # ---- clause: integer multiple of the step, between the smallest and largest code
      if lat is None:
        # 1-bit sign formats: {-g, +g} (or {0, g} unsigned) resp. +-qs/2
        continue
      step, lo, hi, gain = lat
      k = y / (gain * step)
      if k.denominator != 1:
        half = (2 * k).denominator == 1
        run.violate("on_lattice", dict(key0, why="not-a-multiple-of-step", half_step=half,
                                       leaky=bool(r.cfg.get("slope_log") is not None),
                                       slope_below_lsb=bool(r.kind == "qrelu" and r.cfg.get("slope_log") is not None
                                                            and 2 ** (r.cfg["bits"] - 1) < 2 ** r.cfg["slope_log"])),
                    {"config": r.label, "x": str(x), "y": str(y), "step": str(step)}, mirrored=r.mirrored)
      elif not (lo <= k <= hi):
        run.violate("on_lattice", dict(key0, why="code-out-of-range"),
                    {"config": r.label, "x": str(x), "y": str(y), "code": str(k), "lo": lo, "hi": hi},
                    mirrored=r.mirrored)
    if lat is not None and len(seen) > 2 ** r.cfg["bits"]:
      run.violate("cardinality", key0, {"config": r.label, "distinct": len(seen)}, mirrored=r.mirrored)
    # ---- clause: range() enumerates exactly the reachable set
    if isinstance(r.impl_range, list):
      run.count("range_checked" + ("_flat_per_channel" if r.range_flat else ""))
      rng_set = set(r.impl_range)
      extra = seen - rng_set
      kr = dict(key0, one_bit=r.cfg["bits"] == 1, range_flat=r.range_flat)
      if extra:
        run.violate("range_superset", kr,
                    {"config": r.label, "reachable_not_listed": [str(v) for v in sorted(extra)[:4]]},
                    mirrored=r.mirrored)
      if r.range_flat and "pc" in r.cfg and r.range_unreachable is None and len(r.cfg["pc"]) \
          and not r.cfg["pc"].endswith("[0]"):
        continue    # one list for all channels: "listed but unreachable" is judged once, on channel 0
      if r.range_unreachable is not None:
        unreachable = r.range_unreachable
      else:
        # every listed value must be reachable: it is a fixed point of the quantizer
        vals = np.array([float(v) for v in r.impl_range], dtype=np.float32)
        back = fixedq.fr(r.call(vals))
        unreachable = [v for v, b in zip(r.impl_range, back) if v != b and v not in seen]
        run.evaluations += len(vals)
      if unreachable:
        run.violate("range_subset", kr,
                    {"config": r.label, "listed_not_reachable": [str(v) for v in unreachable[:4]]},
                    mirrored=r.mirrored)
  run.extra["configurations"] = len(recs)
  # ---- float32 layer: rnd32 / qbitsF / qreluF / qlinearF vs TensorFlow bit for bit, inside and outside
  # the envelope; inside it the exact model must be hit (Props.C01F transfer theorems)
  from . import c01f
  c01f.run(run, tier)
  run.extra["rule"] += "; PLUS the float32 transcription tie of QKV.Model.F32: " + run.extra.pop("rule_f32", "")
