"""C04 — object-level streams (strengthening round): argument forms, API routes, stochastic variants in the
inference phase, histories on one object, process-level state.

The tensor-level streams of c04.py build a FRESH binary / ternary object per case from python floats and
call it once.  Here every case is a SCENARIO: a class (binary, ternary, stochastic_binary,
stochastic_ternary — the last two in the inference phase, where they delegate to the base class), a
construction route (keywords, positional, config dict through get_quantizer, from_config, the string form
with and without blanks), arguments in every numeric form the dispatch code can meet (python float / int,
numpy float32 / float64 / int32 / int64, 0-d and per-channel ndarrays of several dtypes, eager tensors,
variables) and a history of operations on the ONE object: calls on tensors of different rank / shape /
container, attribute changes, `_set_trainable_parameter` (directly or by handing the object to a layer),
data-format switches.  After every call the real output and `q.scale` are
  * compared bit for bit with the Lean model of the live object (`BinObj` / `TerObj`, driver ops
    bin_hist / ter_hist: the same definitions the history theorems of Props/C04 are about),
  * judged by the clause oracle of c04.py (plus: constant alpha => `q.scale` == alpha),
  * compared with a FRESH TWIN (same class, canonical python-float arguments, built at that moment):
    the k-th use must be a first use, `q.scale` must be that of the last call, `get_weight_scale` must
    report it, and an object built from the same text must not share state with it.

Second strengthening round (seed C04-7): every mutable object handed to the real code (a LIST scale_axis /
elements_per_scale, an ndarray alpha / threshold — through the constructor or through an attribute
assignment) is a private COPY the harness keeps a handle on; the harness' own record of the CONFIGURED
value is never seen by the real code.  After every call
  * the configured groups (constructor / setter spelling of scale_axis, counted against the rank of the
    CURRENT tensor) are what `scale_group_constant` / `least_squares` / `po2` / `scale_shape` are judged on,
  * clause `attrs_unchanged_by_call`: every public attribute except `scale` / `built` is what it was
    before the call (by value: lists entry by entry, arrays / tensors byte by byte),
  * clause `argument_not_mutated`: every handed-over object still has the value it was handed over with —
    also when ONE list / array is shared by two quantizers (pair scenarios, calls interleaved).
New streams: `hist-axis` (list / int / negative / mixed scale axes x elements_per_scale on histories whose
rank changes 2..5, all construction routes incl. attribute assignment on stochastic_binary) and `shared`
(two objects built from one python list / one ndarray)."""
import copy
from fractions import Fraction as F

import numpy as np

from .. import autoscale as A
from .. import core

BASE = {"binary": "binary", "stochastic_binary": "binary", "ternary": "ternary", "stochastic_ternary": "ternary"}
CLASSES = ["binary", "stochastic_binary", "ternary", "stochastic_ternary"]

FLOAT_FORMS = ["pyfloat", "npfloat32", "npfloat64", "nd0_f32", "nd0_f64", "tfconst", "tfvariable"]
INT_FORMS = ["pyint", "npint32", "npint64", "nd0_i64", "tfconst_i"]
LEAN_FORM = {"pyfloat": "pyfloat", "pyint": "pyint", "pybool": "pybool", "npfloat32": "npfloat32",
             "npfloat64": "npfloat64", "npint32": "npint32", "npint64": "npint64", "tfconst": "tfconst",
             "tfconst_i": "tfconst", "tfvariable": "tfvariable"}


# ------------------------------------------------------------------ argument specs

def num(form, v):
  return dict(f=form, v=v)


def arr(vals, dtype):
  return dict(f="ndarray", v=np.asarray(vals, dtype=np.float64), dtype=dtype)


def is_spec(a):
  return isinstance(a, dict)


def arg_obj(tf, a):
  """the Python object handed to the real code"""
  if not is_spec(a):
    return a                     # None or a string
  f, v = a["f"], a["v"]
  if f == "pyfloat":
    return float(v)
  if f == "pyint":
    return int(v)
  if f == "pybool":
    return bool(v)
  if f == "npfloat32":
    return np.float32(v)
  if f == "npfloat64":
    return np.float64(v)
  if f == "npint32":
    return np.int32(v)
  if f == "npint64":
    return np.int64(v)
  if f == "nd0_f32":
    return np.array(v, dtype=np.float32)
  if f == "nd0_f64":
    return np.array(v, dtype=np.float64)
  if f == "nd0_i64":
    return np.array(int(v), dtype=np.int64)
  if f == "tfconst":
    return tf.constant(float(v), dtype=tf.float32)
  if f == "tfconst_i":
    return tf.constant(int(v), dtype=tf.int32)
  if f == "tfvariable":
    return tf.Variable(float(v), dtype=tf.float32)
  if f == "ndarray":
    return np.asarray(v).astype(a["dtype"])
  raise ValueError(f)


def arg_vals(a):
  """exact value(s) of the object `arg_obj` builds, as float64 (scalar or ndarray)"""
  f, v = a["f"], a["v"]
  if f in ("npfloat32", "nd0_f32", "tfconst", "tfvariable"):
    return float(np.float32(v))
  if f == "ndarray":
    return np.asarray(v).astype(a["dtype"]).astype(np.float64)
  return float(v)


def arg_canon(a):
  """the canonical spelling of the same value: None / string / python float / float64 ndarray"""
  return arg_vals(a) if is_spec(a) else a


def arg_json(a):
  if not is_spec(a):
    return a
  f = a["f"]
  if f == "ndarray":
    v = arg_vals(a)
    return dict(f="ndarray", shape=list(v.shape), vals=[core.rj(t) for t in v.ravel().tolist()])
  if f.startswith("nd0"):
    return dict(f="ndarray", shape=[], vals=[core.rj(arg_vals(a))])
  return dict(f=LEAN_FORM[f], v=core.rj(arg_vals(a)))


def arg_label(a):
  if not is_spec(a):
    return "None" if a is None else "str"
  if a["f"] == "ndarray":
    return "ndarray%s:%s" % (list(np.asarray(a["v"]).shape), a["dtype"])
  return a["f"]


def exp_obj(e):
  if e is None:
    return None
  return {"py": int, "pyfloat": float, "npint": np.int64, "npfloat": np.float32}[e["f"]](e["e"])


def exp_json(e):
  if e is None:
    return None
  return dict(f="npint" if e["f"] == "npint" else "py", e=int(e["e"]))


def exp_val(e):
  return None if e is None else int(e["e"])


def axis_obj(sa, np_int=False):
  if np_int and isinstance(sa, int):
    return np.int64(sa)
  return sa


# ------------------------------------------------------------------ snapshots of mutable state

def snap(v):
  """a value-level, hashable picture of an attribute / argument (lists entry by entry — TF's ListWrapper
  is a list —, arrays and tensors byte by byte)"""
  if v is None or isinstance(v, (bool, int, float, str)):
    return (type(v).__name__, v)
  if isinstance(v, (list, tuple)):
    return ("list" if isinstance(v, list) else "tuple", tuple(snap(t) for t in v))
  if isinstance(v, np.ndarray):
    return ("ndarray", str(v.dtype), tuple(v.shape), v.tobytes())
  if isinstance(v, np.generic):
    return (type(v).__name__, v.item())
  if hasattr(v, "numpy"):
    a = np.asarray(v.numpy())
    return ("tensor", str(a.dtype), tuple(a.shape), a.tobytes())
  return ("object", repr(v))


def show(sn):
  """short text of a snapshot for the violation detail"""
  if sn[0] in ("list", "tuple"):
    return "[" + ", ".join(show(t) for t in sn[1]) + "]"
  if sn[0] in ("ndarray", "tensor"):
    return "%s%s:%s" % (sn[0], list(sn[2]), np.frombuffer(sn[3], dtype=sn[1]).ravel()[:6].tolist())
  return repr(sn[1])


NOT_CONFIG = ("scale", "built")     # the documented state a call writes


def public_attrs(q):
  return {k: snap(v) for k, v in vars(q).items() if not k.startswith("_") and k not in NOT_CONFIG}


class Held:
  """the mutable objects handed to the real code (each a private copy, or a deliberately shared object)"""

  def __init__(self, shared=None):
    self.items = []                 # (name, object, snapshot when handed over)
    self.shared = shared or {}      # name -> the ONE object several quantizers are built from

  def give(self, name, value):
    """the object to hand over for the configured `value`"""
    if not isinstance(value, (list, np.ndarray)):
      return value
    obj = self.shared[name] if name in self.shared else copy.deepcopy(value)
    self.items.append((name + (":shared" if name in self.shared else ""), obj, snap(obj)))
    return obj

  def mutated(self):
    return [(n, show(s0), show(snap(o))) for n, o, s0 in self.items if snap(o) != s0]


# ------------------------------------------------------------------ building real objects

def _kwargs(tf, cls, attrs, extra, held):
  kw = {}
  if BASE[cls] == "binary":
    kw["alpha"] = held.give("alpha", arg_obj(tf, attrs["alpha"]))
    if cls == "binary":
      u = attrs["use01"]
      kw["use_01"] = {"bool": bool(u), "int": int(u), "np_bool": np.bool_(u)}[extra.get("use01_form", "bool")]
      if attrs["sa"] is not None:
        kw["scale_axis"] = held.give("scale_axis", axis_obj(attrs["sa"], extra.get("np_axis", False)))
      if attrs["eps"] is not None:
        kw["elements_per_scale"] = held.give("elements_per_scale", attrs["eps"])
      if attrs["mn"] is not None:
        kw["min_po2_exponent"] = exp_obj(attrs["mn"])
      if attrs["mx"] is not None:
        kw["max_po2_exponent"] = exp_obj(attrs["mx"])
  else:
    kw["alpha"] = held.give("alpha", arg_obj(tf, attrs["alpha"]))
    if attrs["threshold"] is not None:
      kw["threshold"] = held.give("threshold", arg_obj(tf, attrs["threshold"]))
    n = attrs["unrolls"]
    if n != 5 or extra.get("unrolls_form"):
      kw["number_of_unrolls"] = {"int": int, "npint64": np.int64}[extra.get("unrolls_form", "int")](n)
  if cls.startswith("stochastic") and "temperature" in extra:
    kw["temperature"] = extra["temperature"]     # unused in the inference phase: must not matter
  return kw


def _lit(a):
  """python-literal text of an argument for the string route (python ints / floats / strings only)"""
  if a is None:
    return "None"
  if isinstance(a, str):
    return "'" + a + "'"
  if isinstance(a, bool):
    return "1" if a else "0"
  if isinstance(a, list):
    return "[" + ",".join(str(int(t)) for t in a) + "]"
  if is_spec(a):
    return str(int(a["v"])) if a["f"] == "pyint" else repr(float(a["v"]))
  return str(a)


def string_text(cls, attrs, blanks, positional):
  items = []
  if BASE[cls] == "binary":
    if cls == "binary" and positional:
      items = [_lit(bool(attrs["use01"])), _lit(attrs["alpha"])]
    else:
      if cls == "binary" and attrs["use01"]:
        items.append("use_01=1")
      if attrs["alpha"] is not None:
        items.append("alpha=" + _lit(attrs["alpha"]))
    if cls == "binary":
      for k, n in (("sa", "scale_axis"), ("eps", "elements_per_scale")):
        if attrs[k] is not None:
          items.append(n + "=" + _lit(attrs[k]))
      for k, n in (("mn", "min_po2_exponent"), ("mx", "max_po2_exponent")):
        if attrs[k] is not None:
          items.append(n + "=" + str(int(attrs[k]["e"])))
  else:
    if positional:
      items = [_lit(attrs["alpha"]), _lit(attrs["threshold"])]
    else:
      if attrs["alpha"] is not None:
        items.append("alpha=" + _lit(attrs["alpha"]))
      if attrs["threshold"] is not None:
        items.append("threshold=" + _lit(attrs["threshold"]))
    if attrs["unrolls"] != 5:
      items.append("number_of_unrolls=" + str(attrs["unrolls"]))
  if blanks:
    return cls + "( " + " , ".join(i.replace("=", " = ") for i in items) + " )"
  return cls + "(" + ",".join(items) + ")"


def build(Q, tf, cls, attrs, route, extra, held=None):
  held = held if held is not None else Held()
  C = getattr(Q, cls)
  if route in ("string", "string_blank", "string_pos"):
    return Q.get_quantizer(string_text(cls, attrs, route == "string_blank", route == "string_pos"))
  if route == "string_layer":
    from qkeras import QActivation     # pylint: disable=import-outside-toplevel
    return QActivation(string_text(cls, attrs, False, False)).quantizer
  kw = _kwargs(tf, cls, attrs, extra, held)
  if route == "attr":
    # construct with the defaults, then ASSIGN the options (the only way to give a stochastic_binary a
    # scale_axis; for the other classes: the same object a constructor call would give)
    first = {k: kw.pop(k) for k in ("alpha", "temperature") if k in kw}
    q = C(**first)
    for k, v in kw.items():
      setattr(q, k, v)
    if cls == "stochastic_binary":
      for k, n in (("sa", "scale_axis"), ("eps", "elements_per_scale")):
        if attrs[k] is not None:
          setattr(q, n, held.give(n, attrs[k]))
      q.use_01 = bool(attrs["use01"])
      q.min_po2_exponent, q.max_po2_exponent = exp_obj(attrs["mn"]), exp_obj(attrs["mx"])
    return q
  if route == "registry":
    from qkeras import quantizer_registry     # pylint: disable=import-outside-toplevel
    return quantizer_registry.lookup_quantizer(cls)(**kw)
  if route == "ctor_pos":
    if cls == "binary":
      pos = [kw.pop("use_01"), kw.pop("alpha")]
    elif cls == "stochastic_binary":
      pos = [kw.pop("alpha")]
    else:
      pos = [kw.pop("alpha"), kw.pop("threshold", None)]
    return C(*pos, **kw)
  if route == "dict":
    return Q.get_quantizer({"class_name": cls, "config": kw})
  if route == "from_config":
    return C.from_config(kw)
  return C(**kw)


def canon_attrs(cls, attrs):
  """the attributes in canonical python spelling (what the fresh twin is built from, what the oracle reads)"""
  if BASE[cls] == "binary":
    return dict(use01=bool(attrs["use01"]), alpha=arg_canon(attrs["alpha"]), sa=attrs["sa"], eps=attrs["eps"],
                mn=exp_val(attrs["mn"]), mx=exp_val(attrs["mx"]))
  return dict(alpha=arg_canon(attrs["alpha"]), threshold=arg_canon(attrs["threshold"]), unrolls=int(attrs["unrolls"]))


ATTR_NAME = dict(use01="use_01", alpha="alpha", sa="scale_axis", eps="elements_per_scale", mn="min_po2_exponent",
                 mx="max_po2_exponent", threshold="threshold", unrolls="number_of_unrolls")


def build_twin(Q, cls, ca):
  """a fresh object of the same class with the canonical spelling of the attributes now in force"""
  C = getattr(Q, cls)
  ca = copy.deepcopy(ca)        # the real code never sees the harness' record of the configuration
  if cls == "binary":
    return C(use_01=ca["use01"], alpha=ca["alpha"], scale_axis=ca["sa"], elements_per_scale=ca["eps"],
             min_po2_exponent=ca["mn"], max_po2_exponent=ca["mx"])
  if cls == "stochastic_binary":
    q = C(alpha=ca["alpha"])
    for k in ("use01", "sa", "eps", "mn", "mx"):
      setattr(q, ATTR_NAME[k], ca[k])
    return q
  return C(alpha=ca["alpha"], threshold=ca["threshold"], number_of_unrolls=ca["unrolls"])


# ------------------------------------------------------------------ running a scenario on the real code

def _scale_of(q, shape):
  """(`q.scale` broadcast to the input as float64, problem)"""
  s = q.scale
  if s is None:
    return None, "none-after-call"
  if hasattr(s, "numpy"):
    s = s.numpy()
  try:
    a = np.broadcast_to(np.asarray(s, dtype=np.float64), shape).astype(np.float64).ravel()
  except (ValueError, TypeError):
    return None, "shape-%s-does-not-fit-input" % (list(np.shape(s)),)
  return a, None


def _as_input(tf, x, kind):
  if kind == "numpy":
    return np.array(x)
  if kind == "variable":
    return tf.Variable(x)
  return tf.constant(x)


def err_kind(e):
  if isinstance(e, AssertionError):
    return "assert"
  if isinstance(e, ValueError) and type(e).__name__ == "ValueError":
    return "value-error"
  return "other:" + type(e).__name__


def _apply(Q, K, tf, q, attrs, op, ch_last, held):
  """a non-call operation on the live object `q` (and on the harness' record of its attributes)"""
  k = op["k"]
  if k == "set_alpha":
    attrs["alpha"] = op["v"]
    q.alpha = held.give("alpha", arg_obj(tf, op["v"]))
  elif k == "set_threshold":
    attrs["threshold"] = op["v"]
    q.threshold = held.give("threshold", arg_obj(tf, op["v"]))
  elif k == "set_unrolls":
    attrs["unrolls"] = op["v"]
    q.number_of_unrolls = op["v"]
  elif k == "set_use01":
    attrs["use01"] = op["v"]
    q.use_01 = op["v"]
  elif k == "set_axis":
    attrs["sa"], attrs["eps"] = op["sa"], op["eps"]
    q.scale_axis, q.elements_per_scale = held.give("scale_axis", op["sa"]), held.give("elements_per_scale", op["eps"])
  elif k == "set_bounds":
    attrs["mn"], attrs["mx"] = op["mn"], op["mx"]
    q.min_po2_exponent, q.max_po2_exponent = exp_obj(op["mn"]), exp_obj(op["mx"])
  elif k == "set_trainable":
    was_none = attrs["alpha"] is None
    if op.get("via") == "layer":
      from qkeras import QDense     # pylint: disable=import-outside-toplevel
      QDense(3, kernel_quantizer=q)  # a layer adopts the used object: calls _set_trainable_parameter
    else:
      q._set_trainable_parameter()   # pylint: disable=protected-access
    if was_none:
      attrs["alpha"] = "auto_po2"
  elif k == "set_format":
    ch_last = op["ch_last"]
    K.set_image_data_format("channels_last" if ch_last else "channels_first")
  else:
    raise ValueError(k)
  return ch_last


class Live:
  """one scenario on the real code, operation by operation (so that two of them can be interleaved)"""

  def __init__(self, Q, K, tf, sc, held=None):
    self.Q, self.K, self.tf, self.sc = Q, K, tf, sc
    self.cls = sc["cls"]
    self.attrs = dict(sc["attrs"])
    self.ch_last = sc["ch_last"]
    self.recs = []
    self.held = held if held is not None else Held()
    self.q = build(Q, tf, self.cls, self.attrs, sc["route"], sc.get("extra", {}), self.held)
    self.alias = None
    if sc["route"].startswith("string"):
      # a second object from the IDENTICAL text: must not share state with the first
      self.alias = build(Q, tf, self.cls, self.attrs, sc["route"], sc.get("extra", {}))
    self.last_scale = ("never", None)
    self.op_err = None

  def step(self, op):
    """False when the history ends here (an operation other than a call raised)"""
    Q, K, tf, q, cls, attrs = self.Q, self.K, self.tf, self.q, self.cls, self.attrs
    k = op["k"]
    if k != "call":
      # attribute changes / _set_trainable_parameter / format switches must not raise
      try:
        self.ch_last = _apply(Q, K, tf, q, attrs, op, self.ch_last, self.held)
      except Exception as e:  # pylint: disable=broad-except
        self.op_err = dict(op=k, error=(type(e).__name__ + ": " + str(e))[:300], kind=err_kind(e),
                           alpha_form=arg_label(attrs["alpha"]))
        return False
      return True
    x = op["x"]
    ca = canon_attrs(cls, attrs)
    rec = dict(x=x, ca=ca, ch_last=self.ch_last, aform=arg_label(attrs["alpha"]),
               tform=arg_label(attrs.get("threshold")) if BASE[cls] == "ternary" else None,
               attrs=dict(attrs), xin=op.get("xin", "tensor"))
    rec["xste"] = np.asarray(K.tanh(tf.constant(x)), dtype=np.float32) if attrs["alpha"] is None else x
    before = public_attrs(q)
    try:
      y = np.asarray(q(_as_input(tf, x, rec["xin"])), dtype=np.float32)
      rec["y"] = y
      rec["yshape"] = list(y.shape)
      rec["sc"], rec["sc_problem"] = _scale_of(q, x.shape)
      rec["sc_shape"] = list(np.shape(q.scale)) if q.scale is not None else None
      try:
        g = Q.get_weight_scale(q)
        rec["gws"] = np.broadcast_to(np.asarray(g, dtype=np.float64), x.shape).ravel()
      except Exception as e:  # pylint: disable=broad-except
        rec["gws"] = "raises:" + type(e).__name__
      self.last_scale = ("ok", rec["sc"])
      if self.alias is not None and rec["sc"] is not None:
        self.alias(tf.constant(np.array([3.0, -5.0, 0.25], dtype=np.float32)))
        again, _ = _scale_of(q, x.shape)
        rec["sc_after_alias"] = again
    except Exception as e:  # pylint: disable=broad-except
      rec["err"] = err_kind(e)
      rec["err_text"] = (type(e).__name__ + ": " + str(e))[:300]
    # ---- what the call did to the object and to the objects it was configured with
    after = public_attrs(q)
    rec["attr_changed"] = [(n, show(before[n]) if n in before else "<absent>", show(after[n]) if n in after else "<absent>")
                           for n in sorted(set(before) | set(after)) if before.get(n) != after.get(n)]
    rec["arg_mutated"] = self.held.mutated()
    # (a mutated argument is reported once: the later calls are judged against the CONFIGURED value)
    self.held.items = [(n, o, snap(o)) for n, o, _ in self.held.items]
    try:
      t = build_twin(Q, cls, ca)
      rec["twin_y"] = np.asarray(t(tf.constant(x)), dtype=np.float32)
      rec["twin_sc"], _ = _scale_of(t, x.shape)
    except Exception as e:  # pylint: disable=broad-except
      rec["twin_err"] = err_kind(e)
    self.recs.append(rec)
    return True

  def result(self):
    recs, q = self.recs, self.q
    final = None
    if recs:
      shape = recs[-1]["x"].shape
      ok = [r for r in recs if "err" not in r]
      if ok:
        shape = ok[-1]["x"].shape
      final = _scale_of(q, shape) if q.scale is not None else (None, "none")
    return recs, final, self.last_scale, self.op_err


def execute(Q, K, tf, sc):
  """run the scenario on the real code; returns one record per call and the final `q.scale` state"""
  K.set_image_data_format("channels_last" if sc["ch_last"] else "channels_first")
  had_phase = sc.get("phase") is not None
  try:
    if had_phase:
      K.set_learning_phase(sc["phase"])
    live = Live(Q, K, tf, sc)
    for op in sc["ops"]:
      if not live.step(op):
        break
    return live.result()
  finally:
    K.set_image_data_format("channels_last")
    if had_phase:
      K.set_learning_phase(0)


def execute_pair(Q, K, tf, pair):
  """two objects configured with the SAME python objects (`pair["shared"]`: one list / one ndarray), their
  operations interleaved in `pair["order"]`; no format switches, no learning-phase changes inside a pair"""
  a, b = pair["scs"]
  K.set_image_data_format("channels_last" if a["ch_last"] else "channels_first")
  try:
    # ONE `Held` for both: a mutation is reported on the call that made it, whoever owns the object
    held = Held({n: copy.deepcopy(v) for n, v in pair["shared"].items()})
    lives = [Live(Q, K, tf, a, held), Live(Q, K, tf, b, held)]
    its = [iter(a["ops"]), iter(b["ops"])]
    alive = [True, True]
    for w in pair["order"]:
      if not alive[w]:
        continue
      op = next(its[w], None)
      if op is not None:
        alive[w] = lives[w].step(op)
    return [lives[0].result(), lives[1].result()]
  finally:
    K.set_image_data_format("channels_last")


# ------------------------------------------------------------------ the driver line of a scenario

def line_of(sc, recs, eps32):
  cls = sc["cls"]
  a = sc["attrs"]
  if BASE[cls] == "binary":
    obj = dict(use01=bool(a["use01"]), alpha=arg_json(a["alpha"]), sa=a["sa"], eps=a["eps"],
               min_e=exp_json(a["mn"]), max_e=exp_json(a["mx"]))
  else:
    obj = dict(alpha=arg_json(a["alpha"]), threshold=arg_json(a["threshold"]), unrolls=int(a["unrolls"]))
  ops = []
  it = iter(recs)
  for op in sc["ops"]:
    k = op["k"]
    if k == "call":
      r = next(it, None)
      if r is None:
        break            # an operation raised on the real object: the history ends there
      ops.append(dict(k="call", shape=list(r["x"].shape), x=A.enc(A.fr(r["x"])), xste=A.enc(A.fr(r["xste"])),
                      np=(r["xin"] == "numpy")))
    elif k in ("set_alpha", "set_threshold"):
      ops.append(dict(k=k, v=arg_json(op["v"])))
    elif k in ("set_unrolls", "set_use01"):
      ops.append(dict(k=k, v=op["v"]))
    elif k == "set_axis":
      ops.append(dict(k=k, sa=op["sa"], eps=op["eps"]))
    elif k == "set_bounds":
      ops.append(dict(k=k, mn=exp_json(op["mn"]), mx=exp_json(op["mx"])))
    elif k == "set_trainable":
      ops.append(dict(k=k))
    elif k == "set_format":
      ops.append(dict(k=k, ch_last=op["ch_last"]))
  return dict(op="bin_hist" if BASE[cls] == "binary" else "ter_hist", obj=obj, ch_last=sc["ch_last"], ops=ops,
              eps32=core.rj(eps32))


def pair_line(pair, results, eps32):
  """ONE driver line for a pair of binary-class objects: the history addressed to both (`binRun2`)"""
  a, b = pair["scs"]
  la, lb = line_of(a, results[0][0], eps32), line_of(b, results[1][0], eps32)
  its = [iter(la["ops"]), iter(lb["ops"])]
  ops = []
  for w in pair["order"]:
    op = next(its[w], None)
    if op is not None:
      ops.append(dict(op, w=w))
  return dict(op="bin_pair", obj1=la["obj"], obj2=lb["obj"], ch_last=a["ch_last"], ops=ops, eps32=core.rj(eps32))


# ------------------------------------------------------------------ generators

ALPHA_F = [2.0, 0.5, 3.0, 0.1, 4.0, 0.75, 8.0, 1.0, 1.5]
ALPHA_I = [2, 3, 4, 8, 1, 5]
KINDS = ["plain", "plain", "sparse", "zero_channel", "zeros"]


def small_tensor(rng, ranks=(0, 1, 2, 3, 4, 5), kind=None, max_elems=96):
  while True:
    r = int(rng.choice(ranks))
    sh = [int(rng.choice(A.DIMS)) for _ in range(r)]
    if int(np.prod(sh)) <= max_elems:
      break
  kind = kind or KINDS[int(rng.integers(0, len(KINDS)))]
  if r == 0:
    v = float(rng.integers(-40, 41)) * 2.0 ** int(rng.integers(-6, 3))
    return np.array(v if kind != "zeros" else 0.0, dtype=np.float32)
  return A.exact_tensor(rng, sh, kind)


def scalar_alpha(rng, form):
  if form in INT_FORMS:
    return num(form, int(rng.choice(ALPHA_I)))
  return num(form, float(rng.choice(ALPHA_F)))


def array_alphas(rng, shape):
  """per-channel / per-row / one-element / full-shape arrays that broadcast TO `shape`, several dtypes"""
  out = []
  r = len(shape)
  pick = lambda n: rng.choice([0.5, 1.0, 2.0, 4.0, 0.25, 8.0, 3.0, 0.75], size=n)
  if r >= 1:
    c = shape[-1]
    out.append(arr(pick(c), "float32"))
    out.append(arr(pick(c) + rng.choice([0.0, 0.1], size=c), "float64"))
    out.append(arr(rng.integers(1, 9, size=c), "int64"))
    out.append(arr(pick(1), "float32"))
  if r >= 2:
    out.append(arr(pick(shape[-1]).reshape([1] * (r - 1) + [shape[-1]]), "float32"))
    col = [shape[0]] + [1] * (r - 1)
    out.append(arr(pick(shape[0]).reshape(col), "float32"))           # per leading index ("channels_first")
    out.append(arr(pick(int(np.prod(shape))).reshape(shape), "float64"))
  return out


def bin_attrs(alpha, use01=False, sa=None, eps=None, mn=None, mx=None):
  return dict(use01=use01, alpha=alpha, sa=sa, eps=eps, mn=mn, mx=mx)


def ter_attrs(alpha, threshold=None, unrolls=5):
  return dict(alpha=alpha, threshold=threshold, unrolls=unrolls)


def attrs_for(cls, alpha, rng, thr=None):
  if BASE[cls] == "binary":
    return bin_attrs(alpha, use01=bool(cls == "binary" and rng.random() < 0.35))
  return ter_attrs(alpha, thr, [5, 5, 2, 1][int(rng.integers(0, 4))])


def scenario(stream, cls, attrs, ops, rng, route="ctor_kw", extra=None, ch_last=None):
  sc = dict(stream=stream, cls=cls, attrs=attrs, ops=ops, route=route, extra=extra or {},
            ch_last=bool(rng.random() < 0.7) if ch_last is None else ch_last)
  if cls.startswith("stochastic"):
    sc["phase"] = [None, 0][int(rng.integers(0, 2))]
    if rng.random() < 0.5:
      sc["extra"] = dict(sc["extra"], temperature=[6, np.float32(2.0), 8.0, np.int64(3)][int(rng.integers(0, 4))])
  return sc


def call(rng, x, xin=None):
  return dict(k="call", x=x, xin=xin or ["tensor", "tensor", "numpy", "variable"][int(rng.integers(0, 4))])


def gen(rng, tier):
  scs = []
  reps = 1 if tier == "quick" else 4
  for _ in range(reps):
    # ---- A. alpha in every numeric form x every class x routes x containers x ranks 0..5
    for cls in CLASSES:
      routes = ["ctor_kw", "ctor_pos", "dict", "from_config", "registry"]
      for form in FLOAT_FORMS + INT_FORMS:
        a = scalar_alpha(rng, form)
        x = small_tensor(rng)
        scs.append(scenario("forms", cls, attrs_for(cls, a, rng), [call(rng, x)], rng,
                            route=routes[int(rng.integers(0, len(routes)))]))
      x = small_tensor(rng, ranks=(1, 2, 3, 4))
      for a in array_alphas(rng, list(x.shape)):
        scs.append(scenario("forms", cls, attrs_for(cls, a, rng), [call(rng, x)], rng,
                            route=routes[int(rng.integers(0, len(routes)))]))
      x = small_tensor(rng, ranks=(2, 3, 5))
      for a in array_alphas(rng, list(x.shape))[:3]:
        scs.append(scenario("forms", cls, attrs_for(cls, a, rng), [call(rng, x)], rng))
      for a in (None, "auto", "auto_po2"):
        scs.append(scenario("forms", cls, attrs_for(cls, a, rng), [call(rng, small_tensor(rng))], rng,
                            route=routes[int(rng.integers(0, len(routes)))]))
    # ---- B. the string route (python literals), blanks, positional; an alias object from the same text
    for cls in CLASSES:
      for route in ("string", "string_blank", "string_pos", "string_layer"):
        if route == "string_pos" and cls == "stochastic_binary":
          continue
        for form in ("pyint", "pyfloat"):
          a = scalar_alpha(rng, form)
          at = attrs_for(cls, a, rng)
          if BASE[cls] == "ternary":
            t = [None, num("pyint", 1), num("pyfloat", 0.5), num("pyint", 2)][int(rng.integers(0, 4))]
            if cls == "stochastic_ternary" and t is not None and float(t["v"]) == 1.0:
              t = num("pyint", 2)       # stochastic_ternary asserts threshold != 1.0
            if route == "string_pos" and t is None:
              t = num("pyfloat", 0.25)
            at["threshold"] = t
          scs.append(scenario("string", cls, at, [call(rng, small_tensor(rng, ranks=(1, 2, 3)), "tensor")], rng,
                              route=route))
      if BASE[cls] == "binary":
        scs.append(scenario("string", cls, attrs_for(cls, "auto", rng),
                            [call(rng, small_tensor(rng, ranks=(2, 3)), "tensor")], rng, route="string"))
    x = A.exact_tensor(rng, [4, 8], "plain")
    scs.append(scenario("string", "binary", bin_attrs("auto", False, 1, 2), [call(rng, x, "tensor")], rng,
                        route="string_blank"))
    scs.append(scenario("string", "binary", bin_attrs("auto_po2", True, [0, 1], [2, 4], dict(f="py", e=-3),
                                                      dict(f="py", e=2)), [call(rng, x, "tensor")], rng,
                        route="string"))
    scs.append(scenario("string", "ternary", ter_attrs("auto", None, 2), [call(rng, x, "tensor")], rng,
                        route="string"))
    # ---- C. threshold in every numeric form (and the falsy-but-legal threshold 0)
    for cls in ("ternary", "stochastic_ternary"):
      for form in FLOAT_FORMS + ["pyint", "npint64", "nd0_i64"]:
        if form in INT_FORMS or form == "nd0_i64":
          v = [2, 1, 3][int(rng.integers(0, 3))]
          if cls == "stochastic_ternary" and v == 1:
            v = 2
        else:
          v = [0.5, 0.25, 0.33, 2.0, 0.75][int(rng.integers(0, 5))]
        x = small_tensor(rng, ranks=(1, 2, 3), kind="plain")
        flat = x.reshape(-1)
        t = np.float32(v)
        pts = [t, -t, np.nextafter(t, np.float32(0)), np.nextafter(t, np.float32(9))]
        for j, p in zip(rng.choice(flat.size, size=min(flat.size, len(pts)), replace=False).tolist(), pts):
          flat[j] = p
        a = [None, num("pyfloat", 2.0), num("pyint", 3)][int(rng.integers(0, 3))]
        scs.append(scenario("thr-forms", cls, ter_attrs(a, num(form, v)), [call(rng, x)], rng))
      for form, zero_in in (("pyint", False), ("pyfloat", False), ("pyint", True), ("pyfloat", True)):
        x = np.array([[-3.0, 0.5, 1.0, -0.25]], dtype=np.float32)
        if zero_in:
          x[0, 1] = 0.0
        scs.append(scenario("thr-forms", cls, ter_attrs(num("pyfloat", 2.0), num(form, 0)), [call(rng, x)], rng))
    # ---- D. exponent bounds in several forms; E. other options in non-python forms
    for mn, mx in ((dict(f="py", e=-3), dict(f="py", e=1)), (dict(f="pyfloat", e=-3), dict(f="pyfloat", e=1)),
                   (dict(f="npfloat", e=-2), dict(f="npfloat", e=0)), (dict(f="npint", e=0), dict(f="npint", e=2)),
                   (dict(f="npint", e=1), None), (None, dict(f="npint", e=0)), (dict(f="py", e=0), dict(f="py", e=0)),
                   (dict(f="npint", e=-3), dict(f="npint", e=1)), (None, dict(f="npint", e=-2)),
                   (dict(f="npint", e=-1), None)):
      x = A.exact_tensor(rng, [4, 4], "plain")
      scs.append(scenario("exp-forms", "binary", bin_attrs("auto_po2", bool(rng.random() < 0.3), None, None, mn, mx),
                          [call(rng, x)], rng))
    # the bounds are not evaluated off the auto_po2 path
    scs.append(scenario("exp-forms", "binary", bin_attrs("auto", False, None, None, dict(f="npint", e=-3), None),
                        [call(rng, A.exact_tensor(rng, [4, 4], "plain"))], rng))
    scs.append(scenario("exp-forms", "binary", bin_attrs(num("pyint", 2), False, None, None, dict(f="npint", e=-3),
                                                         None), [call(rng, A.exact_tensor(rng, [4, 4], "plain"))], rng))
    # the input as a numpy array / variable on the elements_per_scale path
    for xin in ("numpy", "variable", "tensor"):
      x = A.exact_tensor(rng, [4, 8], "plain")
      scs.append(scenario("input-forms", "binary", bin_attrs("auto", False, 1, 4), [call(rng, x, xin)], rng))
      scs.append(scenario("input-forms", "binary", bin_attrs("auto_po2", True, [0, 1], [2, 4]), [call(rng, x, xin)], rng))
      scs.append(scenario("input-forms", "binary", bin_attrs(num("pyint", 2), False, 1, 4), [call(rng, x, xin)], rng))
    # negative axes (numpy convention: counted from the end)
    for a in ("auto", "auto_po2"):
      for sa, sh in (([-1], [2, 8]), ([0, -1], [4, 8]), ([-1], [2, 4, 8]), ([-2, 2], [2, 4, 4]), (-1, [4, 8]), (-2, [2, 4, 8])):
        x = A.exact_tensor(rng, sh, "plain")
        scs.append(scenario("axis-forms", "binary", bin_attrs(a, bool(rng.random() < 0.3), sa), [call(rng, x)], rng,
                            ch_last=True))
    # ... also together with elements_per_scale (the unrolling needs the normalised axes), as numpy ints, on
    # numpy inputs, and in both data formats (an explicit scale_axis does not depend on the format)
    for a in ("auto", "auto_po2"):
      for sa, eps, sh in ((-1, 4, [4, 8]), (-2, 2, [4, 8]), ([-2, -1], [2, 4], [4, 8]), ([0, -1], 2, [4, 8]),
                          ([-1], [2], [2, 4, 8]), (-3, 2, [4, 2, 8])):
        x = A.exact_tensor(rng, sh, "plain")
        scs.append(scenario("axis-forms", "binary", bin_attrs(a, bool(rng.random() < 0.3), sa, eps),
                            [call(rng, x)], rng))
    scs.append(scenario("axis-forms", "binary", bin_attrs("auto", False, -1),
                        [call(rng, A.exact_tensor(rng, [2, 4, 8], "plain"))], rng, extra=dict(np_axis=True)))
    # a negative int is not even looked at off the data-dependent path / for rank <= 1
    scs.append(scenario("axis-forms", "binary", bin_attrs(num("pyint", 2), False, -1),
                        [call(rng, A.exact_tensor(rng, [4, 8], "plain"))], rng))
    scs.append(scenario("axis-forms", "binary", bin_attrs("auto", False, -1),
                        [call(rng, A.exact_tensor(rng, [8], "plain"))], rng))
    for uf in ("int", "np_bool"):
      for u in (False, True):
        scs.append(scenario("opt-forms", "binary", bin_attrs(scalar_alpha(rng, "pyint"), u),
                            [call(rng, small_tensor(rng))], rng, extra=dict(use01_form=uf)))
    scs.append(scenario("opt-forms", "binary", bin_attrs("auto", False, 1, None),
                        [call(rng, A.exact_tensor(rng, [2, 4, 8], "plain"))], rng, extra=dict(np_axis=True)))
    for cls in ("ternary", "stochastic_ternary"):
      scs.append(scenario("opt-forms", cls, ter_attrs("auto", None, 2),
                          [call(rng, A.exact_tensor(rng, [4, 8], "plain"))], rng, extra=dict(unrolls_form="npint64")))
    # ---- process-level state: the data format is read at CALL time (construct -> switch -> call, both orders)
    for cls in CLASSES:
      for a in ("auto", "auto_po2"):
        for first in (True, False):
          sh = [[2, 8], [4, 2, 8], [2, 4, 1, 8], [8, 2]][int(rng.integers(0, 4))]
          x = A.exact_tensor(rng, sh, "plain")
          scs.append(scenario("fmt-order", cls, attrs_for(cls, a, rng),
                              [dict(k="set_format", ch_last=not first), call(rng, x)], rng, ch_last=first))
    # ---- F. histories on one object
    n_hist = 14 if tier == "quick" else 40
    for cls in CLASSES:
      for _h in range(n_hist):
        scs.append(history(rng, cls))
    # ---- G. histories with an explicit scale_axis (list / int, negative / mixed) whose rank changes;
    # H. two objects configured with one python list / one ndarray
    n_axis = 16 if tier == "quick" else 40
    for cls in ("binary", "stochastic_binary"):
      for k in range(n_axis):
        scs.append(axis_history(rng, cls, k))
    scs.extend(shared_pairs(rng))
    # ---- I. NON-ASCENDING lists (the order of the (axis, elements) pairs is free), non-negative / negative /
    # mixed signs, list and int elements_per_scale, rank 2-4, all routes, tensor / numpy / variable inputs
    for a in ("auto", "auto_po2"):
      for sa, eps, sh in (([1, 0], [2, 2], [4, 4]), ([-1, 0], [4, 2], [4, 4]), ([-1, -2], [2, 4], [4, 8]),
                          ([2, 0], [4, 2], [4, 2, 8]), ([2, 0], 2, [2, 4, 4]), ([-1, 1], [2, 4], [2, 4, 8]),
                          ([2, 0], [2, 1], [2, 4, 2, 4]), ([2, 0], 2, [4, 1, 2, 4]), ([3, -3, 0], [2, 1, 2], [2, 2, 4, 4]),
                          ([-1, 0], [1, 1], [4, 4]), ([2, 1, 0], 2, [2, 4, 4])):
        x = A.exact_tensor(rng, sh, ["plain", "sparse", "zero_channel"][int(rng.integers(0, 3))])
        scs.append(scenario("axis-forms", "binary", bin_attrs(a, bool(rng.random() < 0.3), sa, eps),
                            [call(rng, x)], rng,
                            route=["ctor_kw", "ctor_pos", "dict", "from_config", "registry", "string", "attr"][int(rng.integers(0, 7))]))
  return scs


# scale_axis / elements_per_scale spellings that are valid for EVERY rank >= 2 (entries within [-2, 1]); with
# elements_per_scale only spellings whose normalised axes are distinct for every rank >= 2.  The ORDER of the list
# is free (fix round N; `scale_axis=[1, 0], elements_per_scale=[2, 2]` used to raise `Incompatible shapes`: the
# unrolling of `_get_unrolled_shape` shifts the later axes by one per unrolled axis, i.e. needs ascending axes,
# and `_validate_axis_and_eps` now hands the pairs over sorted): the second line of AXES_EPS holds the
# non-ascending and mixed-sign spellings (appended, so that the indices used by `shared_pairs` stay).
AXES_PLAIN = [[-1], [0, -1], [-2], [-1, -2], [-2, 0], [1, -1], -1, -2, [0], [1], [0, 1], [-1, 0]]
AXES_EPS = [([-1], [2]), ([-1], 2), (-1, 2), ([0, -1], [1, 2]), ([-2, -1], 2), ([-2, -1], [2, 1]), ([0], [2]), (-2, 2),
            ([1, 0], [2, 1]), ([1, 0], 2), ([-1, 0], [2, 2]), ([-1, 0], [1, 2]), ([-1, -2], [1, 2]), ([-1, -2], 2),
            ([1, 0], [1, 1]), ([-1, 0], 2)]


def axis_shapes(rng, n_calls, with_eps, max_elems=64):
  """shapes whose RANK changes from call to call (ranks 2..5, both directions; from the 4th call on ranks
  repeat)"""
  ranks = [int(r) for r in rng.permutation([2, 3, 4, 5])]
  if rng.random() < 0.5:
    ranks.remove(2)
    ranks.insert(0, 2)        # the first use is most often a dense kernel
  ranks = ranks[:min(n_calls, 3)]
  while len(ranks) < n_calls:
    ranks.append([r for r in (2, 3, 4, 5) if r != ranks[-1]][int(rng.integers(0, 3))])
  out = []
  dims = (2, 4) if with_eps else (1, 2, 4)
  for r in ranks:
    while True:
      sh = [int(rng.choice(dims)) for _ in range(r)]
      if int(np.prod(sh)) <= max_elems:
        break
    out.append(sh)
  return out


def axis_history(rng, cls, k):
  """a binary / stochastic_binary object with a data-dependent scale and an explicit (list / int, negative /
  mixed) scale_axis, used on tensors of DIFFERENT rank: the groups of every call are those of the configured
  spelling counted against the rank of that call"""
  with_eps = (k % 3 == 2)
  if with_eps:
    sa, eps = AXES_EPS[int(rng.integers(0, len(AXES_EPS)))]
  else:
    sa, eps = AXES_PLAIN[k % len(AXES_PLAIN)] if k < len(AXES_PLAIN) else AXES_PLAIN[int(rng.integers(0, len(AXES_PLAIN)))], None
  alpha = ["auto", "auto_po2"][int(rng.integers(0, 2))]
  n_calls = int(rng.integers(2, 4))
  shapes = axis_shapes(rng, n_calls, with_eps)
  use01 = bool(cls == "binary" and rng.random() < 0.25)
  mn = mx = None
  if alpha == "auto_po2" and rng.random() < 0.3:
    mn, mx = dict(f="py", e=-6), dict(f="py", e=3)
  late = (not with_eps) and rng.random() < 0.3      # configured by an attribute assignment AFTER a first call
  attrs = bin_attrs(alpha, use01, None if late else sa, None if late else eps, mn, mx)
  if cls == "stochastic_binary":
    route = "attr"
  else:
    route = ["ctor_kw", "ctor_kw", "attr", "dict", "from_config", "registry", "string", "ctor_pos"][int(rng.integers(0, 8))]
    if route == "string" and (mn is not None):
      route = "ctor_kw"
  ops = []
  for j, sh in enumerate(shapes):
    if late and j == 1:
      ops.append(dict(k="set_axis", sa=sa, eps=eps))
    elif j and rng.random() < 0.15:
      ops.append(dict(k="set_use01", v=bool(rng.random() < 0.5)) if cls == "binary" else dict(k="set_trainable", via="direct"))
    kind = ["plain", "plain", "zero_channel", "sparse"][int(rng.integers(0, 4))]
    ops.append(call(rng, A.exact_tensor(rng, sh, kind)))
  return scenario("hist-axis", cls, attrs, ops, rng, route=route, ch_last=bool(rng.random() < 0.7))


def shared_pairs(rng):
  """two quantizers configured with ONE python object (a list scale_axis / elements_per_scale, an ndarray
  alpha / threshold); their calls are interleaved, on tensors of different rank"""
  pairs = []
  # ---- one scale_axis list (and one elements_per_scale list) for two binary / stochastic_binary objects
  for k, (ca, cb) in enumerate((("binary", "binary"), ("binary", "stochastic_binary"), ("stochastic_binary", "binary"),
                                ("binary", "binary"), ("binary", "binary"))):
    with_eps = k >= 3
    sa, eps = (AXES_EPS[[0, 3, 4][int(rng.integers(0, 3))]] if with_eps
               else ([[-1], [0, -1], [-2], [-1, -2]][int(rng.integers(0, 4))], None))
    if not isinstance(sa, list):
      sa = [sa]
    shapes = axis_shapes(rng, 4, with_eps)
    scs = []
    for w, cls in enumerate((ca, cb)):
      alpha = ["auto_po2", "auto"][w] if k % 2 == 0 else ["auto", "auto_po2"][w]
      ops = [call(rng, A.exact_tensor(rng, shapes[2 * j + w], "plain"), "tensor") for j in range(2)]
      scs.append(scenario("shared", cls, bin_attrs(alpha, False, sa, eps), ops, rng,
                          route="attr" if cls == "stochastic_binary" else ["ctor_kw", "dict", "attr"][int(rng.integers(0, 3))],
                          ch_last=True))
      scs[-1]["phase"] = None
    shared = dict(scale_axis=sa)
    if isinstance(eps, list):
      shared["elements_per_scale"] = eps
    pairs.append(dict(scs=scs, shared=shared, order=[0, 1, 0, 1]))
  # ---- one ndarray alpha (and one ndarray threshold) for two objects of any class
  for ca, cb in (("binary", "ternary"), ("ternary", "stochastic_ternary"), ("stochastic_binary", "binary"),
                 ("stochastic_ternary", "ternary")):
    c = int(rng.choice([2, 4]))
    a = arr(rng.choice([0.5, 1.0, 2.0, 4.0, 3.0], size=c), ["float32", "float64"][int(rng.integers(0, 2))])
    scs = []
    for cls in (ca, cb):
      at = bin_attrs(a) if BASE[cls] == "binary" else ter_attrs(a, None, 5)
      shs = [[int(rng.choice([1, 2, 4])) for _ in range(int(r))] + [c] for r in rng.permutation([0, 1, 2, 3])[:2]]
      ops = [call(rng, A.exact_tensor(rng, sh, "plain")) for sh in shs]
      scs.append(scenario("shared", cls, at, ops, rng, route=["ctor_kw", "from_config"][int(rng.integers(0, 2))],
                          ch_last=True))
      scs[-1]["phase"] = None
    pairs.append(dict(scs=scs, shared=dict(alpha=arg_obj(None, a)), order=[0, 1, 1, 0]))
  return pairs


def rand_alpha(rng, allow_auto=True, shape_hint=None):
  t = rng.random()
  if t < 0.12:
    return None
  if allow_auto and t < 0.42:
    return ["auto", "auto_po2"][int(rng.integers(0, 2))]
  if shape_hint is not None and len(shape_hint) >= 1 and t < 0.55:
    return arr(rng.choice([0.5, 1.0, 2.0, 4.0, 3.0], size=shape_hint[-1]), ["float32", "float64"][int(rng.integers(0, 2))])
  forms = FLOAT_FORMS + INT_FORMS
  return scalar_alpha(rng, forms[int(rng.integers(0, len(forms)))])


def history(rng, cls):
  """2-4 calls on tensors of different rank / shape / container, attribute changes, _set_trainable_parameter,
  data-format switches in between.  Only configurations the code documents as valid are generated."""
  base = BASE[cls]
  n_calls = int(rng.integers(2, 5))
  xs = [small_tensor(rng, ranks=(0, 1, 2, 3, 4), max_elems=64) for _ in range(n_calls)]
  if rng.random() < 0.5:
    # make sure the rank changes between the first two calls (scale state of another shape)
    xs[0] = small_tensor(rng, ranks=(2, 3, 4), max_elems=64)
    xs[1] = small_tensor(rng, ranks=(0, 1), max_elems=64)
  a0 = rand_alpha(rng, shape_hint=None)
  if base == "binary":
    attrs = bin_attrs(a0, bool(cls == "binary" and rng.random() < 0.3))
  else:
    thr = None if isinstance(a0, str) else [None, num("pyfloat", 0.5), num("pyint", 2), num("npfloat32", 0.25)][int(rng.integers(0, 4))]
    attrs = ter_attrs(a0, thr, [5, 2, 1][int(rng.integers(0, 3))])
  cur_alpha = a0
  cur_thr = attrs.get("threshold")
  ops = []
  for j, x in enumerate(xs):
    # 0-2 operations before each call but the first
    for _ in range(int(rng.integers(0, 3)) if j else int(rng.integers(0, 2))):
      t = rng.random()
      if t < 0.35:
        na = rand_alpha(rng, shape_hint=list(x.shape))
        if base == "ternary" and isinstance(na, str) and cur_thr is not None:
          ops.append(dict(k="set_threshold", v=None))
          cur_thr = None
        ops.append(dict(k="set_alpha", v=na))
        cur_alpha = na
      elif t < 0.5:
        # handing the object to a layer also calls its max()/min() reporters (C01's business: they raise for
        # ndarray / integer-tensor alpha), so the layer route is only used with None / string / python-number alpha
        plain = (not is_spec(cur_alpha)) or cur_alpha["f"] in ("pyfloat", "pyint", "npfloat32", "npfloat64", "npint64")
        ops.append(dict(k="set_trainable", via="layer" if (plain and rng.random() < 0.4) else "direct"))
        if cur_alpha is None:
          cur_alpha = "auto_po2"
          if base == "ternary" and cur_thr is not None:
            # a threshold next to alpha="auto_po2" is rejected by an assert: keep the history valid
            ops.insert(len(ops) - 1, dict(k="set_threshold", v=None))
            cur_thr = None
      elif t < 0.65:
        ops.append(dict(k="set_format", ch_last=bool(rng.random() < 0.5)))
      elif base == "binary":
        if t < 0.8:
          ops.append(dict(k="set_use01", v=bool(rng.random() < 0.5)))
        elif t < 0.9:
          r = len(x.shape)
          sa = [None, 0, [0]][int(rng.integers(0, 3))] if r >= 1 else None
          eps = None
          if sa is not None and r >= 2 and rng.random() < 0.4:
            eps = [d for d in (1, 2, 4, 8) if x.shape[0] % d == 0][-1]
            eps = eps if isinstance(sa, int) else [eps]
          ops.append(dict(k="set_axis", sa=sa, eps=eps))
        else:
          ops.append(dict(k="set_bounds", mn=[None, dict(f="py", e=-4), dict(f="npint", e=0)][int(rng.integers(0, 3))],
                          mx=[None, dict(f="py", e=3), dict(f="pyfloat", e=1)][int(rng.integers(0, 3))]))
      else:
        if t < 0.85 and not isinstance(cur_alpha, str):
          nt = [None, num("pyfloat", 0.5), num("pyint", 2), num("npfloat64", 0.25), num("tfconst", 0.75)][int(rng.integers(0, 5))]
          ops.append(dict(k="set_threshold", v=nt))
          cur_thr = nt
        else:
          ops.append(dict(k="set_unrolls", v=int(rng.integers(1, 4))))
    # an ndarray alpha must broadcast to the next input; a scale_axis / elements_per_scale must fit it
    if is_spec(cur_alpha) and cur_alpha["f"] == "ndarray":
      n = np.asarray(cur_alpha["v"]).shape[-1]
      if len(x.shape) == 0 or (x.shape[-1] != n and n != 1):
        na = scalar_alpha(rng, "pyint")
        ops.append(dict(k="set_alpha", v=na))
        cur_alpha = na
    if base == "binary":
      last_axis = next((o for o in reversed(ops) if o["k"] == "set_axis"), None)
      if last_axis is not None and last_axis["sa"] is not None and len(x.shape) >= 2:
        e = last_axis["eps"]
        ev = e[0] if isinstance(e, list) else e
        if ev is not None and x.shape[0] % ev != 0:
          ops.append(dict(k="set_axis", sa=last_axis["sa"], eps=None))
    ops.append(call(rng, x))
  return scenario("hist", cls, attrs, ops, rng)


# ------------------------------------------------------------------ judging

def legacy_case(sc, rec):
  """the flat case the clause oracle of c04.py reads"""
  cls = sc["cls"]
  ca = rec["ca"]
  c = dict(stream=sc["stream"], q=BASE[cls], cls=cls, route=sc["route"], shape=list(rec["x"].shape), x=rec["x"],
           alpha=ca["alpha"], aform=rec["aform"], ch_last=rec["ch_last"], xin=rec["xin"])
  if BASE[cls] == "binary":
    c.update(use01=ca["use01"], sa=ca["sa"], eps=ca["eps"], mn=ca["mn"], mx=ca["mx"])
  else:
    c.update(thr=ca["threshold"], tform=rec["tform"], unrolls=ca["unrolls"])
  return c


def label(c):
  d = {}
  for k, v in c.items():
    if k == "x":
      continue
    d[k] = np.asarray(v).tolist() if isinstance(v, np.ndarray) else v
  return d


def same_error(model_kind, impl_kind):
  """the model has two error kinds: "assert" (AssertionError) and "value-error" (any other exception)"""
  return model_kind == impl_kind or (model_kind == "value-error" and impl_kind != "assert")


def why_raises(sc, rec):
  """an independent reading of why a documented-valid configuration raised.  The four named reasons are
  defects that have been REPAIRED (known/C04.json `fixed`): no recorded finding matches them any more, the
  name only says which old defect is back."""
  a = rec["attrs"]
  if BASE[sc["cls"]] == "binary" and isinstance(rec["ca"]["alpha"], str) and isinstance(a["sa"], list) \
      and a["eps"] is not None and len(rec["x"].shape) > 1:
    r = len(rec["x"].shape)
    norm = [v + r if v < 0 else v for v in a["sa"]]
    if norm != sorted(norm):
      return "non-ascending-scale-axis-list"
  if BASE[sc["cls"]] == "binary" and isinstance(rec["ca"]["alpha"], str) and a["eps"] is not None \
      and rec["xin"] == "numpy" and len(rec["x"].shape) > 1:
    return "numpy-input-elements-per-scale"
  if BASE[sc["cls"]] == "binary" and isinstance(rec["ca"]["alpha"], str) and isinstance(a["sa"], int) and a["sa"] < 0 \
      and len(rec["x"].shape) > 1:
    return "negative-scale-axis"
  if BASE[sc["cls"]] == "binary" and rec["ca"]["alpha"] == "auto_po2":
    for e in (a["mn"], a["mx"]):
      if e is not None and e["f"] == "npint" and e["e"] < 0:
        return "negative-numpy-integer-exponent"
  return "unexpected"


def run_obj(run, tier, Q, K, tf, rng, eps32, judge):
  scs = gen(rng, tier)
  execd, lines, where = [], [], []
  for sc in scs:
    if "scs" in sc:
      res = execute_pair(Q, K, tf, sc)
      both_bin = all(BASE[s2["cls"]] == "binary" for s2 in sc["scs"])
      if both_bin and all(r[3] is None for r in res):
        # the pair model (`binRun2`): one line, the two objects' outputs come back as "a" / "b"
        lines.append(pair_line(sc, res, eps32))
        where += [(len(lines) - 1, "a"), (len(lines) - 1, "b")]
      for s2, r in zip(sc["scs"], res):
        execd.append((s2,) + tuple(r))
        if not (both_bin and all(t[3] is None for t in res)):
          # mixed classes: each object against its solo model (justified by C04_*_shared_argument_independent)
          lines.append(line_of(s2, r[0], eps32))
          where.append((len(lines) - 1, None))
      continue
    recs, final, last, op_err = execute(Q, K, tf, sc)
    execd.append((sc, recs, final, last, op_err))
    lines.append(line_of(sc, recs, eps32))
    where.append((len(lines) - 1, None))
  raw = core.run_driver("C04", lines)
  outs = [raw[i] if k is None else raw[i].get(k, raw[i]) for i, k in where]
  run.count("obj:pair-model-lines", sum(1 for _, k in where if k == "a"))
  n_calls = 0
  for (sc, recs, final, last, op_err), o in zip(execd, outs):
    cls = sc["cls"]
    if op_err is not None:
      run.case(key=("obj-op", cls, op_err["op"], len(run.nontrivial)), nontrivial=True)
      run.count("obj:operation-raises:" + op_err["op"])
      run.violate("operation_raises", dict(quantizer=BASE[cls], cls=cls, op=op_err["op"], error=op_err["kind"]),
                  {"scenario": dict(cls=cls, route=sc["route"], stream=sc["stream"]), "operation": op_err},
                  mirrored=False)
    if "calls" not in o:
      run.disagree("obj:driver", dict(cls=cls, stream=sc["stream"]), "ok", o)
      continue
    for k, (rec, mo) in enumerate(zip(recs, o["calls"])):
      n_calls += 1
      c = legacy_case(sc, rec)
      lab = label(c)
      key0 = dict(quantizer=c["q"], cls=cls, alpha=("const" if not isinstance(c["alpha"], str) and c["alpha"] is not None
                                                     else str(c["alpha"])))
      run.case(key=("obj", sc["stream"], cls, sc["route"], rec["aform"], str(rec["tform"]), tuple(c["shape"]), k,
                    len(run.nontrivial)), nontrivial=True,
               sample={"scenario": dict(cls=cls, route=sc["route"], stream=sc["stream"], call=k, case=lab)}
               if n_calls % 40 == 1 else None)
      run.count("obj:%s:%s" % (sc["stream"], cls))
      run.count("obj:alpha-form:%s" % rec["aform"].split("[")[0])
      run.count("obj:route:%s" % sc["route"])
      run.count("obj:input:%s:rank%d" % (rec["xin"], len(c["shape"])))
      if k > 0:
        run.count("obj:call-after-call:%s" % ("same-rank" if len(c["shape"]) == len(recs[k - 1]["x"].shape) else "rank-change"))
      run.compared += 1
      # ---- a call writes `scale` (and `built`) and nothing else: every other public attribute, and every
      # object the quantizer was configured with (also one shared with another quantizer), keeps its value
      run.count("obj:clause:attrs_unchanged_by_call:" + ("FAIL" if rec["attr_changed"] else "ok"))
      if rec["attr_changed"]:
        n0 = rec["attr_changed"][0][0]
        run.violate("attrs_unchanged_by_call", dict(key0, attr=n0),
                    {"case": lab, "call": k, "changed": [dict(attr=n, before=b, after=a) for n, b, a in rec["attr_changed"]]},
                    mirrored=False)
      if rec["arg_mutated"]:
        run.count("obj:clause:argument_not_mutated:FAIL")
        n0 = rec["arg_mutated"][0][0]
        run.violate("argument_not_mutated", dict(key0, arg=n0),
                    {"case": lab, "call": k, "mutated": [dict(arg=n, handed_over=b, now=a) for n, b, a in rec["arg_mutated"]]},
                    mirrored=False)
      # ---- the real call raised
      if "err" in rec:
        mirrored = "err" in mo
        run.count("obj:impl-raises:" + rec["err"])
        if not mirrored:
          run.disagree("obj:model-accepts", lab, rec["err_text"], "ok")
        elif not same_error(mo["err"], rec["err"]):
          run.disagree("obj:error-kind", lab, rec["err"], mo["err"])
        run.violate("returns_output", dict(key0, why=why_raises(sc, rec), error=rec["err"]),
                    {"case": lab, "call": k, "error": rec["err_text"]},
                    mirrored=mirrored and same_error(mo.get("err"), rec["err"]))
        continue
      if "err" in mo:
        run.disagree("obj:model-rejects", lab, "ok", mo)
        continue
      det = {"case": lab, "call": k, "n_calls": len(recs), "earlier_calls_on_shapes": [list(r["x"].shape) for r in recs[:k]]}
      if rec["x"].size <= 64:
        det["x"] = [float(v) for v in rec["x"].ravel()]
      if not np.isfinite(rec["y"]).all():
        run.count("obj:impl-nonfinite")
        run.violate("finite", key0, dict(det, y=[float(v) for v in rec["y"].ravel()[:8]]), mirrored=False)
        continue
      x, xste, y = A.fr(rec["x"]), A.fr(rec["xste"]), A.fr(rec["y"])
      # ---- the output has the shape of the input
      if rec["yshape"] != c["shape"]:
        run.violate("output_shape", key0, dict(det, yshape=rec["yshape"]), mirrored=False)
        continue
      # ---- q.scale after the call
      if rec["sc"] is None:
        run.count("obj:clause:scale_state")
        run.violate("scale_state", dict(key0, why=rec["sc_problem"].split("-[")[0]), dict(det, problem=rec["sc_problem"]),
                    mirrored=False)
        continue
      if not np.isfinite(rec["sc"]).all():
        run.violate("finite", key0, dict(det, scale=[float(v) for v in rec["sc"][:8]]), mirrored=False)
        continue
      sc_f = [F(float(v)) for v in rec["sc"]]
      # ---- the SHAPE of a data-dependent `q.scale`: one entry per index of the configured scale axes of THIS
      # tensor, 1 along every reduced axis (keepdims); rank <= 1: one scale per element
      if isinstance(c["alpha"], str):
        r = len(c["shape"])
        if r <= 1:
          want = list(c["shape"])
        else:
          kept = {a % r for a in A.spec_scale_axes(r, c.get("sa") if c["q"] == "binary" else None, rec["ch_last"])}
          want = [c["shape"][d] if d in kept else 1 for d in range(r)]
        run.count("obj:clause:scale_shape:" + ("ok" if rec["sc_shape"] == want else "FAIL"))
        if rec["sc_shape"] != want:
          run.violate("scale_shape", key0, dict(det, scale_shape=rec["sc_shape"], expected=want), mirrored=False)
      # ---- tie: the Lean object model, bit for bit (exact-regime inputs only in these streams)
      mF = dict(out=A.dec(mo["F"]["out"]), scales=A.dec(mo["F"]["scales"]))
      mE = dict(out=A.dec(mo["E"]["out"]), scales=A.dec(mo["E"]["scales"]), codes=A.dec(mo["E"]["codes"]))
      mirrored = True
      if mo["band"]:
        run.count("obj:tie:band")
        mirrored = (mF["out"] == y)
      elif mF["out"] != y or mF["scales"] != sc_f:
        mirrored = False
        j = next((i for i in range(len(y)) if mF["out"][i] != y[i] or mF["scales"][i] != sc_f[i]), 0)
        run.disagree("obj:bit-exact:" + cls, dict(lab, call=k), {"i": j, "y": float(y[j]), "scale": float(sc_f[j])},
                     {"i": j, "y": float(mF["out"][j]), "scale": float(mF["scales"][j])})
      else:
        run.count("obj:tie:bit-exact")
      # ---- clause oracle of the tensor-level streams (+ const_scale)
      n_before = len(run.violations)
      judge(run, c, x, xste, y, sc_f, eps32, (mE, mF), mirrored)
      judged_bad = len(run.violations) > n_before
      # ---- fresh twin: the k-th use is a first use; the canonical spelling behaves the same
      if "twin_err" in rec:
        run.disagree("obj:twin-raises", lab, "ok", rec["twin_err"])
      else:
        ty, ts = A.fr(rec["twin_y"]), ([F(float(v)) for v in rec["twin_sc"]] if rec["twin_sc"] is not None else None)
        if (ty != y or ts != sc_f) and not judged_bad:     # (a clause failure above already reports this call)
          j = next((i for i in range(len(y)) if ty[i] != y[i] or (ts is not None and ts[i] != sc_f[i])), 0)
          why = "later-call" if k > 0 else ("argument-form" if (rec["aform"] not in ("pyfloat", "None", "str")
                                                                 or rec["tform"] not in (None, "pyfloat", "None")) else "route")
          run.count("obj:clause:fresh_twin")
          run.violate("fresh_twin", dict(key0, why=why),
                      dict(det, form=rec["aform"], i=j, y=float(y[j]), twin_y=float(ty[j]), scale=float(sc_f[j]),
                           twin_scale=(float(ts[j]) if ts is not None else None)), mirrored=mirrored)
      # ---- reporter of the state
      if isinstance(rec["gws"], str) or [F(float(v)) for v in rec["gws"]] != sc_f:
        run.violate("weight_scale_reporter", key0, dict(det, get_weight_scale=str(rec["gws"])[:200]), mirrored=False)
      # ---- an object built from the same text must not share state
      if rec.get("sc_after_alias") is not None or "sc_after_alias" in rec:
        aa = rec["sc_after_alias"]
        if aa is None or [F(float(v)) for v in aa] != sc_f:
          run.violate("scale_state", dict(key0, why="shared-with-object-of-same-text"), det, mirrored=False)
    # ---- `q.scale` at the end of the history: that of the last successful call, and the model's
    if recs and last[0] == "ok" and last[1] is not None and np.isfinite(last[1]).all():
      fin = final[0] if final else None
      if fin is None or not np.array_equal(np.asarray(fin, dtype=np.float64), np.asarray(last[1], dtype=np.float64)):
        run.violate("scale_state", dict(quantizer=BASE[cls], cls=cls, why="changed-without-a-call"),
                    {"scenario": dict(cls=cls, route=sc["route"], stream=sc["stream"])}, mirrored=False)
      ms = o.get("scale")
      if ms is not None and fin is not None and np.isfinite(fin).all() and A.dec(ms) != [F(float(v)) for v in fin]:
        run.disagree("obj:final-scale", dict(cls=cls, stream=sc["stream"]), [float(v) for v in fin[:6]],
                     [float(v) for v in A.dec(ms)[:6]])
  run.extra["obj_scenarios"] = len(scs)
  run.extra["obj_calls"] = n_calls
