"""C13 — saving, cloning or reloading a quantized model preserves predictions (DESIGN.md §4 C13).

Static tie (exhaustive): constructor signatures / get_config key sets / trainable behaviour of every
class in `_add_supported_quantized_objects` (which since the fix round includes quantized_linear and
quantized_hswish) and the table itself vs the Lean tables.
Behavioural tie: for every layer of every generated model, the live layer is read into the model's
`Layer` value (attributes, not get_config), then
  * real `get_config()` (canonical JSON)            vs  `layerGetConfig`
  * attributes of the really reloaded layer         vs  `layerFromConfig (layerGetConfig L)`
    (set of read arguments that changed; raise / ok)
Clause oracle on the real code: the three routes must not raise, must predict bit-identically and
must report identical get_quantizers() strings, with no user custom objects.

Strengthening round (seed C13-4): stream `array-args` — constructor arguments that take an array, a
tuple or a list, at degenerate shapes (kernel masks for every unit / rectangular kernel shape and
every mask form the constructor accepts, kernel_size / strides / dilation_rate / pool_size / axis as
int, tuple and list, list-valued quantizer options, array-valued post_training_scale / alpha).  The
cases are branches of a few multi-input models (one set of routes per model); when a route fails,
every branch is re-run as a model of its own so that the violation names the concrete failing layer.

Strengthening round (seeds C13-7 / C13-8): stream `array-args:shared` — ONE quantizer object in several
quantizer slots of one layer (every class with >= 2 slots) and of two layers, tied to the model's heap
semantics (driver op `shared`) and judged by the three-route oracle (get_quantizers() strings!); tie
`reported-quantizers` on every layer of every stream; stream `sigmoid-mode` — build under
set_internal_sigmoid(A), switch to B, routes, compare original and copies under B and back under A.

Strengthening round (seeds C13-9 / C13-10): base-class keyword arguments (`baseKwargs` table; adapter reads them
from live attributes; stream `array-args:basekw`, layer-level clause `layer-config`, `layer-output-differs` in
every route) and the caller's own `custom_objects` on the three routes (stream `user-objects`, tie `route-table`).
"""
import fractions
import json
import os
import shutil
import tempfile

import numpy as np

from .. import core
from . import c13_tables as T

ROUTES = ("json", "clone", "h5")


# ----------------------------------------------------------------------------- canonical values

def canon(v):
  """python value -> canonical comparable structure (numbers Fractions, tuples lists)"""
  if v is None or isinstance(v, (bool, str, fractions.Fraction)):
    return v
  if isinstance(v, np.bool_):
    return bool(v)
  if isinstance(v, (int, np.integer)):
    return fractions.Fraction(int(v))
  if isinstance(v, (float, np.floating)):
    return fractions.Fraction(float(v))
  if isinstance(v, (list, tuple)):
    return [canon(x) for x in v]
  if isinstance(v, np.ndarray):
    return canon(v.tolist())
  if isinstance(v, dict):
    if v.get("class_name") in ("__tensor__", "__numpy__") and isinstance(v.get("config"), dict):
      return canon(v["config"].get("value"))     # Keras' encoding of a tensor / array literal
    d = {str(k): canon(x) for k, x in v.items()}
    if "class_name" in d and "config" in d:      # Keras adornments of a serialised object
      d.pop("module", None)
      d.pop("registered_name", None)
      d.pop("__passive_serialization__", None)
    return d
  if hasattr(v, "numpy"):
    return canon(v.numpy())
  return canon(list(v))


def dec_pv(j):
  """protocol PyVal -> canonical structure"""
  if j is None or isinstance(j, (bool, str)):
    return j
  if isinstance(j, list):
    return [dec_pv(x) for x in j]
  if isinstance(j, dict):
    if "$r" in j:
      return fractions.Fraction(int(j["$r"][0]), int(j["$r"][1]))
    if "$d" in j:
      return {k: dec_pv(v) for k, v in j["$d"].items()}
  raise ValueError("bad PyVal %r" % (j,))


def enc_pv(c):
  """canonical structure -> protocol PyVal"""
  if c is None or isinstance(c, (bool, str)):
    return c
  if isinstance(c, fractions.Fraction):
    return {"$r": [c.numerator, c.denominator]}
  if isinstance(c, list):
    return [enc_pv(x) for x in c]
  if isinstance(c, dict):
    return {"$d": {k: enc_pv(v) for k, v in c.items()}}
  raise ValueError("enc_pv %r" % (c,))


def json_canon(v):
  """a config value possibly holding live objects -> canonical structure (through Keras' own JSON
  encoder, i.e. exactly what to_json writes)"""
  from tf_keras.src.saving.legacy.saved_model import json_utils
  return canon(json.loads(json.dumps(v, default=json_utils.get_json_type)))


# ----------------------------------------------------------------------------- adapter

def is_quantizer(o):
  from qkeras import base_quantizer
  return isinstance(o, base_quantizer.BaseQuantizer)


# {quantizer class: arguments on which its get_config calls a bare `.tolist()`} — from the model's
# tables (empty for every class since the repair of C13-qbits-post_training_scale-not-numpy; the static
# tie `static-quantizer-tolist` observes the live classes)
QTOLIST = {}


def quant_json(q, qparams):
  """live quantizer -> QVal protocol form (every constructor argument read from its attribute).
  `native`: arguments (among those the class calls `.tolist()` on) whose live value is a plain
  Python object — the one Python-type distinction the model keeps."""
  if q is None:
    return None
  cls = q.__class__.__name__
  if cls not in qparams:
    return {"str": "<%s>" % cls}
  args = []
  for p in qparams[cls]:
    args.append([p, enc_pv(canon(getattr(q, p)))])
  native = [p for p in QTOLIST.get(cls, []) if getattr(q, p) is not None and not hasattr(getattr(q, p), "tolist")]
  return {"obj": {"cls": cls, "args": args, "native": native}}


def act_json(a, qparams, raw=False):
  if a is None:
    return None
  if isinstance(a, str):
    return {"raw": a} if raw else {"fn": a}
  if is_quantizer(a):
    return {"obj": quant_json(a, qparams)["obj"]}
  return {"fn": getattr(a, "__name__", a.__class__.__name__)}


def find_attr(layer, names):
  for holder in (layer, getattr(layer, "cell", None), getattr(layer, "batchnorm", None)):
    if holder is None:
      continue
    for n in names:
      if hasattr(holder, n):
        return True, getattr(holder, n)
  return False, None


def layer_json(layer, spec, qparams):
  """live layer -> the model's Layer value.  Read arguments come from attributes; literals that
  the computation does not read fall back to get_config when no attribute carries them."""
  import tensorflow as tf
  from qkeras import qlayers
  cls = layer.__class__.__name__
  cfg_exc = None
  try:
    cfg = layer.get_config()
  except Exception as e:  # pylint: disable=broad-except
    # the layer is still read from its attributes; the model is asked whether get_config raises
    cfg, cfg_exc = {}, e
  pnames = [p["name"] for p in spec["params"]]
  # forwarded keyword arguments: those of the class' Keras base classes that the model's table says
  # get_config writes are read from the live ATTRIBUTE (not from the config the model is compared with);
  # the generic Layer keys (name, trainable, dtype) and object-valued ones come from the config
  plain = (type(None), bool, int, float, str, np.integer, np.floating, np.bool_)
  held = {}
  for b in spec.get("base_kwargs", []):
    if b["emitted"] and hasattr(layer, b["name"]):
      v = getattr(layer, b["name"])
      if isinstance(v, plain) or (isinstance(v, (list, tuple)) and all(isinstance(z, plain) for z in v)):
        held[b["name"]] = v
  kwargs = [[k, enc_pv(json_canon(held.get(k, v)))] for k, v in cfg.items() if k not in pnames]
  kwargs += [[k, enc_pv(json_canon(v))] for k, v in held.items() if k not in cfg and cfg_exc is None]
  args = []
  from_cfg = []
  for p in spec["params"]:
    name, k = p["name"], p["kind"]["k"]
    if k in ("lit", "fixed"):
      if cls == "QAdaptiveActivation" and name == "activation":
        val = layer.quantizer.__class__.__name__
      elif cls == "QAdaptiveActivation" and name == "current_step":
        val = layer.step.numpy()
      elif name.endswith("_regularizer"):
        ok, o = find_attr(layer, [name])
        val = json_canon(tf.keras.regularizers.serialize(o)) if (ok and o is not None) else None
      elif name.endswith("_initializer"):
        ok, o = find_attr(layer, [name])
        val = json_canon(tf.keras.initializers.serialize(o)) if ok else cfg.get(name)
      elif name.endswith("_constraint"):
        ok, o = find_attr(layer, [name])
        val = json_canon(tf.keras.constraints.serialize(o)) if (ok and o is not None) else None
      else:
        ok, o = find_attr(layer, [name])
        if ok:
          val = o
        elif name in cfg:
          val = cfg[name]
          from_cfg.append(name)
        else:
          val = p["default"]["lit"]
          val = dec_pv(val)
          from_cfg.append(name)
      args.append([name, {"lit": enc_pv(canon(val) if not isinstance(val, (dict,)) else json_canon(val))}])
    elif k == "mask":
      m = getattr(layer, "_mask", None)
      args.append([name, {"lit": enc_pv(canon(m))}])
    elif k == "quant":
      ok, q = find_attr(layer, [name + "_internal"])
      args.append([name, {"q": quant_json(q, qparams)}])
    elif k == "act":
      ok, a = find_attr(layer, [name])
      args.append([name, {"act": act_json(a, qparams)}])
    elif k == "rawAct":
      args.append([name, {"act": act_json(layer.activation, qparams, raw=True)}])
    elif k == "constr":
      ok, c = find_attr(layer, [name])
      if c is None:
        args.append([name, {"constr": None}])
      elif isinstance(c, qlayers.Clip):
        inner = None if c.constraint is None else json_canon(tf.keras.constraints.serialize(c.constraint))
        args.append([name, {"constr": {"clip": {"min": enc_pv(canon(c.min_value)), "max": enc_pv(canon(c.max_value)),
                                                "inner": enc_pv(inner), "q": quant_json(c.quantizer, qparams)}}}])
      else:
        args.append([name, {"constr": {"keras": enc_pv(json_canon(tf.keras.constraints.serialize(c)))}}])
    elif k == "init":
      ok, i = find_attr(layer, [name])
      if i is None:
        args.append([name, {"init": None}])
      elif isinstance(i, qlayers.QInitializer):
        args.append([name, {"init": {"qinit": {
            "inner": enc_pv(json_canon(tf.keras.initializers.serialize(i.initializer))),
            "use_scale": enc_pv(canon(i.use_scale)), "q": quant_json(i.quantizer, qparams)}}}])
      else:
        args.append([name, {"init": {"keras": enc_pv(json_canon(tf.keras.initializers.serialize(i)))}}])
    else:
      raise core.InfraError("kind %s" % k)
  return {"cls": cls, "kwargs": kwargs, "args": args, "cfg_exc": cfg_exc, "held_kw": {k: json.dumps(enc_pv(json_canon(v)), sort_keys=True) for k, v in held.items()}}, from_cfg


def lj2_exc(layer):
  """re-raise what get_config of a rebuilt layer raised (it is reported as a `serialise` violation)"""
  try:
    layer.get_config()
  except Exception as e:  # pylint: disable=broad-except
    return e
  return RuntimeError("get_config raised once and not the second time")


def qj_short(j):
  """protocol QVal -> short text (class and the arguments that are not None / False)"""
  if not isinstance(j, dict) or "obj" not in j:
    return j
  return "%s(%s)" % (j["obj"]["cls"], ", ".join(
      "%s=%s" % (k, dec_pv(v)) for k, v in j["obj"]["args"] if v is not None and v is not False))


def qstr(q):
  if q is None:
    return "None"
  try:
    return str(q)
  except Exception:  # pylint: disable=broad-except
    return "CFG:" + json.dumps(json_canon(q.get_config()), default=str, sort_keys=True)


def quantizer_strings(model):
  out = []
  for l in model.layers:
    try:
      if hasattr(l, "get_quantizers"):
        out.append([qstr(q) for q in l.get_quantizers()])
      elif hasattr(l, "quantizer"):
        out.append([qstr(l.quantizer)])
    except Exception as e:  # pylint: disable=broad-except
      out.append(["<get_quantizers raises %s>" % type(e).__name__])
  return out


# ----------------------------------------------------------------------------- routes

def layer_shapes(model):
  """(name, output shape, dtype) of every layer: what a model ending at that layer would predict"""
  out = []
  for l in model.layers:
    try:
      out.append((l.name, str(l.output_shape), str(getattr(l, "dtype", None))))
    except Exception as e:  # pylint: disable=broad-except
      out.append((l.name, "<%s>" % type(e).__name__, ""))
  return out


def run_routes(model, x, scratch, branches=None, eager=False, custom_objects=None, scope=None, on_route=None):
  """the three routes on the real code -> {route: (status, detail, model2)}.
  custom_objects: the CALLER's dict, handed to every route as its `custom_objects` argument (the same
  dict object for the three routes, one after the other); scope: a dict installed with
  `tf.keras.utils.custom_object_scope` around every route instead.
  eager: `predict` runs with `run_eagerly` on the original and on every rebuilt model (the packed
  many-branch models: tracing their predict function four times dominates the run otherwise)"""
  import contextlib
  import tensorflow as tf
  from qkeras.utils import clone_model, quantized_model_from_json, load_qmodel
  if eager:
    model.run_eagerly = True
  y0 = np.asarray(model.predict(x, verbose=0))
  q0 = quantizer_strings(model)
  s0 = layer_shapes(model)
  res = {}
  branches = branches or []
  kw = {} if custom_objects is None else {"custom_objects": custom_objects}
  for r in ROUTES:
    m2 = None
    try:
      with (tf.keras.utils.custom_object_scope(scope) if scope is not None else contextlib.nullcontext()):
        if r == "json":
          m2 = quantized_model_from_json(model.to_json(), **kw)
          m2.set_weights(model.get_weights())
        elif r == "clone":
          m2 = clone_model(model, **kw)
        else:
          path = os.path.join(scratch, "m.h5")
          if os.path.exists(path):
            os.remove(path)
          model.save(path)
          m2 = load_qmodel(path, compile=False, **kw)
          os.remove(path)
      if eager:
        m2.run_eagerly = True
      y = np.asarray(m2.predict(x, verbose=0))
      q = quantizer_strings(m2)
      if y.shape != y0.shape or y.tobytes() != y0.tobytes():
        d = float(np.max(np.abs(y.astype(np.float64) - y0.astype(np.float64)))) if y.shape == y0.shape else -1.0
        detail = {"max_abs_diff": d}
        if y.shape != y0.shape:
          detail.update(original_output_shape=list(y0.shape), rebuilt_output_shape=list(y.shape))
        if branches and y.shape == y0.shape:
          # the model concatenates one output slice per branch: name the branches that differ
          detail["branches_that_differ"] = [lab for lab, (a, b) in branches
                                            if y[..., a:b].tobytes() != y0[..., a:b].tobytes()]
        res[r] = ("predict-differs", detail, m2)
      elif q != q0:
        res[r] = ("quantizers-differ", {"before": q0, "after": q}, m2)
      elif layer_shapes(m2) != s0:
        # same bytes at the model's outputs, but a layer inside has another output shape / dtype (hidden
        # by a Flatten / Reshape behind it): a model ENDING at that layer predicts differently
        s2 = dict((n, (sh, dt)) for n, sh, dt in layer_shapes(m2))
        res[r] = ("layer-output-differs", {"layers": [{"layer": n, "original": [sh, dt], "rebuilt": list(s2.get(n, ("<missing>", "")))}
                                                      for n, sh, dt in s0 if s2.get(n) != (sh, dt)][:6]}, m2)
      else:
        res[r] = ("ok", {}, m2)
    except Exception as e:  # pylint: disable=broad-except
      res[r] = ("raises", {"exception": type(e).__name__, "message": str(e)[:300].replace("\n", " ")}, None)
    if on_route is not None:
      on_route(r)
  return res


# ----------------------------------------------------------------------------- generation

def serialisable_quantizers(rng, role):
  """quantizer constructor expressions over the options that get_config emits — since the fix round
  every option but var_name / use_variables, so scale_axis, the po2 exponent bounds, is_quantized_clip
  and the classes quantized_linear / quantized_hswish (in any slot, QActivation included) are drawn
  here as ordinary members of the lattice"""
  import qkeras as Q
  b = int(rng.integers(2, 7))
  i = int(rng.integers(0, 2))
  weight = [
      ("quantized_bits", lambda: Q.quantized_bits(b, i, symmetric=int(rng.integers(0, 2)), alpha=1.0)),
      ("quantized_bits", lambda: Q.quantized_bits(b, i, 1, alpha="auto_po2")),
      ("quantized_bits", lambda: Q.quantized_bits(b, i, 1, alpha="auto")),
      ("quantized_bits", lambda: Q.quantized_bits(b, i, keep_negative=False, alpha=1.0)),
      ("quantized_bits", lambda: Q.quantized_bits(b, i, 1)),  # alpha None -> auto_po2 in trainable slots
      ("quantized_linear", lambda: Q.quantized_linear(b, i, alpha=1.0)),
      ("quantized_linear", lambda: Q.quantized_linear(b, i, symmetric=0, keep_negative=False, alpha="auto_po2")),
      ("binary", lambda: Q.binary(alpha=1.0)),
      ("binary", lambda: Q.binary(use_01=True, alpha=1.0)),
      ("binary", lambda: Q.binary(alpha="auto_po2")),
      ("ternary", lambda: Q.ternary(alpha=1.0, threshold=0.4)),
      ("ternary", lambda: Q.ternary(alpha="auto", number_of_unrolls=3)),
      ("stochastic_ternary", lambda: Q.stochastic_ternary(alpha=1.0, threshold=0.3, temperature=4.0,
                                                         use_real_sigmoid=False, number_of_unrolls=2)),
      ("stochastic_binary", lambda: Q.stochastic_binary(alpha=1.0, temperature=3.0, use_real_sigmoid=False)),
      ("quantized_po2", lambda: Q.quantized_po2(b, max_value=2.0 ** int(rng.integers(-1, 3)))),
      ("quantized_po2", lambda: Q.quantized_po2(b, quadratic_approximation=True, log2_rounding="floor")),
      ("quantized_relu_po2", lambda: Q.quantized_relu_po2(b, max_value=4.0, negative_slope=0.25)),
      ("quantized_ulaw", lambda: Q.quantized_ulaw(b, i, 1, u=100.0)),
      # formerly dropped by get_config / not loadable (fix round)
      ("quantized_bits+scale_axis", lambda: Q.quantized_bits(b, i, 1, alpha="auto", scale_axis=0)),
      ("quantized_bits+po2_exponents", lambda: Q.quantized_bits(b, i, 1, alpha="auto_po2", min_po2_exponent=-1,
                                                                max_po2_exponent=0)),
      ("quantized_linear+scale_axis", lambda: Q.quantized_linear(b, i, alpha="auto", scale_axis=0)),
      ("binary+scale_axis", lambda: Q.binary(alpha="auto", scale_axis=0)),
      ("quantized_hswish", lambda: Q.quantized_hswish(b + 2, 2, relu_shift=2, relu_upper_bound=4)),
  ]
  act = [
      ("quantized_relu", lambda: Q.quantized_relu(b, i)),
      ("quantized_relu", lambda: Q.quantized_relu(b, i, use_sigmoid=1, negative_slope=0.25, relu_upper_bound=1.5)),
      ("quantized_relu", lambda: Q.quantized_relu(b, i, negative_slope=0.125)),
      ("quantized_tanh", lambda: Q.quantized_tanh(b, symmetric=True)),
      ("quantized_tanh", lambda: Q.quantized_tanh(b, use_real_tanh=True)),
      ("quantized_sigmoid", lambda: Q.quantized_sigmoid(b, symmetric=True, use_real_sigmoid=True)),
      ("quantized_sigmoid", lambda: Q.quantized_sigmoid(b)),
      ("quantized_bits", lambda: Q.quantized_bits(b, i, 1, alpha=1.0)),
      ("quantized_po2", lambda: Q.quantized_po2(b, max_value=2.0)),
      ("quantized_relu_po2", lambda: Q.quantized_relu_po2(b, max_value=2.0)),
      ("quantized_ulaw", lambda: Q.quantized_ulaw(b, 1, 1)),
      ("binary", lambda: Q.binary(alpha=1.0)),
      ("ternary", lambda: Q.ternary(alpha=1.0)),
      # formerly dropped by get_config / not loadable / not in the custom-object table (fix round)
      ("quantized_relu+unquantized_clip", lambda: Q.quantized_relu(b, 1, is_quantized_clip=False,
                                                                   relu_upper_bound=1.3)),
      ("quantized_hswish", lambda: Q.quantized_hswish(b + 2, 2)),
      ("quantized_linear", lambda: Q.quantized_linear(b, i)),
      ("str:quantized_relu", lambda: "quantized_relu(%d,%d)" % (b, i)),
      ("str:quantized_tanh", lambda: "quantized_tanh(%d)" % b),
      ("str:quantized_bits", lambda: "quantized_bits(%d,%d,1,alpha=1)" % (b, i)),
  ]
  pool = weight if role == "weight" else act
  n, mk = pool[int(rng.integers(0, len(pool)))]
  return n, mk


LAYER_KINDS = [
    "QDense", "QConv1D", "QConv2D", "QConv2D_mask", "QDepthwiseConv2D", "QSeparableConv1D", "QSeparableConv2D",
    "QActivation", "QAdaptiveActivation", "QBatchNormalization", "QAveragePooling2D", "QGlobalAveragePooling2D",
    "QSimpleRNN", "QLSTM", "QGRU", "QBidirectional", "RNN(QSimpleRNNCell)", "RNN(QLSTMCell)", "RNN(QGRUCell)",
    "QConv2DBatchnorm", "QDepthwiseConv2DBatchnorm", "QScaleShift",
]
EXCLUDED = {
    "QConv2DTranspose": "call() uses array_ops.stack which TF 2.21 no longer exposes (does not build); "
                        "signature and get_config keys are still tied statically",
    "QSeparableConv2DTranspose/QDepthwiseConv2DTranspose": "not in the custom-object table and do not run",
    "bernoulli": "draws random bits at inference: predictions are not a function of weights and inputs",
}


def build_layer(kind, rng, wq=None, aq=None, opts=None):
  """one qkeras layer of `kind` -> (input shape, layer factory result, options label)"""
  import tensorflow as tf
  import qkeras as Q
  L = tf.keras.layers
  opts = dict(opts or {})
  def W():
    return wq() if wq else None
  def A():
    return aq() if aq else None
  ub = bool(opts.get("use_bias", True))
  if kind == "QDense":
    return (5,), Q.QDense(3, kernel_quantizer=W(), bias_quantizer=W(), activation=A(), use_bias=ub)
  if kind == "QConv1D":
    return (6, 3), Q.QConv1D(2, 2, strides=opts.get("strides", 1), padding=opts.get("padding", "valid"),
                              dilation_rate=opts.get("dilation", 1), kernel_quantizer=W(), bias_quantizer=W(),
                              activation=A(), use_bias=ub)
  if kind in ("QConv2D", "QConv2D_mask"):
    mask = np.array([[1, 0], [1, 1]]) if kind == "QConv2D_mask" else None
    return (5, 5, 2), Q.QConv2D(2, (2, 2), strides=opts.get("strides", 1), padding=opts.get("padding", "valid"),
                                 kernel_quantizer=W(), bias_quantizer=W(), activation=A(), use_bias=ub, mask=mask)
  if kind == "QDepthwiseConv2D":
    return (5, 5, 2), Q.QDepthwiseConv2D((2, 2), depth_multiplier=opts.get("dm", 1),
                                          padding=opts.get("padding", "valid").upper(), depthwise_quantizer=W(),
                                          bias_quantizer=W(), activation=A(), use_bias=ub)
  if kind == "QSeparableConv1D":
    return (6, 3), Q.QSeparableConv1D(2, 2, depth_multiplier=opts.get("dm", 1), depthwise_quantizer=W(),
                                       pointwise_quantizer=W(), bias_quantizer=W(), activation=A(), use_bias=ub)
  if kind == "QSeparableConv2D":
    return (5, 5, 2), Q.QSeparableConv2D(2, (2, 2), depth_multiplier=opts.get("dm", 1), depthwise_quantizer=W(),
                                          pointwise_quantizer=W(), bias_quantizer=W(), activation=A(), use_bias=ub)
  if kind == "QActivation":
    return (5,), Q.QActivation(A())
  if kind == "QAdaptiveActivation":
    return (5,), Q.QAdaptiveActivation(opts.get("act", "quantized_bits"), int(opts.get("bits", 4)),
                                        symmetric=opts.get("symmetric", True), per_channel=opts.get("pc", False),
                                        po2_rounding=opts.get("po2r", False),
                                        relu_neg_slope=opts.get("slope", 0.0),
                                        relu_upper_bound=opts.get("relu_upper_bound", None))
  if kind == "QBatchNormalization":
    kw = {}
    if wq:
      kw = dict(gamma_quantizer=W(), beta_quantizer=W(), mean_quantizer=W(), variance_quantizer=W())
    if opts.get("inverse"):
      kw = dict(gamma_quantizer=None, variance_quantizer=None, inverse_quantizer=W(), beta_quantizer=W(),
                mean_quantizer=W())
    return (5,), Q.QBatchNormalization(center=opts.get("center", True), scale=opts.get("scale", True), **kw)
  if kind == "QAveragePooling2D":
    return (4, 4, 2), Q.QAveragePooling2D((2, 2), average_quantizer=W(), activation=A())
  if kind == "QGlobalAveragePooling2D":
    return (4, 4, 2), Q.QGlobalAveragePooling2D(average_quantizer=W(), activation=A())
  rkw = dict(kernel_quantizer=W(), recurrent_quantizer=W(), bias_quantizer=W(), state_quantizer=A(), use_bias=ub)
  if aq is not None and opts.get("rnn_act", False):
    rkw["activation"] = A()
  if kind == "QSimpleRNN":
    return (3, 4), Q.QSimpleRNN(2, return_sequences=opts.get("rs", False), go_backwards=opts.get("gb", False), **rkw)
  if kind == "QLSTM":
    return (3, 4), Q.QLSTM(2, return_sequences=opts.get("rs", False), implementation=opts.get("impl", 1), **rkw)
  if kind == "QGRU":
    return (3, 4), Q.QGRU(2, return_sequences=opts.get("rs", False), reset_after=opts.get("ra", False), **rkw)
  if kind == "QBidirectional":
    inner = [Q.QSimpleRNN, Q.QLSTM, Q.QGRU][int(opts.get("inner", 1)) % 3]
    bw = inner(2, go_backwards=True, **dict(rkw, kernel_quantizer=W(), recurrent_quantizer=W(),
                                             bias_quantizer=W(), state_quantizer=A())) if opts.get("bwd") else None
    return (3, 4), Q.QBidirectional(inner(2, **rkw), merge_mode=opts.get("merge", "concat"), backward_layer=bw)
  if kind.startswith("RNN("):
    cell = {"RNN(QSimpleRNNCell)": Q.QSimpleRNNCell, "RNN(QLSTMCell)": Q.QLSTMCell, "RNN(QGRUCell)": Q.QGRUCell}[kind]
    return (3, 4), L.RNN(cell(2, **rkw), return_sequences=opts.get("rs", False))
  if kind == "QConv2DBatchnorm":
    return (5, 5, 2), Q.QConv2DBatchnorm(2, (2, 2), kernel_quantizer=W(), bias_quantizer=W(), activation=A(),
                                          folding_mode=opts.get("fm", "ema_stats_folding"))
  if kind == "QDepthwiseConv2DBatchnorm":
    return (5, 5, 2), Q.QDepthwiseConv2DBatchnorm((2, 2), depthwise_quantizer=W(), bias_quantizer=W(), activation=A(),
                                                   folding_mode=opts.get("fm", "ema_stats_folding"))
  if kind == "QScaleShift":
    return (5,), Q.QScaleShift(weight_quantizer=W(), bias_quantizer=W(), activation=A(), use_bias=ub)
  raise ValueError(kind)


def randomize_weights(model, rng):
  ws = []
  for v, w in zip(model.weights, model.get_weights()):
    if w.ndim == 0 or not np.issubdtype(w.dtype, np.floating) or "ema_" in v.name:
      ws.append(w)      # scalars, counters and QAdaptiveActivation's EMA state stay as built
      continue
    a = rng.normal(0, 0.7, w.shape).astype(np.float32)
    if "variance" in v.name:
      a = np.abs(a) + np.float32(0.5)
    ws.append(a)
  model.set_weights(ws)


def random_opts(kind, rng, rep=0):
  o = {}
  # every second model of a kind is bias-less (QLSTMCell.call does not build without a bias: skipped)
  if rep % 2 == 1 and "LSTM" not in kind and kind != "QBidirectional":
    o["use_bias"] = False
  if kind in ("QConv1D", "QConv2D", "QDepthwiseConv2D") and rng.integers(0, 2):
    o["padding"] = "same"
  if kind in ("QConv1D", "QConv2D") and rng.integers(0, 2):
    o["strides"] = 2
  if kind == "QConv1D" and "strides" not in o and rng.integers(0, 2):
    o["dilation"] = 2
  if kind in ("QDepthwiseConv2D", "QSeparableConv1D", "QSeparableConv2D") and rng.integers(0, 2):
    o["dm"] = 2
  if kind == "QAdaptiveActivation":
    o["act"] = ["quantized_bits", "quantized_relu"][int(rng.integers(0, 2))]
    o["bits"] = int(rng.integers(3, 7))
    o["symmetric"] = bool(rng.integers(0, 2))
    o["pc"] = bool(rng.integers(0, 2))
    o["po2r"] = bool(rng.integers(0, 2))
    if o["act"] == "quantized_relu" and rng.integers(0, 2):
      o["slope"] = 0.25
  if kind == "QBatchNormalization":
    o["center"] = bool(rng.integers(0, 4) != 0)
    o["scale"] = bool(rng.integers(0, 4) != 0)
    o["inverse"] = bool(rng.integers(0, 4) == 0)
  if kind in ("QSimpleRNN", "QLSTM", "QGRU", "QBidirectional") or kind.startswith("RNN("):
    o["rs"] = bool(rng.integers(0, 2))
    o["rnn_act"] = bool(rng.integers(0, 2))
  if kind == "QSimpleRNN":
    o["gb"] = bool(rng.integers(0, 2))
  if kind == "QLSTM":
    o["impl"] = int(rng.integers(1, 3))
  if kind == "QGRU":
    o["ra"] = bool(rng.integers(0, 2))
  if kind == "QBidirectional":
    o["inner"] = int(rng.integers(0, 3))
    o["bwd"] = bool(rng.integers(0, 2))
    o["merge"] = ["concat", "sum", "ave"][int(rng.integers(0, 3))]
    o["rs"] = False if o["merge"] != "concat" and False else o["rs"]
  if kind in ("QConv2DBatchnorm", "QDepthwiseConv2DBatchnorm") and rng.integers(0, 2):
    o["fm"] = "batch_stats_folding"
  return o


# the defects recorded on the tree this check was first built on, all repaired in the fix round
# (known/C13.json "fixed"): one fixed model per former defect, replayed on every run (stream
# "regression").  No known-finding entry covers them any more, so a failure of any route on any of
# them is a VIOLATION.
def regression_cases():
  import qkeras as Q
  qa = lambda mk: (lambda: mk())
  cases = []
  def add(kind, label, qclass, option, wq=None, aq=None, opts=None):
    cases.append(dict(kind=kind, label=label, qclass=qclass, option=option, wq=wq, aq=aq, opts=opts or {}))
  # F4: options that get_config used to drop and that change inference
  add("QDense", "quantized_bits(scale_axis=0)", "quantized_bits", "scale_axis",
      wq=qa(lambda: Q.quantized_bits(4, 0, 1, alpha="auto", scale_axis=0)))
  add("QDense", "quantized_bits(min/max_po2_exponent)", "quantized_bits", "min_po2_exponent",
      wq=qa(lambda: Q.quantized_bits(4, 0, 1, alpha="auto_po2", min_po2_exponent=-1, max_po2_exponent=0)))
  add("QConv2D", "quantized_linear(scale_axis=0)", "quantized_linear", "scale_axis",
      wq=qa(lambda: Q.quantized_linear(4, 0, alpha="auto", scale_axis=0)))
  add("QDense", "binary(scale_axis=0)", "binary", "scale_axis",
      wq=qa(lambda: Q.binary(alpha="auto", scale_axis=0)))
  add("QActivation", "quantized_relu(is_quantized_clip=False)", "quantized_relu", "is_quantized_clip",
      aq=qa(lambda: Q.quantized_relu(4, 1, is_quantized_clip=False, relu_upper_bound=1.3)))
  add("QDense", "quantized_relu(is_quantized_clip=False) as activation", "quantized_relu", "is_quantized_clip",
      aq=qa(lambda: Q.quantized_relu(4, 1, is_quantized_clip=False, relu_upper_bound=1.3)))
  # quantized_hswish: from_config(get_config()) used to raise TypeError
  add("QDense", "quantized_hswish kernel", "quantized_hswish", "*", wq=qa(lambda: Q.quantized_hswish(6, 2)))
  add("QDense", "quantized_hswish activation", "quantized_hswish", "*", aq=qa(lambda: Q.quantized_hswish(6, 2)))
  # classes formerly missing from the custom-object table: QActivation resolves its dict through the table
  add("QActivation", "QActivation(quantized_linear)", "quantized_linear", "table",
      aq=qa(lambda: Q.quantized_linear(4, 0)))
  add("QActivation", "QActivation(quantized_hswish)", "quantized_hswish", "table",
      aq=qa(lambda: Q.quantized_hswish(6, 2)))
  # QAdaptiveActivation.get_config used to drop relu_upper_bound
  add("QAdaptiveActivation", "QAdaptiveActivation(relu_upper_bound=0.5)", "QAdaptiveActivation",
      "relu_upper_bound", opts=dict(act="quantized_relu", bits=4, relu_upper_bound=0.5))
  return cases


def activation_objects():
  """quantizer OBJECTS with non-default options for QActivation: every option here changes the
  transfer function, and most are not (faithfully) encoded by the quantizer's __str__, so a
  QActivation config that does not carry the object's own get_config() cannot reproduce them"""
  import qkeras as Q
  return [
      ("quantized_relu(4,1,negative_slope=0.25)", lambda: Q.quantized_relu(4, 1, negative_slope=0.25)),
      ("quantized_relu(4,1,use_sigmoid=1)", lambda: Q.quantized_relu(4, 1, use_sigmoid=1)),
      ("quantized_relu(4,1,relu_upper_bound=1.3,is_quantized_clip=False)",
       lambda: Q.quantized_relu(4, 1, relu_upper_bound=1.3, is_quantized_clip=False)),
      ("quantized_relu(4,1,qnoise_factor=0.5)", lambda: Q.quantized_relu(4, 1, qnoise_factor=0.5)),
      ("quantized_tanh(4,symmetric=True)", lambda: Q.quantized_tanh(4, symmetric=True)),
      ("quantized_tanh(4,use_real_tanh=True)", lambda: Q.quantized_tanh(4, use_real_tanh=True)),
      ("quantized_sigmoid(4,use_real_sigmoid=True)", lambda: Q.quantized_sigmoid(4, use_real_sigmoid=True)),
      ("quantized_sigmoid(4,symmetric=True)", lambda: Q.quantized_sigmoid(4, symmetric=True)),
      ("quantized_po2(4,max_value=1.5)", lambda: Q.quantized_po2(4, max_value=1.5)),
      ("quantized_po2(4,quadratic_approximation=True,log2_rounding='floor')",
       lambda: Q.quantized_po2(4, quadratic_approximation=True, log2_rounding="floor")),
      ("quantized_relu_po2(4,max_value=1.5,negative_slope=0.25)",
       lambda: Q.quantized_relu_po2(4, max_value=1.5, negative_slope=0.25)),
      ("quantized_bits(4,1,1,alpha=1.0,qnoise_factor=0.5)",
       lambda: Q.quantized_bits(4, 1, 1, alpha=1.0, qnoise_factor=0.5)),
      ("quantized_bits(4,0,keep_negative=False,alpha=1.0)",
       lambda: Q.quantized_bits(4, 0, keep_negative=False, alpha=1.0)),
      ("quantized_bits(4,0,1,alpha='auto',scale_axis=0)",
       lambda: Q.quantized_bits(4, 0, 1, alpha="auto", scale_axis=0)),
      ("quantized_ulaw(4,1,1,u=100.0)", lambda: Q.quantized_ulaw(4, 1, 1, u=100.0)),
      ("binary(use_01=True,alpha=1.0)", lambda: Q.binary(use_01=True, alpha=1.0)),
      ("ternary(alpha=1.0,threshold=0.4)", lambda: Q.ternary(alpha=1.0, threshold=0.4)),
      ("quantized_linear(4,1,symmetric=0,keep_negative=False)",
       lambda: Q.quantized_linear(4, 1, symmetric=0, keep_negative=False)),
      # quantized_hswish has a model of its own in the regression stream (its __str__ raises on the
      # tree this was written on, which would turn the whole multi-branch model into one `raises`)
  ]


def explicit_none_cases(specs, tier):
  """layers built with a quantizer / activation argument EXPLICITLY None although its constructor
  default is not None (QBatchNormalization's four quantizers, the activations of the recurrent
  layers): a config that leaves None-valued entries out makes them come back as the default.
  Derived from the model's tables: (kind, label, keyword arguments)."""
  out = []
  for cls_name in sorted(specs):
    nn = []
    for p in specs[cls_name]["params"]:
      d = p["default"]
      if p["kind"]["k"] in ("quant", "act") and next(iter(d.values())) is not None:
        nn.append(p["name"])
    if not nn or cls_name.endswith("Cell") and tier == "quick":
      continue
    out.append((cls_name, "%s(%s)" % (cls_name, ", ".join("%s=None" % n for n in nn)), {n: None for n in nn}))
    if cls_name == "QBatchNormalization":
      out.append((cls_name, "QBatchNormalization(beta_quantizer=None, mean_quantizer=None)",
                  {"beta_quantizer": None, "mean_quantizer": None}))
      out.append((cls_name, "QBatchNormalization(gamma_quantizer=None, variance_quantizer=None, inverse_quantizer=quantized_bits(6,2,1,alpha=1))",
                  {"gamma_quantizer": None, "variance_quantizer": None, "inverse_quantizer": "OBJ"}))
      if tier != "quick":
        for n in nn:
          out.append((cls_name, "QBatchNormalization(%s=None)" % n, {n: None}))
  return out


# ----------------------------------------------------------------------------- array / tuple / list arguments

KERNEL_SHAPES = [(1, 1), (1, 3), (3, 1), (1, 2), (2, 1), (2, 3), (3, 2), (3, 3)]
MASK_FORMS = ["hw", "hw11", "hw1", "col", "row", "one"]


def make_mask(rng, ks, form, dtype):
  """a kernel mask as the user passes it: `form` = the array shape relative to the kernel (h, w):
  hw (h,w) | hw11 (h,w,1,1) | hw1 (h,w,1) | col (h,1): broadcast over the width | row (1,w) | one (1,1)"""
  h, w = ks
  shape = {"hw": (h, w), "hw11": (h, w, 1, 1), "hw1": (h, w, 1), "col": (h, 1), "row": (1, w), "one": (1, 1)}[form]
  if dtype == "float":
    m = rng.integers(0, 3, shape).astype(np.float32) / np.float32(2)
  else:
    m = rng.integers(0, 2, shape).astype(np.int64)
  m.flat[int(rng.integers(0, m.size))] = 1     # never all-zero: the branch output must depend on the kernel
  return m.astype(bool) if dtype == "bool" else m


def mask_branches(rng, tier):
  """QConv2D / QConv2DBatchnorm with a kernel mask: every kernel shape of KERNEL_SHAPES (all unit and
  rectangular ones) with the plain (h, w) form, every other form on a drawn kernel shape, dtype drawn"""
  import qkeras as Q
  out = []
  def add(cls_name, ks, form, dtype):
    mask = make_mask(rng, ks, form, dtype)
    lab = "%s(2, %s, mask=<%s array of shape %s: %s>)" % (cls_name, ks, dtype, mask.shape,
                                                          json.dumps(np.asarray(mask, dtype=np.float64).ravel().tolist()))
    def mk(name, cls_name=cls_name, ks=ks, mask=mask):
      return getattr(Q, cls_name)(2, ks, mask=mask, padding="same", name=name,
                                  kernel_quantizer=Q.quantized_bits(4, 0, 1, alpha=1.0))
    out.append(dict(label=lab, cls=cls_name, inp=0, make=mk, mask=mask,
                    key={"layer": cls_name, "qclass": "mask", "option": "kernel=%dx%d mask=%s/%s" % (ks + (form, dtype))}))
  dts = ["int", "float", "bool"]
  for cls_name in ("QConv2D", "QConv2DBatchnorm"):
    for ks in KERNEL_SHAPES:
      add(cls_name, ks, "hw", dts[int(rng.integers(0, 3))])
    for form in MASK_FORMS[1:]:
      if cls_name == "QConv2D" or tier != "quick" or form in ("hw11", "col"):
        add(cls_name, KERNEL_SHAPES[int(rng.integers(0, len(KERNEL_SHAPES)))], form, dts[int(rng.integers(0, 3))])
  return [((5, 5, 2),)], out


def tuple_branches(rng, tier):
  """kernel_size / strides / dilation_rate / pool_size / axis given as int, tuple or list, with unit
  entries and rectangular values, over every layer class that takes them"""
  import qkeras as Q
  qb = lambda: Q.quantized_bits(4, 0, 1, alpha=1.0)
  seq = lambda v: (list(v) if rng.integers(0, 2) else tuple(v))     # list or tuple, drawn
  out = []
  def add(cls_name, inp, lab, mk):
    out.append(dict(label="%s(%s)" % (cls_name, lab), cls=cls_name, inp=inp, make=mk,
                    key={"layer": cls_name, "qclass": "tuple-args", "option": lab}))
  def conv2d_like(cls_name, first, wkw):
    variants = [dict(kernel_size=seq((1, 3)), strides=seq((2, 1))), dict(kernel_size=3, dilation_rate=seq((1, 2))),
                dict(kernel_size=seq((2, 1)), strides=seq((1, 2))), dict(kernel_size=seq((1, 1)), strides=2),
                dict(kernel_size=seq((3, 1)), dilation_rate=seq((2, 1)))]
    if cls_name.startswith("QDepthwiseConv2DBatchnorm"):
      variants = [v for v in variants if "dilation_rate" not in v]
    n_pick = 1 if cls_name.endswith("Batchnorm") else 2      # the folded layers inherit the plain ones' config code
    picks = variants if tier != "quick" else [variants[int(i)] for i in rng.choice(len(variants), n_pick, replace=False)]
    for kw in picks:
      lab = ", ".join("%s=%r" % kv for kv in sorted(kw.items()))
      add(cls_name, 0, lab, lambda name, kw=kw: getattr(Q, cls_name)(*first, name=name, padding="same", **dict(kw, **wkw())))
  conv2d_like("QConv2D", (2,), lambda: dict(kernel_quantizer=qb()))
  conv2d_like("QConv2DBatchnorm", (2,), lambda: dict(kernel_quantizer=qb()))
  conv2d_like("QDepthwiseConv2D", (), lambda: dict(depthwise_quantizer=qb()))
  conv2d_like("QDepthwiseConv2DBatchnorm", (), lambda: dict(depthwise_quantizer=qb()))
  conv2d_like("QSeparableConv2D", (2,), lambda: dict(depthwise_quantizer=qb(), pointwise_quantizer=qb()))
  for kw in [dict(pool_size=seq((1, 2)), strides=seq((2, 1))), dict(pool_size=seq((2, 1))), dict(pool_size=3, strides=1),
             dict(pool_size=seq((1, 1)), strides=seq((1, 2)))]:
    lab = ", ".join("%s=%r" % kv for kv in sorted(kw.items()))
    add("QAveragePooling2D", 0, lab, lambda name, kw=kw: Q.QAveragePooling2D(name=name, average_quantizer=qb(), **kw))
  for kw in [dict(axis=[-1]), dict(axis=[3]), dict(axis=-1)]:
    lab = ", ".join("%s=%r" % kv for kv in sorted(kw.items()))
    add("QBatchNormalization", 0, lab, lambda name, kw=kw: Q.QBatchNormalization(name=name, **kw))
  for kw in [dict(kernel_size=seq((2,)), strides=seq((2,))), dict(kernel_size=seq((1,)), dilation_rate=seq((2,))),
             dict(kernel_size=1, strides=seq((1,)))]:
    lab = ", ".join("%s=%r" % kv for kv in sorted(kw.items()))
    add("QConv1D", 1, lab, lambda name, kw=kw: Q.QConv1D(2, name=name, kernel_quantizer=qb(), **kw))
  for kw in [dict(kernel_size=seq((1,))), dict(kernel_size=seq((2,)), strides=seq((2,)))]:
    lab = ", ".join("%s=%r" % kv for kv in sorted(kw.items()))
    add("QSeparableConv1D", 1, lab, lambda name, kw=kw: Q.QSeparableConv1D(
        2, name=name, depthwise_quantizer=qb(), pointwise_quantizer=qb(), **kw))
  return [((6, 6, 2),), ((6, 3),)], out


def quantizer_list_branches(rng, tier):
  """list- / array-valued quantizer options at degenerate shapes: scale_axis as a one-element list and
  as a list of all axes, elements_per_scale as int / one-element list, post_training_scale as a numpy
  array of rank 0 / 1 / 2 / 4 with unit axes and as a numpy scalar, alpha as a list"""
  import qkeras as Q
  del tier
  f32 = np.float32
  pts = lambda shape: (2.0 ** rng.integers(-2, 2, shape)).astype(f32)
  out = []
  def add(cls_name, inp, qlab, mk):
    out.append(dict(label="%s(kernel_quantizer=%s)" % (cls_name, qlab), cls=cls_name, inp=inp, make=mk,
                    key={"layer": cls_name, "qclass": qlab.split("(")[0], "option": qlab}))
  dense = [
      ("quantized_bits(4,0,1,alpha='auto',scale_axis=[0])", lambda: Q.quantized_bits(4, 0, 1, alpha="auto", scale_axis=[0])),
      ("quantized_bits(4,0,1,alpha='auto',scale_axis=[0,1])", lambda: Q.quantized_bits(4, 0, 1, alpha="auto", scale_axis=[0, 1])),
      ("quantized_bits(4,0,1,alpha='auto_po2',scale_axis=[1])", lambda: Q.quantized_bits(4, 0, 1, alpha="auto_po2", scale_axis=[1])),
      ("binary(alpha='auto',scale_axis=[0])", lambda: Q.binary(alpha="auto", scale_axis=[0])),
      ("binary(alpha='auto',scale_axis=1,elements_per_scale=1)", lambda: Q.binary(alpha="auto", scale_axis=1, elements_per_scale=1)),
      ("binary(alpha='auto',scale_axis=[1],elements_per_scale=[3])", lambda: Q.binary(alpha="auto", scale_axis=[1], elements_per_scale=[3])),
      ("binary(alpha='auto_po2',scale_axis=[0,1],elements_per_scale=[5,1])",
       lambda: Q.binary(alpha="auto_po2", scale_axis=[0, 1], elements_per_scale=[5, 1])),
      ("quantized_bits(4,0,1,alpha='auto_po2',post_training_scale=<ndarray (1,3)>)",
       lambda v=pts((1, 3)): Q.quantized_bits(4, 0, 1, alpha="auto_po2", post_training_scale=v)),
      ("quantized_bits(4,0,1,alpha='auto_po2',post_training_scale=<ndarray (1,1)>)",
       lambda v=pts((1, 1)): Q.quantized_bits(4, 0, 1, alpha="auto_po2", post_training_scale=v)),
      ("quantized_bits(4,0,1,alpha='auto_po2',post_training_scale=<ndarray ()>)",
       lambda v=pts(()): Q.quantized_bits(4, 0, 1, alpha="auto_po2", post_training_scale=np.asarray(v))),
      ("quantized_bits(4,0,1,alpha='auto',post_training_scale=<ndarray (3,)>)",
       lambda v=pts((3,)): Q.quantized_bits(4, 0, 1, alpha="auto", post_training_scale=v)),
      ("quantized_bits(4,0,1,alpha='auto_po2',post_training_scale=<np.float32>)",
       lambda v=pts(()): Q.quantized_bits(4, 0, 1, alpha="auto_po2", post_training_scale=f32(v))),
      ("quantized_bits(4,0,1,alpha=[0.5,1.0,2.0])", lambda: Q.quantized_bits(4, 0, 1, alpha=[0.5, 1.0, 2.0])),
      ("quantized_bits(4,0,1,alpha=<np.float32 2.0>)", lambda: Q.quantized_bits(4, 0, 1, alpha=f32(2.0))),
  ]
  for qlab, mkq in dense:
    add("QDense", 0, qlab, lambda name, mkq=mkq: Q.QDense(3, name=name, kernel_quantizer=mkq()))
  conv = [
      ((1, 1), "quantized_bits(4,0,1,alpha='auto',scale_axis=[3])", lambda: Q.quantized_bits(4, 0, 1, alpha="auto", scale_axis=[3])),
      ((1, 3), "quantized_bits(4,0,1,alpha='auto_po2',post_training_scale=<ndarray (1,1,1,2)>)",
       lambda v=pts((1, 1, 1, 2)): Q.quantized_bits(4, 0, 1, alpha="auto_po2", post_training_scale=v)),
      ((3, 1), "quantized_bits(4,0,1,alpha='auto',scale_axis=[0,1,2,3])",
       lambda: Q.quantized_bits(4, 0, 1, alpha="auto", scale_axis=[0, 1, 2, 3])),
  ]
  for ks, qlab, mkq in conv:
    add("QConv2D", 1, "%s; kernel_size=%s" % (qlab, ks),
        lambda name, ks=ks, mkq=mkq: Q.QConv2D(2, ks, name=name, padding="same", kernel_quantizer=mkq()))
  return [((5,),), ((5, 5, 2),)], out


class Chain:
  """several layers applied one after the other, handled as one branch of a packed model"""

  def __init__(self, layers):
    self.layers = list(layers)

  def __call__(self, x):
    for l in self.layers:
      x = l(x)
    return x

  def get_weights(self):
    return [l.get_weights() for l in self.layers]

  def set_weights(self, ws):
    for l, w in zip(self.layers, ws):
      l.set_weights(w)


def branch_layers(b):
  return b.layers if isinstance(b, Chain) else [b]


QUANTIZER_ARGS = {"quantized_bits": "4", "quantized_linear": "4", "quantized_hswish": "6,2"}


def default_alpha_branches(rng, tier, trainable_classes):
  """EVERY quantizer class that has `_set_trainable_parameter` (from the model's tables), with alpha
  left at its default None, as object and as string, in the weight slots on which the layer
  constructors call `_set_trainable_parameter` (alpha None -> 'auto_po2' AFTER construction), with
  weights scaled far away from 1 so that the auto scale differs from the default scale; plus
  quantizer objects with a history: shared by two layers, called stand-alone before being handed to
  a layer, switched to 'auto_po2' by one layer and then used in a bias slot, re-configured through
  the public `update_qnoise_factor`"""
  import tensorflow as tf
  import qkeras as Q
  out = []
  def qmake(cls_name, form):
    args = QUANTIZER_ARGS.get(cls_name, "")
    if form == "string":
      return "%s(%s)" % (cls_name, args)
    return getattr(Q, cls_name)(*[int(a) for a in args.split(",") if a])
  def add(kind, slots, cls_name, form, mk):
    scale = [0.05, 3.0][int(rng.integers(0, 2))]
    lab = "%s(%s=%s as %s, alpha left at None) with weights scaled by %g" % (
        kind, "/".join(slots), "%s(%s)" % (cls_name, QUANTIZER_ARGS.get(cls_name, "")), form, scale)
    out.append(dict(label=lab, cls=kind, inp={"QDense": 0, "QScaleShift": 0, "QSimpleRNN": 2}.get(kind, 1), make=mk, wscale=scale,
                    key={"layer": kind, "qclass": cls_name, "option": "default-alpha/%s/%s" % (form, "+".join(slots))}))
  conv_classes = set(trainable_classes) if tier != "quick" else {
      trainable_classes[int(i)] for i in rng.choice(len(trainable_classes), min(2, len(trainable_classes)), replace=False)}
  for cls_name in trainable_classes:
    for form in ("object", "string"):
      add("QDense", ["kernel_quantizer"], cls_name, form,
          lambda name, c=cls_name, f=form: Q.QDense(3, name=name, kernel_quantizer=qmake(c, f)))
      # quick: a convolutional slot for two drawn classes (QConv2D with the object, QDepthwiseConv2D with the string)
      conv_pick = 0 if cls_name in conv_classes else 1
      if tier != "quick" or (form == "object" and conv_pick == 0):
        add("QConv2D", ["kernel_quantizer"], cls_name, form,
            lambda name, c=cls_name, f=form: Q.QConv2D(2, (2, 2), name=name, kernel_quantizer=qmake(c, f)))
      if tier != "quick" or (form == "string" and conv_pick == 0):
        add("QDepthwiseConv2D", ["depthwise_quantizer"], cls_name, form,
            lambda name, c=cls_name, f=form: Q.QDepthwiseConv2D((2, 2), name=name, depthwise_quantizer=qmake(c, f)))
      if tier != "quick":
        add("QSeparableConv2D", ["depthwise_quantizer", "pointwise_quantizer"], cls_name, form,
            lambda name, c=cls_name, f=form: Q.QSeparableConv2D(2, (2, 2), name=name, depthwise_quantizer=qmake(c, f),
                                                               pointwise_quantizer=qmake(c, f)))
        add("QSimpleRNN", ["kernel_quantizer", "recurrent_quantizer"], cls_name, form,
            lambda name, c=cls_name, f=form: Q.QSimpleRNN(2, name=name, kernel_quantizer=qmake(c, f),
                                                         recurrent_quantizer=qmake(c, f)))
        add("QScaleShift", ["weight_quantizer"], cls_name, form,
            lambda name, c=cls_name, f=form: Q.QScaleShift(name=name, weight_quantizer=qmake(c, f)))
  # ---- histories on one quantizer object
  def hist(lab, cls_name, mk, inp=0):
    out.append(dict(label=lab, cls="QDense", inp=inp, make=mk, wscale=3.0,
                    key={"layer": "QDense", "qclass": cls_name, "option": "history/" + lab.split(":")[0]}))
  # quick: every kind of history on one class, drawn per run
  picks = trainable_classes if tier != "quick" else [trainable_classes[int(rng.integers(0, len(trainable_classes)))]]
  for cls_name in picks:
    def shared(name, c=cls_name):
      q = qmake(c, "object")
      return Chain([Q.QDense(4, name=name + "a", kernel_quantizer=q), Q.QDense(3, name=name + "b", kernel_quantizer=q)])
    hist("shared: one %s object (alpha None) is the kernel quantizer of two chained QDense layers" % cls_name, cls_name, shared)
    def preused(name, c=cls_name):
      q = qmake(c, "object")
      q(tf.constant([[[0.5, -7.0, 2.5]]]))         # stand-alone call, another rank and magnitude
      return Q.QDense(3, name=name, kernel_quantizer=q)
    hist("pre-used: %s object (alpha None) called stand-alone on a rank-3 tensor, then handed to QDense" % cls_name,
         cls_name, preused)
    def then_bias(name, c=cls_name):
      q = qmake(c, "object")
      first = Q.QDense(4, name=name + "a", kernel_quantizer=q)      # switches q to 'auto_po2'
      return Chain([first, Q.QDense(3, name=name + "b", kernel_quantizer=Q.quantized_bits(4, 0, 1, alpha=1.0),
                                    bias_quantizer=q)])
    hist("kernel-then-bias: %s object switched to auto_po2 by one QDense, then the bias quantizer of the next" % cls_name,
         cls_name, then_bias)
  def noise(name):
    q = Q.quantized_bits(4, 0, 1, alpha=1.0)
    q.update_qnoise_factor(0.5)
    a = Q.quantized_relu(4, 1)
    a.update_qnoise_factor(0.25)
    return Q.QDense(3, name=name, kernel_quantizer=q, activation=a)
  hist("update_qnoise_factor: quantized_bits / quantized_relu re-configured through update_qnoise_factor(0.5 / 0.25) "
       "before being handed to QDense", "quantized_bits", noise)
  return [((5,),), ((5, 5, 2),), ((3, 4),)], out


def keras_name_branches(rng, tier):
  """stock Keras layers inside a quantized model, naming their activation by a Keras built-in NAME:
  `Activation(name)` behind a QDense for every built-in activation name, and for the names that
  qkeras also exports (another function under the same name: hard_sigmoid) every stock layer kind
  that takes an activation.  The three routes install the library's custom-object table, in which
  custom names win over Keras' own: the table must not shadow a Keras name."""
  import tensorflow as tf
  import qkeras as Q
  from qkeras import quantizers as QQ
  del rng, tier
  L = tf.keras.layers
  names = sorted(n for n in dir(tf.keras.activations)
                 if not n.startswith("_") and callable(getattr(tf.keras.activations, n))
                 and n not in ("get", "serialize", "deserialize"))
  colliding = [n for n in names if callable(getattr(QQ, n, None)) or callable(getattr(Q, n, None))]
  qd = lambda name: Q.QDense(4, name=name, kernel_quantizer=Q.quantized_bits(4, 0, 1, alpha=1.0))
  out = []
  def add(kind, inp, name_, mk):
    out.append(dict(label="QDense -> stock Keras %s using the Keras name %r" % (kind, name_) if inp == 0 else
                    "stock Keras %s using the Keras name %r (next to Q-layers)" % (kind, name_),
                    cls="keras:" + kind.split("(")[0], inp=inp, make=mk, keras_name=name_,
                    key={"layer": "keras:" + kind.split("(")[0], "qclass": "keras-name", "option": name_}))
  for n in names:
    add("Activation", 0, n, lambda name, n=n: Chain([qd(name + "q"), L.Activation(n, name=name)]))
  for n in colliding:
    add("Dense(activation=)", 0, n, lambda name, n=n: Chain([qd(name + "q"), L.Dense(3, activation=n, name=name)]))
    add("Conv2D(activation=)", 1, n, lambda name, n=n: L.Conv2D(2, (2, 2), activation=n, name=name))
    add("LSTM(recurrent_activation=)", 2, n, lambda name, n=n: L.LSTM(2, recurrent_activation=n, name=name))
    add("GRU(recurrent_activation=)", 2, n, lambda name, n=n: L.GRU(2, recurrent_activation=n, name=name))
    add("SimpleRNN(activation=)", 2, n, lambda name, n=n: L.SimpleRNN(2, activation=n, name=name))
  return [((5,),), ((5, 5, 2),), ((3, 4),)], out, colliding


RECURRENT = ("QSimpleRNN", "QLSTM", "QGRU")
SHARED_INPUT = {"QDense": 0, "QScaleShift": 0, "QBatchNormalization": 0, "QConv1D": 3, "QSeparableConv1D": 3,
                "QSimpleRNN": 2, "QLSTM": 2, "QGRU": 2, "QSimpleRNNCell": 2, "QLSTMCell": 2, "QGRUCell": 2}


def shared_role_branches(rng, tier, specs, qparams, trainable_classes):
  """histories on one quantizer OBJECT across ROLES: one object (alpha left at None, so that the
  layer constructor switches it in place on its trainable slots) passed for several quantizer slots
  of ONE layer — every layer class of the model's tables with at least two quantizer slots: all
  slots at once, a trainable and a non-trainable slot, for the recurrent classes every pair
  kernel/recurrent x bias/state — and for slots of TWO layers in both orders (bias of the first,
  kernel of the second: the first layer's object is switched after the layer was constructed).
  The original holds one object for the shared slots, every rebuilt model one fresh object per slot:
  predictions and get_quantizers() strings must agree.  Every constructor run is also sent to the
  model (driver op `shared`: heap before, slot -> object) and compared with the live
  `*_quantizer_internal` attributes and the live `get_quantizers()` right after construction."""
  import tensorflow as tf
  import qkeras as Q
  out = []
  def qmake(cls_name):
    return getattr(Q, cls_name)(*[int(a) for a in QUANTIZER_ARGS.get(cls_name, "").split(",") if a])
  def other(slot):
    return Q.quantized_bits(6, 1, 1, alpha=1.0) if slot.startswith("state") else Q.quantized_bits(4, 0, 1, alpha=1.0)
  def qslots_of(cls_name):
    ps = [p for p in specs[cls_name]["params"] if p["kind"]["k"] == "quant"]
    return [p["name"] for p in ps], [p["name"] for p in ps if p["kind"].get("t")]
  def construct(cls_name, shared, q, name, ties, extra=None):
    """build `cls_name` with the object `q` in the slots `shared`, fresh objects elsewhere"""
    qslots, _ = qslots_of(cls_name)
    kw = dict(T.SAMPLE_ARGS[cls_name])
    kw.update(extra or {})
    objs, refs = [], []
    for sl in qslots:
      o = q if sl in shared else (None if sl == "inverse_quantizer" else other(sl))
      kw[sl] = o
      if o is not None:
        idx = next((i for i, z in enumerate(objs) if z is o), None)
        if idx is None:
          objs.append(o)
          idx = len(objs) - 1
        refs.append([sl, idx])
    heap = [quant_json(o, qparams)["obj"] for o in objs]       # the objects as the user built them
    layer = getattr(Q, cls_name)(name=name, **kw)
    holder = getattr(layer, "cell", layer)
    ties.append(dict(cls=cls_name, heap=heap, refs=refs,
                     slots=[[sl, quant_json(getattr(holder, sl + "_internal"), qparams)] for sl in qslots],
                     reported=[quant_json(z, qparams) for z in layer.get_quantizers()]
                     if hasattr(layer, "get_quantizers") else None))
    return layer
  def add(cls_name, shared, qcls, mk, what=None, inp=None):
    scale = [0.05, 3.0][int(rng.integers(0, 2))]
    lab = what or "%s(%s = ONE %s(%s) object, alpha left at None) with weights scaled by %g" % (
        cls_name, " = ".join(shared), qcls, QUANTIZER_ARGS.get(qcls, ""), scale)
    b = dict(label=lab, cls=cls_name, inp=SHARED_INPUT.get(cls_name, 1) if inp is None else inp, wscale=scale, shared_ties=[],
             key={"layer": cls_name, "qclass": qcls, "option": "shared-object/" + "+".join(shared)})
    def make(name, b=b):
      del b["shared_ties"][:]          # the ties of the latest construction only
      return mk(name, b["shared_ties"])
    b["make"] = make
    out.append(b)
  draw = lambda: trainable_classes[int(rng.integers(0, len(trainable_classes)))]
  classes = [c for c in sorted(specs) if len(qslots_of(c)[0]) >= 2 and c not in EXCLUDED
             and not (c.endswith("Cell") and tier == "quick")]
  for cls_name in classes:
    qslots, tr = qslots_of(cls_name)
    qslots = [sl for sl in qslots if sl != "inverse_quantizer"]
    fixed = [sl for sl in qslots if sl not in tr]
    wrap = (lambda l: tf.keras.layers.RNN(l)) if cls_name.endswith("Cell") else (lambda l: l)
    def one(shared, qcls, cls_name=cls_name, wrap=wrap):
      add(cls_name, shared, qcls,
          lambda name, ties: wrap(construct(cls_name, shared, qmake(qcls), name, ties)))
    recurrent = cls_name in RECURRENT or cls_name.endswith("Cell")
    qclasses = trainable_classes if tier != "quick" else [draw()]
    for qcls in qclasses:
      if tier != "quick" or not recurrent:                      # (a recurrent layer costs ~1 s per construction)
        one(qslots, qcls)                                       # every slot holds the one object
    pairs = [(t, f) for t in tr for f in fixed]                 # recurrent: kernel/recurrent x bias/state
    if not recurrent:
      pairs = pairs + [(tr[0], tr[1])] if len(tr) > 1 else pairs
      pairs = [pr for pr in pairs if len(qslots) > 2]
      if tier == "quick":
        pairs = pairs if cls_name == "QBatchNormalization" else []
    if tier == "quick" and pairs:                               # quick: one drawn pair per class, thorough: all
      pairs = [pairs[int(rng.integers(0, len(pairs)))]]
    for t, f in pairs:
      one([t, f], "quantized_bits")
      if tier != "quick":
        one([t, f], draw())
  # the wrapper: Keras' Bidirectional re-creates its two directions from the wrapped layer's config
  for inner in (RECURRENT if tier != "quick" else []):
    add("QBidirectional", ["kernel_quantizer", "bias_quantizer"], "quantized_bits",
        lambda name, ties, inner=inner: Q.QBidirectional(
            construct(inner, ["kernel_quantizer", "bias_quantizer"], qmake("quantized_bits"), name + "i", ties), name=name),
        what="QBidirectional(%s(kernel_quantizer = bias_quantizer = ONE quantized_bits(4) object, alpha left at None))" % inner,
        inp=2)
  # one object in slots of TWO layers
  qcls = draw()
  def bias_then_kernel(name, ties, qcls=qcls):
    q = qmake(qcls)
    return Chain([construct("QDense", ["bias_quantizer"], q, name + "a", ties, dict(units=4)),
                  construct("QDense", ["kernel_quantizer"], q, name + "b", ties, dict(units=3))])
  add("QDense", ["bias_quantizer@1", "kernel_quantizer@2"], qcls, bias_then_kernel,
      what="bias-then-kernel: ONE %s object (alpha None) is the bias quantizer of a QDense and then the kernel quantizer "
           "of the next QDense (switched after the first layer was constructed)" % qcls)
  def rnn_pair(name, ties):
    q = qmake("quantized_bits")
    return Chain([construct("QLSTM", ["kernel_quantizer"], q, name + "a", ties, dict(return_sequences=True)),
                  construct("QGRU", ["bias_quantizer", "state_quantizer"], q, name + "b", ties)])
  if tier != "quick":
    add("QLSTM", ["kernel_quantizer@1", "bias_quantizer@2", "state_quantizer@2"], "quantized_bits", rnn_pair,
        what="ONE quantized_bits(4) object (alpha None): kernel quantizer of a QLSTM, bias and state quantizer of the QGRU behind it")
  def conv_pair(name, ties):
    q = qmake("quantized_bits")
    return Chain([construct("QConv2D", ["kernel_quantizer"], q, name + "a", ties),
                  construct("QDepthwiseConv2D", ["bias_quantizer"], q, name + "b", ties)])
  add("QConv2D", ["kernel_quantizer@1", "bias_quantizer@2"], "quantized_bits", conv_pair,
      what="ONE quantized_bits(4) object (alpha None): kernel quantizer of a QConv2D, bias quantizer of the QDepthwiseConv2D behind it")
  return [((5,),), ((5, 5, 2),), ((3, 4),), ((6, 3),)], out



BASE_KW_INPUT = {"QDense": 0, "QScaleShift": 0, "QBatchNormalization": 0, "QActivation": 0, "QAdaptiveActivation": 0,
                 "QConv1D": 3, "QSeparableConv1D": 3, "QSimpleRNN": 2, "QLSTM": 2, "QGRU": 2,
                 "QSimpleRNNCell": 2, "QLSTMCell": 2, "QGRUCell": 2}


def base_kwarg_layer(cls_name, specs, kw, name=None):
  """a layer of class `cls_name` with the base-class keyword arguments `kw`, a quantizer in every
  quantizer slot (so that the library's own call path runs)"""
  import qkeras as Q
  args = dict(T.SAMPLE_ARGS[cls_name])
  for p in specs[cls_name]["params"]:
    if p["kind"]["k"] == "quant" and p["name"] != "inverse_quantizer":
      args[p["name"]] = Q.quantized_bits(6, 1, 1, alpha=1.0) if p["name"].startswith(("state", "average")) \
          else Q.quantized_bits(4, 0, 1, alpha=1.0)
  args.update(kw)
  if name is not None:
    args["name"] = name
  return getattr(Q, cls_name)(**args)


def base_kwarg_branches(rng, tier, specs):
  """constructor arguments of the KERAS base class that a library class accepts through **kwargs
  (model table `baseKwargs`, observed live along the MRO): every (class, argument) pair that the
  inference computation reads, built with a legal non-default value (keepdims=True, groups=2,
  data_format='channels_first', time_major=True), one argument at a time.  The branch output shape is
  part of the judgement (`layer-output-differs`; the branch re-run ends at the layer itself)."""
  import tensorflow as tf
  del rng
  out = []
  for cls_name in sorted(specs):
    if cls_name in EXCLUDED or (cls_name.endswith("Cell") and tier == "quick"):
      continue
    for b in specs[cls_name].get("base_kwargs", []):
      if not (b["read"] or tier != "quick") or b["name"] not in T.BASE_KWARG_VALUES:
        continue
      if b["name"] == "time_major":
        continue          # (time, batch) inputs do not fit a packed model: layer-level tie + own model below
      v = T.BASE_KWARG_VALUES[b["name"]]
      wrap = (lambda l: tf.keras.layers.RNN(l)) if cls_name.endswith("Cell") else (lambda l: l)
      out.append(dict(label="%s(%s=%r) [argument of the Keras base class, through **kwargs]" % (cls_name, b["name"], v),
                      cls=cls_name, inp=BASE_KW_INPUT.get(cls_name, 1),
                      make=lambda name, c=cls_name, k=b["name"], v=v, wrap=wrap: wrap(base_kwarg_layer(c, specs, {k: v}, name)),
                      key={"layer": cls_name, "qclass": "base-kwargs", "option": "%s=%r" % (b["name"], v)}))
  return [((5,),), ((6, 6, 2),), ((3, 4),), ((6, 4),)], out


# (switch argument, value that switches the weight OFF, quantizer slot of that weight)
ABSENT_WEIGHT_SWITCHES = [("use_bias", False, "bias_quantizer"), ("center", False, "beta_quantizer"),
                          ("scale", False, "gamma_quantizer")]


def absent_weight_branches(rng, tier, specs):
  """a quantizer slot that is SET while the switch that creates its weight is OFF: every class of the
  table that has `use_bias` and `bias_quantizer` (the batch-norm folding classes — which quantize the
  bias folded from the batch-norm statistics with it although the convolution has no bias —, the
  recurrent classes and cells included) built with use_bias=False and a bias quantizer, and
  QBatchNormalization with center=False + beta_quantizer / scale=False + gamma_quantizer; the quantizer
  as object and as string, both folding modes.  Judged like every packed stream: predict bytes and
  get_quantizers() strings of every layer after the three routes (the layer still REPORTS the
  quantizer of the absent weight), the per-layer ties get_config / reported / reload-attrs."""
  import tensorflow as tf
  import qkeras as Q
  out = []
  forms = [("object", lambda: Q.quantized_bits(4, 1, 1, alpha=1.0)), ("string", lambda: "quantized_bits(5,1,1)")]
  fi = int(rng.integers(0, 2))
  pairs = 0
  for cls_name in sorted(specs):
    if cls_name in EXCLUDED or (cls_name.endswith("Cell") and tier == "quick"):
      continue
    pnames = [p["name"] for p in specs[cls_name]["params"]]
    for sw, off, slot in ABSENT_WEIGHT_SWITCHES:
      if sw not in pnames or slot not in pnames:
        continue
      folded = cls_name.endswith("Batchnorm")
      variants = [{}]
      if folded:
        variants = [{"folding_mode": "ema_stats_folding"}, {"folding_mode": "batch_stats_folding"}]
      pairs += 1
      for vi, extra in enumerate(variants):
        # quick: one form per (class, switch), alternating with the pair and the seed; the folding classes
        # (where the slot is USED) get one form per folding mode, i.e. both
        for k, (flab, mk) in enumerate(forms):
          if tier == "quick" and k != (fi + pairs + vi) % 2:
            continue
          kw = dict(extra)
          kw[sw] = off
          wrap = (lambda l: tf.keras.layers.RNN(l)) if cls_name.endswith("Cell") else (lambda l: l)
          opt = "%s=%r+%s=<%s>%s" % (sw, off, slot, flab, "".join("+%s=%s" % kv for kv in sorted(extra.items())))
          def make(name, c=cls_name, kw=kw, slot=slot, mk=mk, wrap=wrap):
            return wrap(base_kwarg_layer(c, specs, dict(kw, **{slot: mk()}), name))
          out.append(dict(label="%s(%s) [quantizer of a weight the layer does not create]" % (cls_name, opt),
                          cls=cls_name, inp=BASE_KW_INPUT.get(cls_name, 1), make=make,
                          key={"layer": cls_name, "qclass": "absent-weight", "option": opt}))
  # the same packed model also carries: every class with the read literal `implementation` at its
  # non-default legal value 2 (from_config has a legacy hook on that key: 0 -> 1), built WITHOUT quantizers
  # and 16 units — with float weights the two implementations differ in the last bit (association order),
  # with quantized weights they do not, so only such a layer shows a lost `implementation` in its predictions
  for cls_name in sorted(specs):
    pnames = [p["name"] for p in specs[cls_name]["params"]]
    if cls_name in EXCLUDED or "implementation" not in pnames or (cls_name.endswith("Cell") and tier == "quick"):
      continue
    def make_impl(name, c=cls_name):
      if c.endswith("Cell"):
        return tf.keras.layers.RNN(getattr(Q, c)(16, implementation=2), return_sequences=True, name=name)
      return getattr(Q, c)(16, implementation=2, return_sequences=True, name=name)
    out.append(dict(label="%s(16, implementation=2, return_sequences=True) [no quantizers: float arithmetic]" % cls_name,
                    cls=cls_name, inp=2, make=make_impl,
                    key={"layer": cls_name, "qclass": "none", "option": "implementation=2"}))
  return [((5,),), ((6, 6, 2),), ((3, 4),), ((6, 4),)], out


def base_kwarg_layer_ties(run, specs):
  """layer level, every (class, base-class argument) pair of the model's table (read or not, written by
  get_config or not): build with a non-default value, `cls.from_config(get_config())`; is the attribute
  of the rebuilt layer the original's?  -> [(label, cls, kw, value, live_same)] for the driver op
  `base_kwargs` (model: same iff get_config writes the key)"""
  import tensorflow as tf
  out = []
  co = T.custom_objects()
  def attr(layer, k):
    v = getattr(layer, k, getattr(layer, "_" + k, "<no attribute>"))
    if v is None or isinstance(v, (bool, int, float, str)):
      return v
    try:
      return json.dumps(json_canon(tf.keras.utils.serialize_keras_object(v)), sort_keys=True, default=str)
    except Exception:  # pylint: disable=broad-except
      return repr(v)
  for cls_name in sorted(specs):
    if cls_name in EXCLUDED:
      continue
    for b in specs[cls_name].get("base_kwargs", []):
      if b["name"] not in T.BASE_KWARG_VALUES:
        continue
      v = T.BASE_KWARG_VALUES[b["name"]]
      label = "%s(%s=%r)" % (cls_name, b["name"], v)
      try:
        layer = base_kwarg_layer(cls_name, specs, {b["name"]: v})
        a1 = attr(layer, b["name"])
        with tf.keras.utils.custom_object_scope(co):
          l2 = layer.__class__.from_config(layer.get_config())
        a2 = attr(l2, b["name"])
      except Exception as e:  # pylint: disable=broad-except
        run.count("build_failed")
        run.extra.setdefault("build_failed", []).append({"label": label, "error": "%s: %s" % (type(e).__name__, str(e)[:160])})
        continue
      if a1 == "<no attribute>":
        run.count("base_kwarg_without_attribute")
        continue
      out.append(dict(label=label, cls=cls_name, kw=b["name"], value=v, read=b["read"], live_same=(a1 == a2),
                      original=a1, rebuilt=a2))
  return out


def user_objects_stream(run, rng, tier, scratch):
  """the CALLER's `custom_objects` on the three routes.  Library-only models reloaded with a dict that is
  empty, names an unrelated class of the caller, lists some library classes, or is an OrderedDict; models
  that also hold objects of the caller (a layer class, an activation function used by a stock Activation
  layer, a regularizer class on a QDense) reloaded with a dict naming ONLY the caller's objects, the
  caller's objects plus some library classes, and through `custom_object_scope` without the argument.
  The same dict object goes to the three routes one after the other and must come back untouched.
  Clauses: no route raises, predictions bit-identical, same quantizers — library classes never have to
  be listed by the caller.  Tie: the names that resolve INSIDE the scope a route installs (observed from
  the caller's layer's `from_config`) vs the model's `routeTable`."""
  import collections
  import tensorflow as tf
  import qkeras as Q
  L = tf.keras.layers
  seen = {}

  class UserClip(L.Layer):
    """a layer class of the caller: not qkeras, not Keras"""

    def __init__(self, gain=0.75, **kwargs):
      super().__init__(**kwargs)
      self.gain = gain

    def call(self, inputs):
      return tf.clip_by_value(self.gain * inputs, -2.0, 2.0)

    def get_config(self):
      return dict(super().get_config(), gain=self.gain)

    @classmethod
    def from_config(cls, config):
      # which names resolve in the custom-object scope the route installed?
      try:
        from tf_keras.src.saving import object_registration as reg
        seen["names"] = sorted(set(reg._THREAD_LOCAL_CUSTOM_OBJECTS.__dict__) | set(reg._GLOBAL_CUSTOM_OBJECTS))  # pylint: disable=protected-access
      except Exception:  # pylint: disable=broad-except
        seen["names"] = None
      return cls(**config)

  class UserL2(tf.keras.regularizers.Regularizer):
    def __init__(self, k=0.01):
      self.k = k
    def __call__(self, w):
      return self.k * tf.reduce_sum(tf.square(w))
    def get_config(self):
      return {"k": self.k}

  class UserInit(tf.keras.initializers.Initializer):
    def __init__(self, v=0.25):
      self.v = v
    def __call__(self, shape, dtype=None, **kwargs):
      return tf.fill(shape, tf.cast(self.v, dtype or tf.float32))
    def get_config(self):
      return {"v": self.v}

  qb = lambda b=4: Q.quantized_bits(b, 0, 1, alpha=1.0)
  def build(with_user):
    tf.keras.backend.clear_session()
    inp = L.Input((6, 6, 2), name="uo_in")
    y = Q.QConv2D(3, (2, 2), kernel_quantizer=Q.quantized_bits(4, 0, 1), bias_quantizer="quantized_bits(4,0,1)", name="uo_conv")(inp)
    y = Q.QActivation(Q.quantized_relu(5, 2), name="uo_act")(y)
    y = Q.QGlobalAveragePooling2D(average_quantizer=qb(8), name="uo_pool")(y)
    if with_user:
      y = UserClip(gain=0.625, name="uo_user_layer")(y)
    y = Q.QDense(4, kernel_quantizer="quantized_bits(5,0,1,alpha='auto')", bias_quantizer=qb(5),
                 kernel_regularizer=UserL2(0.02) if with_user else None,
                 bias_initializer=UserInit(0.25) if with_user else "zeros", name="uo_dense")(y)
    y = Q.QActivation("quantized_bits(6,2,1)", name="uo_out")(y)
    m = tf.keras.Model(inp, y)
    randomize_weights(m, rng)
    return m

  user = {"UserClip": UserClip, "UserInit": UserInit, "UserL2": UserL2}
  lib = {"QDense": Q.QDense, "quantized_bits": Q.quantized_bits}
  forms = [
      (False, "custom_objects={}", dict(custom_objects={})),
      (False, "custom_objects={'UserClip': <a class of the caller that the model does not use>}", dict(custom_objects={"UserClip": UserClip})),
      (False, "custom_objects={'QDense': QDense, 'quantized_bits': quantized_bits} (some library classes)", dict(custom_objects=dict(lib))),
      (True, "custom_objects={the caller's layer class, initializer class and regularizer class only}", dict(custom_objects=dict(user))),
      (True, "no custom_objects argument, the caller's objects installed with custom_object_scope", dict(scope=dict(user))),
  ]
  if tier != "quick":
    forms.append((True, "custom_objects={the caller's objects + QDense + quantized_bits} as OrderedDict",
                  dict(custom_objects=collections.OrderedDict(list(user.items()) + list(lib.items())))))
    forms.append((False, "custom_objects=OrderedDict()", dict(custom_objects=collections.OrderedDict())))
    forms.append((False, "custom_objects={'my_fn': <function of the caller>}", dict(custom_objects={"my_fn": (lambda v: v)})))
  ties = []
  models = {}
  x = (rng.normal(0, 1, (4, 6, 6, 2)) * 2).astype(np.float32)
  for with_user, flabel, kw in forms:
    if with_user not in models:
      models[with_user] = build(with_user)
    model = models[with_user]
    mlabel = ("QConv2D -> QActivation -> QGlobalAveragePooling2D -> %sQDense%s -> QActivation" %
              (("UserClip (layer class of the caller) -> ", "(kernel_regularizer / bias_initializer: classes of the caller)")
               if with_user else ("", "")))
    label = "%s; reloaded with %s" % (mlabel, flabel)
    run.case(("user-objects", with_user, flabel), sample={"stream": "user-objects", "model": label} if "only" in flabel else None)
    run.count("user_objects_form")
    co = kw.get("custom_objects")
    before = None if co is None else list(co.items())
    seen_by_route = {}
    seen.pop("names", None)
    def on_route(r, seen_by_route=seen_by_route):
      seen_by_route[r] = seen.pop("names", None)
    res = run_routes(model, x, scratch, eager=True, on_route=on_route, **kw)
    for r in ROUTES:
      status, detail, _ = res[r]
      run.compared += 1
      run.count("user_objects_route_%s_%s" % (r, status))
      if status != "ok":
        key = {"layer": "model-with-caller-objects" if with_user else "library-only-model", "qclass": "custom_objects",
               "option": flabel.split(" (")[0][:80], "route": r, "failure": status}
        if status == "raises":
          key["exception"] = detail.get("exception")
        run.violate("route", key, dict(detail, model=label, route=r, status=status,
                                       replay="build the model described by `model`; qkeras.utils %s route with %s" % (r, flabel)),
                    mirrored=False)
      if with_user and co is not None:
        ties.append((label, r, sorted(co.keys()), seen_by_route[r]))
    if co is not None:
      run.compared += 1
      if list(co.items()) != before:
        run.disagree("user-dict-untouched", {"model": label}, sorted(map(str, co.keys())), sorted(str(k) for k, _ in before))
  return ties


SIGMOID_MODES = ("hard", "smooth", "real")


def sigmoid_mode_branches(tier, part=0):
  """layers whose inference evaluates the module-level `_sigmoid` of quantizers.py (switched by
  `set_internal_sigmoid`): quantized_sigmoid / quantized_tanh (use_real_* off), quantized_relu with
  use_sigmoid, quantized_ulaw — as QActivation (object and string), as layer activation, as
  recurrent activation / default activation of the recurrent layers, as state quantizer; plus
  controls that do not read the switch (use_real_* on, hard_sigmoid function)"""
  import tensorflow as tf
  import qkeras as Q
  qb = lambda: Q.quantized_bits(6, 0, 1, alpha=1.0)
  rkw = lambda: dict(kernel_quantizer=qb(), recurrent_quantizer=qb(), bias_quantizer=qb(),
                     state_quantizer=Q.quantized_bits(8, 1, 1, alpha=1.0))
  out = []
  def add(inp, lab, mk, reads=True, quick=None):
    # quick: a recurrent layer costs ~1 s per construction (x 4 per route set); the recurrent branches
    # are split over the two mode pairs of a quick run (quick = 0 / 1), the rest is thorough only
    if tier != "quick" or inp != 2 or quick == part % 2:
      out.append(dict(label=lab, inp=inp, make=mk, reads=reads))
  for lab, mk in [
      ("QActivation(quantized_sigmoid(6))", lambda: Q.quantized_sigmoid(6)),
      ("QActivation('quantized_sigmoid(5)')", lambda: "quantized_sigmoid(5)"),
      ("QActivation(quantized_sigmoid(4,symmetric=True))", lambda: Q.quantized_sigmoid(4, symmetric=True)),
      ("QActivation(quantized_tanh(6))", lambda: Q.quantized_tanh(6)),
      ("QActivation('quantized_tanh(5)')", lambda: "quantized_tanh(5)"),
      ("QActivation(quantized_tanh(4,symmetric=True))", lambda: Q.quantized_tanh(4, symmetric=True)),
      ("QActivation(quantized_relu(5,1,use_sigmoid=1))", lambda: Q.quantized_relu(5, 1, use_sigmoid=1)),
      ("QActivation(quantized_ulaw(5,1,1))", lambda: Q.quantized_ulaw(5, 1, 1)),
  ]:
    add(0, lab, lambda name, mk=mk: Q.QActivation(mk(), name=name))
  add(0, "QActivation(quantized_sigmoid(6,use_real_sigmoid=True)) [control]",
      lambda name: Q.QActivation(Q.quantized_sigmoid(6, use_real_sigmoid=True), name=name), reads=False)
  add(0, "QActivation(quantized_tanh(6,use_real_tanh=True)) [control]",
      lambda name: Q.QActivation(Q.quantized_tanh(6, use_real_tanh=True), name=name), reads=False)
  def preused(name):
    q = Q.quantized_sigmoid(6)
    q(tf.constant([[0.3, -1.2, 2.0]]))        # used stand-alone under the build-time mode first
    return Q.QActivation(q, name=name)
  add(0, "QActivation(<quantized_sigmoid(6) object called stand-alone before>)", preused)
  add(0, "QDense(3, activation='quantized_tanh(6)')",
      lambda name: Q.QDense(3, kernel_quantizer=qb(), bias_quantizer=qb(), activation="quantized_tanh(6)", name=name))
  add(0, "QDense(3, activation=quantized_sigmoid(6))",
      lambda name: Q.QDense(3, kernel_quantizer=qb(), bias_quantizer=qb(), activation=Q.quantized_sigmoid(6), name=name))
  add(1, "QConv2D(2, (2,2), activation=quantized_tanh(5))",
      lambda name: Q.QConv2D(2, (2, 2), kernel_quantizer=qb(), activation=Q.quantized_tanh(5), name=name))
  add(0, "QScaleShift(activation='quantized_sigmoid(6)')",
      lambda name: Q.QScaleShift(weight_quantizer=qb(), bias_quantizer=qb(), activation="quantized_sigmoid(6)", name=name))
  add(2, "QLSTM(2) with the default activations (quantized_tanh / hard_sigmoid)", lambda name: Q.QLSTM(2, name=name, **rkw()), quick=0)
  add(2, "QLSTM(2, activation=quantized_tanh(6), recurrent_activation=quantized_sigmoid(6))",
      lambda name: Q.QLSTM(2, activation=Q.quantized_tanh(6), recurrent_activation=Q.quantized_sigmoid(6), name=name, **rkw()),
      quick=1)
  add(2, "QGRU(2, recurrent_activation='quantized_sigmoid(6)')",
      lambda name: Q.QGRU(2, recurrent_activation="quantized_sigmoid(6)", name=name, **rkw()), quick=0)
  add(2, "QSimpleRNN(2) with the default activation (quantized_tanh)", lambda name: Q.QSimpleRNN(2, name=name, **rkw()), quick=1)
  add(2, "QSimpleRNN(2, activation='quantized_relu(4,1)', state_quantizer=quantized_tanh(6))",
      lambda name: Q.QSimpleRNN(2, activation="quantized_relu(4,1)", name=name,
                                **dict(rkw(), state_quantizer=Q.quantized_tanh(6))))
  add(2, "QBidirectional(QGRU(2)) with the default activations", lambda name: Q.QBidirectional(Q.QGRU(2, **rkw()), name=name))
  add(2, "RNN(QLSTMCell(2, recurrent_activation=quantized_sigmoid(6)))",
      lambda name: tf.keras.layers.RNN(Q.QLSTMCell(2, recurrent_activation=Q.quantized_sigmoid(6), **rkw()), name=name))
  add(0, "QDense(3, kernel_quantizer=stochastic_binary(alpha=1.0,use_real_sigmoid=False)) [control: inference path]",
      lambda name: Q.QDense(3, kernel_quantizer=Q.stochastic_binary(alpha=1.0, use_real_sigmoid=False), name=name), reads=False)
  if tier != "quick":
    add(2, "QGRU(2, reset_after=True) with the default activations", lambda name: Q.QGRU(2, reset_after=True, name=name, **rkw()))
    add(2, "RNN(QSimpleRNNCell(2))", lambda name: tf.keras.layers.RNN(Q.QSimpleRNNCell(2, **rkw()), name=name))
    add(1, "QAveragePooling2D(activation=quantized_sigmoid(6))",
        lambda name: Q.QAveragePooling2D((2, 2), average_quantizer=qb(), activation=Q.quantized_sigmoid(6), name=name))
  return [(5,), (5, 5, 2), (3, 4)], out


def sigmoid_mode_stream(run, rng, tier, scratch):
  """process-level state: the model is built (and evaluated once) under sigmoid mode A, the switch
  goes to B, the three routes run under B, then original and copies are evaluated under B and again
  under A.  Clauses (always comparing under ONE current mode): every copy predicts bit-identically to
  the original and reports the same quantizers; the original's output under A is the same before and
  after the excursion to B.  All predictions are eager (a traced predict function keeps the graph of
  the mode it was traced under — Keras' cache, not the library's state)."""
  import tensorflow as tf
  import qkeras as Q
  from qkeras.utils import clone_model, quantized_model_from_json, load_qmodel
  L = tf.keras.layers
  cyc = [("hard", "smooth"), ("smooth", "real"), ("real", "hard")]
  pairs = [(a, b) for a in SIGMOID_MODES for b in SIGMOID_MODES if a != b] if tier != "quick" else \
      [cyc[run.seed % 3], cyc[(run.seed + 1) % 3]]
  shapes, _ = sigmoid_mode_branches(tier)
  xs = [(rng.normal(0, 1, (4,) + sh) * 2).astype(np.float32) for sh in shapes]
  xs[0][0] = [-3.0, -0.6, 0.2, 1.4, 5.0]
  try:
    for part, (mode_a, mode_b) in enumerate(pairs):
      _, branches = sigmoid_mode_branches(tier, part)
      Q.set_internal_sigmoid(mode_a)
      tf.keras.backend.clear_session()
      inps = [L.Input(sh, name="sg_in%d" % k) for k, sh in enumerate(shapes)]
      outs, slices, pos, bad = [], [], 0, []
      for i, b in enumerate(branches):
        try:
          o = L.Flatten(name="sg%02d_flat" % i)(b["make"]("sg%02d" % i)(inps[b["inp"]]))
        except Exception as e:  # pylint: disable=broad-except
          bad.append({"label": b["label"], "error": "%s: %s" % (type(e).__name__, str(e)[:160].replace("\n", " "))})
          continue
        w = int(o.shape[-1])
        outs.append(o)
        slices.append((b, (pos, pos + w)))
        pos += w
      if bad:
        run.count("build_failed", len(bad))
        run.extra.setdefault("build_failed", []).extend(bad)
      model = tf.keras.Model(inps, L.Concatenate(name="sg_cat")(outs))
      randomize_weights(model, rng)
      model.run_eagerly = True
      def pred(m):
        return np.asarray(m.predict(xs, verbose=0))
      y_a0 = pred(model)
      label = "built under set_internal_sigmoid(%r), round trip and evaluation under %r: %d branches" % (
          mode_a, mode_b, len(slices))
      for b, _ in slices:
        run.case(("sigmoid-mode", mode_a, mode_b, b["label"]),
                 sample={"stream": "sigmoid-mode", "built_under": mode_a, "switched_to": mode_b, "model": b["label"]}
                 if b["label"].startswith("QLSTM(2) with") else None)
      run.count("sigmoid_mode_%s_to_%s" % (mode_a, mode_b))
      q0 = quantizer_strings(model)
      Q.set_internal_sigmoid(mode_b)
      copies = {}
      for r in ROUTES:
        key = {"layer": "packed:sigmoid-mode", "qclass": "process-state",
               "option": "set_internal_sigmoid:%s->%s" % (mode_a, mode_b), "route": r}
        try:
          if r == "json":
            m2 = quantized_model_from_json(model.to_json())
            m2.set_weights(model.get_weights())
          elif r == "clone":
            m2 = clone_model(model)
          else:
            path = os.path.join(scratch, "sg.h5")
            model.save(path)
            m2 = load_qmodel(path, compile=False)
            os.remove(path)
          m2.run_eagerly = True
          copies[r] = m2
        except Exception as e:  # pylint: disable=broad-except
          run.count("route_%s_raises" % r)
          run.violate("route", dict(key, failure="raises", exception=type(e).__name__),
                      {"model": label, "route": r, "exception": type(e).__name__, "message": str(e)[:300].replace("\n", " ")},
                      mirrored=False)
      def judge(now, y0, when):
        for r, m2 in copies.items():
          key = {"layer": "packed:sigmoid-mode", "qclass": "process-state",
                 "option": "set_internal_sigmoid:%s->%s" % (mode_a, mode_b), "route": r}
          y = pred(m2)
          run.compared += 1
          differ = [(b, sl) for b, sl in slices if y[..., sl[0]:sl[1]].tobytes() != y0[..., sl[0]:sl[1]].tobytes()]
          if differ:
            run.count("sigmoid_mode_predict_differs")
            b, (lo, hi) = differ[0]
            row = int(np.argmax(np.any(y[:, lo:hi] != y0[:, lo:hi], axis=1)))
            run.violate("route", dict(key, failure="predict-differs", evaluated_under=now),
                        {"model": label, "route": r, "evaluated": when,
                         "branches_that_differ": [d[0]["label"] for d in differ],
                         "first_failing_branch": b["label"], "input_row": xs[b["inp"]][row].ravel().tolist(),
                         "original_output": y0[row, lo:hi].tolist(), "copy_output": y[row, lo:hi].tolist(),
                         "max_abs_diff": float(np.max(np.abs(y.astype(np.float64) - y0.astype(np.float64)))),
                         "replay": "set_internal_sigmoid(%r); build the branch model; set_internal_sigmoid(%r); qkeras.utils %s "
                                   "route; set_internal_sigmoid(%r); compare model(x) of original and copy" % (mode_a, mode_b, r, now)},
                        mirrored=False)
          else:
            run.count("sigmoid_mode_predict_same")
          q = quantizer_strings(m2)
          if q != q0:
            run.violate("route", dict(key, failure="quantizers-differ", evaluated_under=now),
                        {"model": label, "route": r, "before": q0, "after": q}, mirrored=False)
      y_b = pred(model)
      judge(mode_b, y_b, "under %r, right after the routes" % mode_b)
      Q.set_internal_sigmoid(mode_a)
      y_a1 = pred(model)
      judge(mode_a, y_a1, "back under %r" % mode_a)
      # the original itself: its output is a function of the CURRENT mode only
      run.compared += 1
      if y_a1.tobytes() != y_a0.tobytes():
        differ = [b["label"] for b, sl in slices if y_a1[..., sl[0]:sl[1]].tobytes() != y_a0[..., sl[0]:sl[1]].tobytes()]
        run.violate("state", {"layer": "packed:sigmoid-mode", "qclass": "process-state",
                              "option": "set_internal_sigmoid:%s->%s->%s" % (mode_a, mode_b, mode_a),
                              "failure": "original-changed-by-excursion"},
                    {"model": label, "branches_that_differ": differ}, mirrored=False)
      # evidence of non-triviality: which branches actually depend on the switch
      dep = [b["label"] for b, sl in slices if y_b[..., sl[0]:sl[1]].tobytes() != y_a0[..., sl[0]:sl[1]].tobytes()]
      run.count("sigmoid_mode_branches_depending_on_switch", len(dep))
      run.extra.setdefault("sigmoid_mode_dependent_branches", {})["%s->%s" % (mode_a, mode_b)] = dep
      stale = [b["label"] for b, sl in slices if b["reads"] and b["label"] not in dep]
      if stale:
        run.extra.setdefault("sigmoid_mode_branches_expected_to_depend_but_equal", {})["%s->%s" % (mode_a, mode_b)] = stale
  finally:
    Q.set_internal_sigmoid("hard")


def native_value_cases():
  """a plain Python value where the library calls a numpy method in get_config: the constructor
  accepts it (`np.array(post_training_scale)`), so every route must serialise and rebuild it.
  (quantized_bits.get_config used to write `self.post_training_scale.tolist()` and every route raised
  AttributeError — known/C13.json, fixed: C13-qbits-post_training_scale-not-numpy; it now converts
  with np.asarray first.  No special handling here: if it raises again it is a VIOLATION.)
  One model each."""
  import qkeras as Q
  return [
      ("post_training_scale=list", "QDense(3, kernel_quantizer=quantized_bits(4,0,1,alpha='auto_po2',post_training_scale=[[0.5,0.25,1.0]]))",
       lambda: Q.QDense(3, kernel_quantizer=Q.quantized_bits(4, 0, 1, alpha="auto_po2", post_training_scale=[[0.5, 0.25, 1.0]]))),
      ("post_training_scale=float", "QDense(3, kernel_quantizer=quantized_bits(4,0,1,alpha='auto_po2',post_training_scale=0.5))",
       lambda: Q.QDense(3, kernel_quantizer=Q.quantized_bits(4, 0, 1, alpha="auto_po2", post_training_scale=0.5))),
  ]


def ema_case(run, rng, scratch):
  """QAdaptiveActivation after a few training steps: the EMA min/max are model weights and are carried
  over by all three routes; the integer bits of the quantizer are derived state.  `call` used to
  quantize with the integer bits assigned by the PREVIOUS call (the build-time value right after a
  rebuild), so the first prediction of a rebuilt model differed (repaired in the fix round: `call`
  now refreshes the integer bits from the moving averages first).  Both the FIRST and the SECOND
  prediction of the rebuilt model must be bit-identical to the original's; the second one is where a
  dropped QAdaptiveActivation option shows once the EMA state is non-trivial."""
  import tensorflow as tf
  import qkeras as Q
  from qkeras.utils import clone_model, quantized_model_from_json, load_qmodel
  variants = [
      ("quantized_bits", dict(ema_decay=0.5, quantization_delay=1)),
      ("quantized_bits", dict(ema_decay=0.5, quantization_delay=1, po2_rounding=True, symmetric=False)),
      ("quantized_relu", dict(ema_decay=0.25, quantization_delay=1, per_channel=True, relu_neg_slope=0.25)),
  ]
  for act, kw in variants:
    tf.keras.backend.clear_session()
    inp = tf.keras.layers.Input((5,))
    layer = Q.QAdaptiveActivation(act, 4, **kw)
    model = tf.keras.Model(inp, layer(inp))
    x = (rng.normal(0, 1, (3, 5)) * 3).astype(np.float32)
    for _ in range(6):
      model(x, training=True)
    y = np.asarray(model.predict(x, verbose=0))
    label = "QAdaptiveActivation(%r, 4, %s) after 6 training calls" % (
        act, ", ".join("%s=%r" % kv for kv in sorted(kw.items())))
    run.case(("ema", label), sample={"stream": "ema", "model": label,
                                     "integer_bits": str(canon(layer.quantizer.integer.numpy()))}
             if "po2_rounding" in kw else None)
    run.count("kind_ema_QAdaptiveActivation")
    for r in ROUTES:
      key = {"layer": "QAdaptiveActivation", "qclass": "QAdaptiveActivation", "option": "trained-ema-state",
             "route": r}
      try:
        if r == "json":
          m2 = quantized_model_from_json(model.to_json())
          m2.set_weights(model.get_weights())
        elif r == "clone":
          m2 = clone_model(model)
        else:
          path = os.path.join(scratch, "ema.h5")
          model.save(path)
          m2 = load_qmodel(path, compile=False)
          os.remove(path)
        z1 = np.asarray(m2.predict(x, verbose=0))
        z2 = np.asarray(m2.predict(x, verbose=0))
        same_state = all(np.array_equal(a, b) for a, b in zip(model.get_weights()[1:], m2.get_weights()[1:]))
        detail = {"model": label, "route": r, "first_predict_equal": bool(z1.tobytes() == y.tobytes()),
                  "second_predict_equal": bool(z2.tobytes() == y.tobytes()), "ema_state_equal": bool(same_state),
                  "integer_bits_original": canon(layer.quantizer.integer.numpy()),
                  "integer_bits_rebuilt": canon(m2.layers[1].quantizer.integer.numpy())}
        if z2.tobytes() != y.tobytes() or not same_state:
          run.count("ema_second_predict_differs")
          run.violate("route", dict(key, failure="second-predict-differs"), detail, mirrored=False)
        elif z1.tobytes() != y.tobytes():
          run.count("ema_first_predict_differs")
          run.violate("route", dict(key, failure="predict-differs"), detail, mirrored=False)
        else:
          run.count("ema_first_predict_same")
      except Exception as e:  # pylint: disable=broad-except
        run.violate("route", dict(key, failure="raises"),
                    {"model": label, "exception": type(e).__name__, "message": str(e)[:300]}, mirrored=False)


# ----------------------------------------------------------------------------- the check

def static_tie(run, model_tables):
  live = T.live_tables()
  n = 0
  def cmp(stream, key, a, b):
    nonlocal n
    n += 1
    run.compared += 1
    if a != b:
      run.disagree(stream, key, a, b)
  lq = {q["name"]: q for q in live["quantizers"]}
  mq = {q["name"]: q for q in model_tables["quantizers"]}
  cmp("static-quantizer-classes", "names", sorted(lq), sorted(mq))
  for name in sorted(set(lq) & set(mq)):
    a, b = lq[name], mq[name]
    cmp("static-quantizer-signature", name, [[k, dec_pv(v)] for k, v in a["params"]],
        [[k, dec_pv(v)] for k, v in b["params"]])
    cmp("static-quantizer-get_config-keys", name, a["emits"], b["emits"])
    cmp("static-quantizer-extra", name, [[k, dec_pv(v)] for k, v in a["extra"]], [[k, dec_pv(v)] for k, v in b["extra"]])
    cmp("static-quantizer-trainable", name, a["trainable"], b["trainable"])
    cmp("static-quantizer-tolist", name, a["tolist"], b.get("tolist"))
  ll = {l["name"]: l for l in live["layers"]}
  ml = {l["name"]: l for l in model_tables["layers"]}
  cmp("static-layer-classes", "names", sorted(ll), sorted(ml))
  for name in sorted(set(ll) & set(ml)):
    a, b = ll[name], ml[name]
    cmp("static-layer-signature", name, [(p["name"], p["required"], p["default"]) for p in a["params"]],
        [(p["name"], p["required"], p["default"]) for p in b["params"]])
    cmp("static-layer-get_config-keys", name, [p["name"] for p in a["params"] if p["emitted"]],
        [p["name"] for p in b["params"] if p["emitted"]])
    cmp("static-layer-kinds", name, [(p["name"], p["kind"], p["read"]) for p in a["params"]],
        [(p["name"], p["kind"], p["read"]) for p in b["params"]])
    cmp("static-layer-flags", name, (a["none_is_linear"], a["hook"]), (b["none_is_linear"], b["hook"]))
    cmp("static-layer-reported-slots", name, a["reports"], b.get("reports"))
    cmp("static-layer-base-kwargs", name, [(z["name"], dec_pv(z["default"]), z["emitted"], z["read"]) for z in a["base_kwargs"]],
        [(z["name"], dec_pv(z["default"]), z["emitted"], z["read"]) for z in b.get("base_kwargs", [])])
  cmp("static-custom-object-table", "keys", live["custom_objects"], model_tables["custom_objects"])
  cmp("static-keras-activation-names", "names", live["keras_activation_names"], model_tables.get("keras_activation_names"))
  # clause oracle on the table itself: inside the custom-object scope custom names win, so a key
  # that Keras resolves on its own replaces Keras' function in every stock layer using the name
  for k in live["custom_objects"]:
    if k in live["keras_activation_names"]:
      run.violate("table", {"layer": "custom-object-table", "qclass": "keras-name", "option": k,
                            "failure": "shadows-keras-name"},
                  {"key": k, "what": "the custom-object table registers %r, which is also a built-in Keras activation "
                                     "name: Activation(%r) in a quantized model is rebuilt with the table's function" % (k, k),
                   "replay": "qkeras.utils._add_supported_quantized_objects(d); %r in d" % k}, mirrored=False)
  # Clip / QInitializer signatures (special-cased structures of the model)
  from qkeras import qlayers
  cmp("static-clip-signature", "Clip", [(k, d) for k, _, d in T.sig_params(qlayers.Clip)],
      [("min_value", 0.0), ("max_value", 1.0), ("constraint", None), ("quantizer", None)])
  cmp("static-qinitializer-signature", "QInitializer", [k for k, _, _ in T.sig_params(qlayers.QInitializer)],
      ["initializer", "use_scale", "quantizer"])
  run.extra["static_tables_compared"] = {
      "quantizer_classes": len(lq), "layer_classes": len(ll), "custom_object_keys": len(live["custom_objects"]),
      "comparisons": n}
  return live


def qkeras_layers_of(model):
  """(path label, layer) of every library layer inside a model, looking into wrappers"""
  out = []
  for l in model.layers:
    cls = l.__class__.__name__
    if cls == "QBidirectional":
      out.append((l.name + "/forward", l.forward_layer))
      out.append((l.name + "/backward", l.backward_layer))
    elif cls == "RNN" and l.cell.__class__.__name__.startswith("Q"):
      out.append((l.name + "/cell", l.cell))
    elif cls.startswith("Q") and cls != "QBidirectional":
      out.append((l.name, l))
  return out


def run(run: core.Run, tier: str):
  core.assert_repo_import()
  import tensorflow as tf
  L = tf.keras.layers
  rng = np.random.default_rng(run.seed)
  run.extra["rule"] = (
      "single-layer and small DAG models over every runnable layer class of the custom-object table "
      "(QBidirectional and RNN(Q*Cell) wrappers included) x quantizers drawn from the serialisable option "
      "lattice (every option but var_name/use_variables) x layer options x random float32 weights/inputs; plus "
      "one fixed model per defect repaired in the fix round (regression stream), one model with a QActivation "
      "branch per quantizer OBJECT carrying non-default options, layers whose non-None-default quantizer / "
      "activation arguments are explicitly None, trained-EMA models, one quantizer OBJECT shared between several "
      "quantizer slots of one layer / of two layers (every layer class with >= 2 slots), and models built under one "
      "set_internal_sigmoid mode and round-tripped / evaluated under another, every layer class with each base-class "
      "keyword argument it accepts through **kwargs at a non-default value (keepdims, groups, data_format, time_major), "
      "and models reloaded with a custom_objects argument of the caller (empty, unrelated class, some library classes, "
      "the caller's own layer / regularizer / initializer classes, custom_object_scope). "
      "Per model: 3 routes on the real code (clause oracle), and per library layer: get_config vs "
      "layerGetConfig and reloaded attributes vs layerFromConfig. non-trivial = distinct (layer kind, "
      "quantizer classes, options) combination")
  run.extra["excluded"] = EXCLUDED
  run.assumptions += [
      "Keras' serialisation of Keras-native objects, the functional-model container, HDF5 I/O and safe_eval "
      "string parsing are runtime (exercised by the three routes, not modelled)",
      "layer semantics is abstract in the theorems: any function of class, forwarded kwargs, read arguments, "
      "weights and inputs; that nothing else is read is validated by the bit-identical route comparison",
      "QAdaptiveActivation's EMA state is not reachable through get_weights/set_weights; models are compared "
      "in their freshly built state",
  ]

  # ---------------- static tie
  model_tables = core.run_driver("C13", [{"op": "tables"}])[0]
  live = static_tie(run, model_tables)
  specs = {l["name"]: l for l in model_tables["layers"]}
  qparams = {q["name"]: [p[0] for p in q["params"]] for q in model_tables["quantizers"]}
  QTOLIST.clear()
  QTOLIST.update({q["name"]: list(q.get("tolist", [])) for q in model_tables["quantizers"]})
  read_of = {n: [p["name"] for p in s["params"] if p["read"]] for n, s in specs.items()}
  del live

  scratch = tempfile.mkdtemp(prefix="qkv-c13-")
  n_clean = {"quick": 2, "thorough": 8}.get(tier, 2)
  # quick: ONE model per layer kind — the first draw or the second (bias-less) one, alternating with the
  # kind and the seed (22 instead of 44 models: the run time went to the shared-roles and sigmoid-mode streams)
  # (round U13: every third kind is left out per seed, rotating — each kind occurs for 2 of 3 consecutive
  # seeds — and 3 DAG models instead of 4: the run time went to the base-kwargs and user-objects streams)
  # (round W13: every second kind per seed — each kind occurs at every other seed, its first / second (bias-less)
  # draw alternating from one occurrence to the next — and 2 DAG models instead of 3: the run time went to the
  # absent-weight stream, which builds every class with a bias switch bias-less on every seed)
  clean_reps = lambda ki: range(n_clean) if tier != "quick" else ([] if (ki + run.seed) % 2 == 1 else [((ki + run.seed) // 2) % 2])
  n_dag = {"quick": 2, "thorough": 16}.get(tier, 2)
  pending = []   # (meta, driver line) — the driver is called once at the end

  def real_raises(what, key_base, label, path, cls, e):
    """the real code raised while the harness read / serialised a layer: a clause violation for
    this model (never an uncaught harness exception)"""
    run.count("real_code_raises_" + what)
    run.violate("serialise", dict(key_base, layer_class=cls, failure=what + "-raises"),
                {"model": label, "layer": path, "class": cls, "exception": type(e).__name__,
                 "message": str(e)[:300].replace("\n", " "),
                 "replay": "build the model described by `model`; layer.%s()" % what}, mirrored=False)

  import time as _time
  stream_wall = {}
  def add_model(stream, label, key_base, model, x, defect=None, branches=None, eager=False):
    t0 = _time.time()
    try:
      return add_model_(stream, label, key_base, model, x, defect, branches, eager)
    finally:
      stream_wall[stream] = round(stream_wall.get(stream, 0.0) + _time.time() - t0, 1)

  def add_model_(stream, label, key_base, model, x, defect=None, branches=None, eager=False):
    res = run_routes(model, x, scratch, branches, eager)
    layers = []
    for path, layer in qkeras_layers_of(model):
      cls = layer.__class__.__name__
      if cls not in specs:
        continue
      try:
        lj, _ = layer_json(layer, specs[cls], qparams)
        cfg_exc = lj.pop("cfg_exc")
        held_kw = lj.pop("held_kw")
        real_cfg = None if cfg_exc is not None else json_canon(layer.get_config())
      except Exception as e:  # pylint: disable=broad-except
        real_raises("get_config", key_base, label, path, cls, e)
        continue
      reloaded = {}
      kw_changed = {}
      for r in ROUTES:
        m2 = res[r][2]
        if m2 is None:
          reloaded[r] = None
          continue
        try:
          l2 = dict(qkeras_layers_of(m2)).get(path)
          if l2 is None:
            reloaded[r] = "missing"
            continue
          lj2, _ = layer_json(l2, specs[cls], qparams)
          held_kw2 = lj2.pop("held_kw")
          if lj2.pop("cfg_exc") is not None:
            raise lj2_exc(l2)
          kw_changed[r] = sorted(k for k in held_kw if held_kw2.get(k) != held_kw[k])
        except Exception as e:  # pylint: disable=broad-except
          real_raises("get_config", dict(key_base, route=r), label + " (rebuilt)", path, cls, e)
          reloaded[r] = "unreadable"
          continue
        a1, a2 = dict(map(tuple, [(k, json.dumps(v, sort_keys=True)) for k, v in lj["args"]])), \
                 dict(map(tuple, [(k, json.dumps(v, sort_keys=True)) for k, v in lj2["args"]]))
        reloaded[r] = sorted(k for k in read_of[cls] if a1[k] != a2[k])
      try:
        reported_live = ([quant_json(z, qparams) for z in layer.get_quantizers()]
                         if hasattr(layer, "get_quantizers") else None)
      except Exception as e:  # pylint: disable=broad-except
        real_raises("get_quantizers", key_base, label, path, cls, e)
        reported_live = None
      layers.append(dict(path=path, cls=cls, lj=lj, real_cfg=real_cfg, reloaded=reloaded, reported_live=reported_live,
                         kw_changed=kw_changed,
                         cfg_exc=None if cfg_exc is None else
                         {"exception": type(cfg_exc).__name__, "message": str(cfg_exc)[:300].replace("\n", " ")}))
      pending.append((len(models), len(layers) - 1, {"op": "layer", "layer": lj}))
    # stock Keras layers: the function behind an activation NAME must be the same object after every
    # route (the model: Keras-native nodes come back unchanged; the custom-object scope must not
    # shadow a Keras name)
    def fn_id(f):
      return "%s.%s" % (getattr(f, "__module__", "?"), getattr(f, "__name__", f.__class__.__name__))
    for l in model.layers:
      if not l.__class__.__module__.startswith(("tf_keras", "keras")):
        continue
      fns = {a: fn_id(getattr(l, a)) for a in ("activation", "recurrent_activation") if callable(getattr(l, a, None))}
      if not fns:
        continue
      for r in ROUTES:
        m2 = res[r][2]
        if m2 is None:
          continue
        run.compared += 1
        try:
          l2 = m2.get_layer(l.name)
          fns2 = {a: fn_id(getattr(l2, a)) for a in fns}
        except Exception as e:  # pylint: disable=broad-except
          fns2 = {"error": "%s: %s" % (type(e).__name__, str(e)[:120])}
        if fns2 != fns:
          run.count("keras_layer_function_replaced")
          run.disagree("keras-layer-function", {"model": label if len(label) < 300 else label[:300] + "...",
                                                "layer": l.name, "class": l.__class__.__name__, "route": r},
                       fns2, fns)
    wrappers = []
    for l in model.layers:
      if l.__class__.__name__ == "QBidirectional":
        # Keras stores the wrapped layer itself (`.layer`); forward_layer is a copy that Keras
        # re-created from its config, backward_layer is renamed after its config was taken
        try:
          f, _ = layer_json(l.layer, specs[l.layer.__class__.__name__], qparams)
          f.pop("cfg_exc")
          f.pop("held_kw")
          cfg = l.get_config()
          b = None
          if "backward_layer" in cfg:
            b, _ = layer_json(l.backward_layer, specs[l.backward_layer.__class__.__name__], qparams)
            b.pop("cfg_exc")
            b.pop("held_kw")
            stored = cfg["backward_layer"]["config"]["name"]
            b["kwargs"] = [[k, (stored if k == "name" else v)] for k, v in b["kwargs"]]
          kw = [[k, enc_pv(json_canon(v))] for k, v in cfg.items() if k not in ("layer", "backward_layer")]
          wrappers.append(dict(name=l.name, real_cfg=json_canon(cfg)))
        except Exception as e:  # pylint: disable=broad-except
          real_raises("get_config", key_base, label, l.name, "QBidirectional", e)
          continue
        pending.append((len(models), -len(wrappers), {"op": "bidir", "kw": kw, "fwd": f, "bwd": b}))
    models.append(dict(stream=stream, label=label, key=key_base, res={r: res[r][:2] for r in ROUTES},
                       layers=layers, wrappers=wrappers, defect=defect, children=[]))
    for r in ROUTES:
      run.count("route_%s_%s" % (r, res[r][0]))
    return len(models) - 1

  models = []
  try:
    # ---------------- stream 1: serialisable options, every layer kind
    for ki, kind in enumerate(LAYER_KINDS):
      for rep in clean_reps(ki):
        tf.keras.backend.clear_session()
        wn, wq = serialisable_quantizers(rng, "weight")
        an, aq = serialisable_quantizers(rng, "act")
        if kind in ("QAveragePooling2D", "QGlobalAveragePooling2D"):
          wn, wq = "quantized_bits", (lambda: __import__("qkeras").quantized_bits(int(rng.integers(4, 8)), 0, 1, alpha=1.0))
        if kind == "QActivation" and rep == 0:
          an, aq = "str:quantized_relu", (lambda: "quantized_relu(4,1)")
        if rep == 1 and kind not in ("QActivation",) and rng.integers(0, 3) == 0:
          an, aq = "none", None
        if kind == "QBatchNormalization" and rep == 0:
          wn, wq = "defaults", None
        opts = random_opts(kind, rng, rep)
        if kind.startswith("Q") and kind.endswith("RNN") or kind in ("QLSTM", "QGRU", "QBidirectional") or kind.startswith("RNN("):
          # state quantizer must be an object quantizer
          if an.startswith("str:"):
            an, aq = "quantized_bits", (lambda: __import__("qkeras").quantized_bits(4, 0, 1, alpha=1.0))
        label = "%s[w=%s,a=%s,%s]" % (kind, wn, an, ",".join("%s=%s" % kv for kv in sorted(opts.items())))
        try:
          shp, layer = build_layer(kind, rng, wq, aq, opts)
          inp = L.Input(shp)
          model = tf.keras.Model(inp, layer(inp))
          randomize_weights(model, rng)
          x = rng.normal(0, 1, (3,) + shp).astype(np.float32)
          model.predict(x, verbose=0)
        except Exception as e:  # pylint: disable=broad-except
          run.count("build_failed")
          run.extra.setdefault("build_failed", []).append({"label": label, "error": "%s: %s" % (type(e).__name__, str(e)[:160])})
          continue
        run.case(("clean", kind, wn, an, json.dumps(opts, sort_keys=True)),
                 sample={"stream": "clean", "model": label} if len(run.samples) < 4 else None)
        run.count("kind_" + kind)
        run.count("wq_" + wn)
        run.count("aq_" + an)
        add_model("clean", label, {"layer": kind, "qclass": wn + "/" + an, "option": "serialisable"}, model, x)

    # ---------------- stream 2: small DAGs (branches, merge, several library layers)
    import qkeras as Q
    for rep in range(n_dag):
      tf.keras.backend.clear_session()
      picks = []
      def pick(role):
        n, mk = serialisable_quantizers(rng, role)
        while n.startswith("str:") and role == "weight":
          n, mk = serialisable_quantizers(rng, role)
        picks.append(n)
        return mk()
      try:
        inp = L.Input((6, 6, 2))
        a = Q.QConv2D(2, (2, 2), kernel_quantizer=pick("weight"), bias_quantizer=pick("weight"), name="c1")(inp)
        a = Q.QActivation(pick("act"), name="a1")(a)
        b = Q.QDepthwiseConv2D((2, 2), depthwise_quantizer=pick("weight"), name="dw")(inp)
        b = Q.QBatchNormalization(name="bn")(b)
        m = L.Add(name="add")([a, b]) if rep % 2 == 0 else L.Concatenate(name="cat")([a, b])
        m = Q.QAveragePooling2D((2, 2), average_quantizer=Q.quantized_bits(6, 0, 1, alpha=1.0), name="pool")(m)
        m = L.Flatten(name="flat")(m)
        out = Q.QDense(3, kernel_quantizer=pick("weight"), bias_quantizer=pick("weight"),
                       activation=pick("act"), name="d1")(m)
        model = tf.keras.Model(inp, out)
        randomize_weights(model, rng)
        x = rng.normal(0, 1, (3, 6, 6, 2)).astype(np.float32)
        model.predict(x, verbose=0)
      except Exception as e:  # pylint: disable=broad-except
        run.count("build_failed")
        run.extra.setdefault("build_failed", []).append({"label": "dag", "error": "%s: %s" % (type(e).__name__, str(e)[:160])})
        continue
      label = "dag[%s]" % ",".join(picks)
      run.case(("dag", label), sample={"stream": "dag", "model": label} if rep == 0 else None)
      run.count("kind_dag")
      add_model("dag", label, {"layer": "dag", "qclass": "/".join(picks), "option": "serialisable"}, model, x)

    # ---------------- stream 3: regression models of the repaired defects
    for c in regression_cases():
      tf.keras.backend.clear_session()
      try:
        shp, layer = build_layer(c["kind"], rng, c["wq"], c["aq"], c["opts"])
        inp = L.Input(shp)
        model = tf.keras.Model(inp, layer(inp))
        randomize_weights(model, rng)
        x = (rng.normal(0, 1, (3,) + shp) * 2).astype(np.float32)
        model.run_eagerly = True     # fixed models: eager predict, original and rebuilt alike (run time)
        model.predict(x, verbose=0)
      except Exception as e:  # pylint: disable=broad-except
        run.count("build_failed")
        run.extra.setdefault("build_failed", []).append({"label": c["label"], "error": "%s: %s" % (type(e).__name__, str(e)[:160])})
        continue
      run.case(("regression", c["label"]), sample={"stream": "regression", "model": c["label"]} if c["option"] == "scale_axis" else None)
      run.count("kind_regression_" + c["kind"])
      add_model("regression", c["label"], {"layer": c["kind"], "qclass": c["qclass"], "option": c["option"]}, model, x,
                defect=c["label"], eager=True)
    # ---------------- stream 4: QActivation built from quantizer OBJECTS with non-default options,
    #                  one branch per object, outputs concatenated (one model, 3 routes)
    tf.keras.backend.clear_session()
    inp = L.Input((5,))
    outs, branches, skipped, pos = [], [], [], 0
    xz = (rng.normal(0, 1, (4, 5)) * 2).astype(np.float32)
    xz[0] = [-3.0, -0.6, 0.2, 1.4, 5.0]
    for i, (lab, mk) in enumerate(activation_objects()):
      try:
        o = Q.QActivation(mk(), name="z%02d" % i)(inp)
        tf.keras.Model(inp, o).predict(xz, verbose=0)
      except Exception as e:  # pylint: disable=broad-except
        skipped.append({"object": lab, "error": "%s: %s" % (type(e).__name__, str(e)[:120])})
        continue
      outs.append(o)
      branches.append((lab, (pos, pos + 5)))
      pos += 5
    if skipped:
      run.count("build_failed")
      run.extra.setdefault("build_failed", []).extend(skipped)
    if len(outs) > 1:
      model = tf.keras.Model(inp, L.Concatenate(name="zoo")(outs))
      label = "QActivation(<object>) x %d branches: %s" % (len(outs), "; ".join(b[0] for b in branches))
      run.case(("qactivation-objects", label), sample={"stream": "qactivation-objects", "branches": [b[0] for b in branches]})
      run.count("kind_qactivation_objects")
      add_model("qactivation-objects", label, {"layer": "QActivation", "qclass": "objects", "option": "non-default"},
                model, xz, branches=branches, eager=True)

    # ---------------- stream 5: arguments explicitly None whose constructor default is not None
    for cls_name, label, kw in explicit_none_cases(specs, tier):
      tf.keras.backend.clear_session()
      try:
        kw = {k: (Q.quantized_bits(6, 2, 1, alpha=1.0) if v == "OBJ" else v) for k, v in kw.items()}
        args = dict(T.SAMPLE_ARGS[cls_name])
        args.update(kw)
        layer = getattr(Q, cls_name)(**args)
        if cls_name.endswith("Cell"):
          layer = L.RNN(layer)
        shp = (5,) if cls_name == "QBatchNormalization" else (3, 4)
        inp = L.Input(shp)
        model = tf.keras.Model(inp, layer(inp))
        randomize_weights(model, rng)
        x = (rng.normal(0, 1, (3,) + shp) * 2).astype(np.float32)
        model.run_eagerly = True
        model.predict(x, verbose=0)
      except Exception as e:  # pylint: disable=broad-except
        run.count("build_failed")
        run.extra.setdefault("build_failed", []).append({"label": label, "error": "%s: %s" % (type(e).__name__, str(e)[:160])})
        continue
      run.case(("explicit-none", label), sample={"stream": "explicit-none", "model": label} if cls_name == "QBatchNormalization" and len(kw) == 4 else None)
      run.count("kind_explicit_none_" + cls_name)
      add_model("explicit-none", label, {"layer": cls_name, "qclass": "None", "option": "explicit-none"}, model, x, eager=True)

    # ---------------- stream 6: constructor arguments that take an array / tuple / list, at degenerate
    #                  shapes.  Branches of a few packed models; a failing route is re-run per branch.
    mask_ties = []
    shared_ties = []
    def packed(group, in_shapes, branches):
      def assemble(cands):
        tf.keras.backend.clear_session()
        inps = [L.Input(sh[0], name="%s_in%d" % (group, k)) for k, sh in enumerate(in_shapes)]
        outs, kept, slices, pos, bad = [], [], [], 0, []
        for i, b in cands:
          name = "%s%02d" % (group, i)
          try:
            layer = b["make"](name)
            o = L.Flatten(name=name + "_flat")(layer(inps[b["inp"]]))
          except Exception as e:  # pylint: disable=broad-except
            bad.append({"label": b["label"], "error": "%s: %s" % (type(e).__name__, str(e)[:160].replace("\n", " "))})
            continue
          width = int(o.shape[-1])
          outs.append(o)
          kept.append((i, b, name, layer))
          slices.append((b["label"], (pos, pos + width)))
          pos += width
        used = sorted({b["inp"] for _, b, _, _ in kept})
        model = tf.keras.Model([inps[k] for k in used], L.Concatenate(name=group + "_cat")(outs) if len(outs) > 1 else outs[0])
        return model, used, kept, slices, bad
      cands = list(enumerate(branches))
      xs = [rng.normal(0, 1, (3,) + sh[0]).astype(np.float32) for sh in in_shapes]
      model, used, kept, slices, bad = assemble(cands)
      def scale_weights(kept):
        for _, b, _, layer in kept:
          if b.get("wscale"):
            for l in branch_layers(layer):
              l.set_weights([w * np.float32(b["wscale"]) if (w.ndim > 0 and np.issubdtype(w.dtype, np.floating)) else w
                             for w in l.get_weights()])
      try:
        randomize_weights(model, rng)
        scale_weights(kept)
        model.run_eagerly = True
        model.predict([xs[k] for k in used], verbose=0)
      except Exception:  # pylint: disable=broad-except
        # some branch does not run: find out which ones on their own and assemble the rest
        good = []
        for i, b in cands:
          try:
            tf.keras.backend.clear_session()
            inp = L.Input(in_shapes[b["inp"]][0])
            tf.keras.Model(inp, b["make"]("t%d" % i)(inp)).predict(xs[b["inp"]], verbose=0)
            good.append((i, b))
          except Exception as e:  # pylint: disable=broad-except
            bad.append({"label": b["label"], "error": "%s: %s" % (type(e).__name__, str(e)[:160].replace("\n", " "))})
        model, used, kept, slices, bad2 = assemble(good)
        bad += bad2
        randomize_weights(model, rng)
        scale_weights(kept)
        model.run_eagerly = True
        model.predict([xs[k] for k in used], verbose=0)
      if bad:
        run.count("build_failed", len(bad))
        run.extra.setdefault("build_failed", []).extend(bad)
      x = [xs[k] for k in used]
      x = x[0] if len(x) == 1 else x
      for _, b, _, layer in kept:
        run.case((group, b["label"]), sample={"stream": group, "model": b["label"]}
                 if (b["key"]["option"].startswith(("kernel=1x3", "default-alpha/object/kernel", "hard_sigmoid"))
                     and b["cls"] in ("QConv2D", "keras:Activation")) else None)
        run.count("%s_%s" % (group, b["cls"]))
        for t in b.get("shared_ties", []):
          shared_ties.append((b["label"], t))
        if "mask" in b:
          run.count("mask_" + b["key"]["option"].split("mask=")[1].split("/")[0])
          mask_ties.append((b["label"], enc_pv(canon(b["mask"])), canon(layer._mask)))  # pylint: disable=protected-access
      label = "%s: %d branches, flattened and concatenated: %s" % (group, len(kept), "; ".join(b["label"] for _, b, _, _ in kept))
      weights = {name: layer.get_weights() for _, _, name, layer in kept}
      mi = add_model("array-args:" + group, label, {"layer": "packed:" + group, "qclass": "array-args", "option": group},
                     model, x, branches=slices, eager=True)
      if all(models[mi]["res"][r][0] == "ok" for r in ROUTES):
        run.count("packed_model_ok")
        return
      run.count("packed_model_fails")
      for i, b, name, _ in kept:
        tf.keras.backend.clear_session()
        try:
          inp = L.Input(in_shapes[b["inp"]][0])
          layer = b["make"](name)
          single = tf.keras.Model(inp, layer(inp))     # the branch's own output (shape included), not flattened
          layer.set_weights(weights[name])
          single.run_eagerly = True
          single.predict(xs[b["inp"]], verbose=0)
        except Exception as e:  # pylint: disable=broad-except
          run.count("build_failed")
          run.extra.setdefault("build_failed", []).append({"label": b["label"], "error": "%s: %s" % (type(e).__name__, str(e)[:160])})
          continue
        ci = add_model("array-args-branch", b["label"], b["key"], single, xs[b["inp"]], eager=True)
        models[mi]["children"].append(ci)

    trainable_classes = [q["name"] for q in model_tables["quantizers"]
                         if q["trainable"] and q["name"] not in EXCLUDED]
    keras_info = {}
    def keras_names(rng_, tier_):
      shapes, branches, colliding = keras_name_branches(rng_, tier_)
      keras_info["colliding"] = colliding
      return shapes, branches
    for group, fn in (("mask", mask_branches), ("tuple", tuple_branches), ("qlist", quantizer_list_branches),
                      ("alpha", lambda r, t: default_alpha_branches(r, t, trainable_classes)),
                      ("shared", lambda r, t: shared_role_branches(r, t, specs, qparams, trainable_classes)),
                      ("basekw", lambda r, t: base_kwarg_branches(r, t, specs)),
                      ("keras", keras_names),
                      ("absent", lambda r, t: absent_weight_branches(r, t, specs))):
      in_shapes, branches = fn(rng, tier)
      t0 = _time.time()
      packed(group, in_shapes, branches)
      stream_wall["array-args:%s (build included)" % group] = round(_time.time() - t0, 1)
    run.extra["keras_activation_names_also_exported_by_qkeras"] = keras_info.get("colliding")

    # a list is not an array: the QConv2D constructor reads `mask.shape` (no round trip to check)
    try:
      Q.QConv2D(2, (2, 2), mask=[[1, 0], [1, 1]])
      run.count("mask_list_accepted_by_constructor")
    except AttributeError:
      run.count("mask_list_rejected_by_constructor")

    # ---------------- stream 7: plain Python values where get_config calls a numpy method
    for opt, label, mk in native_value_cases():
      tf.keras.backend.clear_session()
      try:
        inp = L.Input((5,))
        model = tf.keras.Model(inp, mk()(inp))
        randomize_weights(model, rng)
        x = rng.normal(0, 1, (3, 5)).astype(np.float32)
        model.predict(x, verbose=0)
      except Exception as e:  # pylint: disable=broad-except
        run.count("build_failed")
        run.extra.setdefault("build_failed", []).append({"label": label, "error": "%s: %s" % (type(e).__name__, str(e)[:160])})
        continue
      run.case(("native-values", label), sample={"stream": "native-values", "model": label} if opt.endswith("list") else None)
      run.count("kind_native_values")
      add_model("native-values", label, {"layer": "QDense", "qclass": "quantized_bits", "option": opt}, model, x)

    # ---------------- stream 8: a QAdaptiveActivation whose EMA state was trained
    ema_case(run, rng, scratch)

    # ---------------- stream 9: process-level state (set_internal_sigmoid) between construction and the routes
    t0 = _time.time()
    sigmoid_mode_stream(run, rng, tier, scratch)
    stream_wall["sigmoid-mode (build included)"] = round(_time.time() - t0, 1)

    # ---------------- stream 10: base-class keyword arguments, layer level (every pair of the table) and
    #                  time_major (a model of its own: the input is (time, batch, features))
    t0 = _time.time()
    basekw_ties = base_kwarg_layer_ties(run, specs)
    for cls_name in (("QSimpleRNN", "QLSTM", "QGRU") if tier != "quick" else (("QSimpleRNN", "QLSTM", "QGRU")[run.seed % 3],)):
      if not any(b["name"] == "time_major" for b in specs[cls_name].get("base_kwargs", [])):
        continue
      tf.keras.backend.clear_session()
      label = "%s(2, time_major=True) [argument of the Keras base class, through **kwargs]" % cls_name
      try:
        inp = L.Input((3, 4))
        model = tf.keras.Model(inp, base_kwarg_layer(cls_name, specs, {"time_major": True})(inp))
        randomize_weights(model, rng)
        x = rng.normal(0, 1, (3, 3, 4)).astype(np.float32)
        model.run_eagerly = True
        model.predict(x, verbose=0)
      except Exception as e:  # pylint: disable=broad-except
        run.count("build_failed")
        run.extra.setdefault("build_failed", []).append({"label": label, "error": "%s: %s" % (type(e).__name__, str(e)[:160])})
        continue
      run.case(("base-kwargs", label))
      run.count("basekw_" + cls_name)
      add_model("base-kwargs", label, {"layer": cls_name, "qclass": "base-kwargs", "option": "time_major=True"}, model, x, eager=True)
    stream_wall["base-kwargs (layer ties + time_major)"] = round(_time.time() - t0, 1)

    # ---------------- stream 11: the caller's own custom_objects on the three routes
    t0 = _time.time()
    user_ties = user_objects_stream(run, rng, tier, scratch)
    stream_wall["user-objects (build included)"] = round(_time.time() - t0, 1)
  finally:
    shutil.rmtree(scratch, ignore_errors=True)
    __import__("qkeras").set_internal_sigmoid("hard")

  # ---------------- model side, one driver call
  outs = core.run_driver("C13", [p[2] for p in pending] + [{"op": "mask", "mask": given} for _, given, _ in mask_ties]
                         + [{"op": "shared", "cls": t["cls"], "heap": t["heap"], "refs": t["refs"]} for _, t in shared_ties]
                         + [{"op": "base_kwargs", "cls": t["cls"], "user": [[t["kw"], enc_pv(canon(t["value"]))]]} for t in basekw_ties]
                         + [{"op": "route_table", "route": r, "user": keys} for _, r, keys, _ in user_ties])
  by_model = {}
  for (mi, li, _), o in zip(pending, outs):
    by_model.setdefault(mi, {})[li] = o
  # constructor tie for the masks: np.reshape(mask, (h, w, 1, 1)) on the array the user gave vs
  # reshapeMask, and the stored mask must be a fixed point of the model's constructor
  for (label, _, stored), o in zip(mask_ties, outs[len(pending):]):
    run.compared += 1
    got = dec_pv(o["stored"]) if o.get("ok") else {"err": o.get("err")}
    if got != stored or not (o.get("reread") or {}).get("same"):
      run.disagree("mask-constructor", {"layer": label}, stored, {"stored": got, "reread": o.get("reread")})

  # constructor tie for quantizer objects shared between slots: the state every slot sees after the
  # constructor ran (live `*_quantizer_internal`) and what get_quantizers() reports (live) vs the
  # model's heap semantics (constructHeap / slotValue / reportedSlots)
  for (label, t), o in zip(shared_ties, outs[len(pending) + len(mask_ties):]):
    canon_q = lambda z: json.dumps(z, sort_keys=True)
    run.compared += 1
    live = [[k, canon_q(z)] for k, z in t["slots"]]
    mod = [[k, canon_q(z)] for k, z in o.get("slots", [])]
    if live != mod:
      run.count("shared_constructor_slots_differ")
      run.disagree("shared-constructor-slots", {"model": label, "class": t["cls"], "refs": t["refs"]},
                   [[k, qj_short(json.loads(z))] for k, z in live], [[k, qj_short(json.loads(z))] for k, z in mod])
    if t["reported"] is not None:
      run.compared += 1
      lrep = [canon_q(z) for z in t["reported"]]
      mrep = [canon_q(z) for _, z in o.get("reported", [])]
      if lrep != mrep:
        run.count("shared_constructor_reported_differ")
        run.disagree("shared-constructor-reported", {"model": label, "class": t["cls"], "refs": t["refs"]},
                     [qj_short(json.loads(z)) for z in lrep], [qj_short(json.loads(z)) for z in mrep])
    run.count("shared_constructor_tied")

  # base-class keyword arguments, layer level: the attribute of `cls.from_config(get_config())` is the
  # original's iff the model says so (get_config writes the key); a READ argument that changes is the
  # clause failing on that layer
  off = len(pending) + len(mask_ties) + len(shared_ties)
  for t, o in zip(basekw_ties, outs[off:]):
    run.compared += 1
    held, rebuilt = dec_pv(o["held"]), dec_pv(o["rebuilt"])
    model_same = held.get(t["kw"]) == rebuilt.get(t["kw"])
    run.count("base_kwarg_layer_tied")
    if model_same != t["live_same"]:
      run.disagree("base-kwargs-roundtrip", {"layer": t["label"], "class": t["cls"], "argument": t["kw"]},
                   {"original": t["original"], "rebuilt": t["rebuilt"]}, {"model_says_same": model_same})
    if t["read"] and not t["live_same"]:
      run.violate("layer-config", {"layer": t["cls"], "qclass": "base-kwargs", "option": "%s=%r" % (t["kw"], t["value"]),
                                   "failure": "read-argument-changes"},
                  {"model": t["label"], "argument": t["kw"], "original_attribute": t["original"], "rebuilt_attribute": t["rebuilt"],
                   "replay": "l = %s; l2 = type(l).from_config(l.get_config()) inside the library's custom-object scope; "
                             "l.%s vs l2.%s" % (t["label"], t["kw"], t["kw"])}, mirrored=not model_same)
  # the names that resolve inside the scope a route installs, seen from the caller's own layer class
  off += len(basekw_ties)
  for (label, r, keys, names), o in zip(user_ties, outs[off:]):
    if names is None:
      run.count("route_table_not_observed")
      continue
    run.compared += 1
    want = sorted(set(o["keys"]))
    got = sorted(set(names) & (set(want) | set(model_tables["custom_objects"]) | set(keys)))
    run.count("route_table_tied")
    if got != want:
      run.disagree("route-table", {"model": label, "route": r, "caller_keys": keys},
                   {"missing": sorted(set(want) - set(got)), "unexpected": sorted(set(got) - set(want))}, [])

  for mi, m in enumerate(models):
    predicted_bad = False      # model says a read argument changes / the rebuild raises
    predicted_raise = False
    dropped_nonread = False
    for li, lay in enumerate(m["layers"]):
      o = by_model[mi][li]
      # tie 0: does get_config raise?
      run.compared += 1
      model_raises = bool(o.get("get_config_raises"))
      if (lay["cfg_exc"] is not None) != model_raises:
        run.disagree("get_config-raises", {"model": m["label"], "layer": lay["path"], "class": lay["cls"]},
                     lay["cfg_exc"] or "returns", {"model_says_raises": model_raises})
      if lay["cfg_exc"] is not None:
        run.count("real_code_raises_get_config")
        run.violate("serialise", dict(m["key"], layer_class=lay["cls"], failure="get_config-raises",
                                      exception=lay["cfg_exc"]["exception"]),
                    dict(lay["cfg_exc"], model=m["label"], layer=lay["path"],
                         replay="build the model described by `model`; layer.get_config()"),
                    mirrored=model_raises)
      # tie 1: get_config
      run.compared += 1
      mcfg = dec_pv(o["config"])
      if lay["cfg_exc"] is not None:
        pass
      elif mcfg != lay["real_cfg"]:
        diff = sorted(k for k in set(mcfg) | set(lay["real_cfg"]) if mcfg.get(k, "<absent>") != lay["real_cfg"].get(k, "<absent>"))
        run.disagree("get_config", {"model": m["label"], "layer": lay["path"], "class": lay["cls"], "keys": diff},
                     {k: lay["real_cfg"].get(k, "<absent>") for k in diff[:4]}, {k: mcfg.get(k, "<absent>") for k in diff[:4]})
      # tie 1b: what get_quantizers() reports (live objects, in the live order) vs the model's
      # reportedQuantizers of the layer read from its `*_internal` attributes
      if lay.get("reported_live") is not None:
        run.compared += 1
        mrep = [json.dumps(a.get("q"), sort_keys=True) for _, a in o.get("reported", [])]
        lrep = [json.dumps(z, sort_keys=True) for z in lay["reported_live"]]
        if mrep != lrep:
          run.count("reported_quantizers_differ_from_used")
          bad_slots = [o["reported"][i][0] if i < len(o.get("reported", [])) else "#%d" % i
                       for i in range(max(len(mrep), len(lrep)))
                       if i >= len(mrep) or i >= len(lrep) or mrep[i] != lrep[i]]
          run.disagree("reported-quantizers", {"model": m["label"], "layer": lay["path"], "class": lay["cls"], "slots": bad_slots},
                       [qj_short(json.loads(z)) for z in lrep], [qj_short(json.loads(z)) for z in mrep])
      # tie 2: reload verdict and changed read arguments, per route
      rel = o["reload"]
      route_model = o["route"]
      if not rel["ok"] or route_model != "ok":
        predicted_raise = True
        run.count("model_predicts_raise")
      elif rel["changed_read"]:
        predicted_bad = True
        run.count("model_predicts_changed_read_arg")
      else:
        run.count("model_predicts_identical")
        if rel["changed"]:
          dropped_nonread = True
      for r in ROUTES:
        real = lay["reloaded"][r]
        run.compared += 1
        if real is None:           # the route raised on the real code
          if rel["ok"] and route_model == "ok" and len(m["layers"]) == 1 and not m["wrappers"]:
            run.disagree("reload-verdict", {"model": m["label"], "layer": lay["path"], "route": r},
                         m["res"][r], {"model_says": "ok"})
        elif real == "missing":
          run.disagree("reload-structure", {"model": m["label"], "layer": lay["path"], "route": r}, "layer missing", "")
        elif real == "unreadable":
          pass                     # the rebuilt layer's get_config raised: already a `serialise` violation
        else:
          if not rel["ok"] or route_model != "ok":
            run.disagree("reload-verdict", {"model": m["label"], "layer": lay["path"], "route": r},
                         "ok", {"model_says": rel.get("err", route_model)})
          elif sorted(rel["changed_read"]) != real:
            run.disagree("reload-attrs", {"model": m["label"], "layer": lay["path"], "class": lay["cls"], "route": r},
                         real, sorted(rel["changed_read"]))
          elif lay["kw_changed"].get(r) and rel.get("kwargs_same"):
            # a base-class keyword argument (keepdims, groups, time_major, ...) of the rebuilt layer differs
            run.disagree("reload-kwargs", {"model": m["label"], "layer": lay["path"], "class": lay["cls"], "route": r},
                         lay["kw_changed"][r], [])
    for wi, w in enumerate(m["wrappers"]):
      o = by_model[mi][-(wi + 1)]
      run.compared += 1
      mcfg = dec_pv(o["config"])
      if mcfg != w["real_cfg"]:
        diff = sorted(k for k in set(mcfg) | set(w["real_cfg"]) if mcfg.get(k, "<absent>") != w["real_cfg"].get(k, "<absent>"))
        run.disagree("get_config", {"model": m["label"], "layer": w["name"], "class": "QBidirectional", "keys": diff},
                     {k: w["real_cfg"].get(k, "<absent>") for k in diff[:2]}, {k: mcfg.get(k, "<absent>") for k in diff[:2]})
      if not o["reload"]["ok"]:
        predicted_raise = True
      elif o["reload"]["changed_read"]:
        predicted_bad = True
      if o["table_missing"]:
        run.violate("table", dict(m["key"], missing=",".join(o["table_missing"])),
                    {"model": m["label"], "missing_from_custom_objects": o["table_missing"]}, mirrored=True)
    # ---- clause oracle: the three routes on the real code
    for r in ROUTES:
      status, detail = m["res"][r]
      if status == "ok":
        continue
      if any(models[c]["res"][r][0] != "ok" for c in m["children"]):
        # a packed model: the branches that fail this route on their own are reported instead
        run.count("packed_failure_named_by_branch")
        continue
      if status == "raises":
        mirrored = predicted_raise
      else:
        mirrored = predicted_bad
      key = dict(m["key"], route=r, failure=status)
      if status == "raises":
        key["exception"] = detail.get("exception")
      run.violate("route", key, dict(detail, model=m["label"], route=r, status=status,
                                     replay="build the model described by `model`, then qkeras.utils "
                                            "%s route without custom_objects" % r), mirrored=mirrored)
    if m["stream"] == "regression":
      bad = [r for r in ROUTES if m["res"][r][0] != "ok"]
      run.count("regression_fails" if bad else "regression_holds")
      if bad:
        run.extra.setdefault("repaired_defects_back", []).append(m["label"])
  print("[C13] seconds inside the routes / ties, per stream: %s" % json.dumps(stream_wall, sort_keys=True), flush=True)
  run.extra["models"] = len(models)
  run.extra["layers_tied"] = sum(len(m["layers"]) for m in models)
