"""C04 — the `use_stochastic_rounding` option of binary / ternary and the learning phase (strengthening round V04).

The option is a documented constructor argument of `binary` and `ternary`; the older streams never set it and
never left the inference phase.  Streams here (own rng, the older streams keep their cases):

  sr-inf     binary / stochastic_binary (inference) with the option TRUTHY in several forms (True, 1, np.bool_,
             assigned as an attribute after a first call) through several routes (keywords, positional,
             from_config, text), learning phase 0 in several forms, tensors FULL of exact zeros / -0.0 / all-zero
             channels: the call is deterministic, so it is tied BIT FOR BIT to the Lean model (op `bin_sr`,
             `binarySR`), judged by the complete clause oracle of c04.py (code set, zero counts as positive,
             q.scale == alpha, least squares, po2, groups) and compared with a twin WITHOUT the option (clause
             `sr_inference_invariant`: same output, same q.scale).
  sr-train   the same objects in the TRAINING phase: outputs are random, so every call is judged relationally
             (`judge_train`, float32 simulation of the carrier f * stochastic_round(x / f, 1/8) independent of
             the model): every output element must be float32(scale x code) for a code of the set that is
             consistent with one of the two admissible carriers (sign of the carrier; a zero carrier admits both
             codes), q.scale == alpha for constant alpha, scale >= 0 / group constant / power of two in bounds
             for a data-dependent alpha; tie: the decoded code must be one the Lean model admits (`srAdmissible`)
             and the normaliser f must agree.  With the option FALSY the training phase must change nothing
             (full oracle + bit-exact tie).
  sr-hist    ONE object used under phase 0 -> 1 -> 0, 1 -> 0 -> 1, option toggled between calls, rank changes: every
             inference call must be what a fresh object returns (tie + twin), every training call passes judge_train.
  sr-ter     ternary with the option: alpha 'auto' / 'auto_po2' in inference == the twin without the option
             (bit-exact tie through op `ter_sr`, full oracle); in training the code set / sign / scale clauses;
             with a constant alpha the option must be rejected (AssertionError, as the model says).
"""
from fractions import Fraction as F

import numpy as np

from .. import autoscale as A
from .. import core

f32 = np.float32
KINDS = ["zeros", "zero_channel", "sparse", "sparse", "plain", "tiny", "planted", "planted"]
USR_TRUE = [("True", True), ("1", 1), ("np.bool_", np.bool_(True)), ("attr", "attr")]
USR_FALSE = [("False", False), ("0", 0)]


def tensor(rng, sh, kind):
  if kind == "planted":
    x = A.exact_tensor(rng, sh, "plain")
    flat = x.reshape(-1)
    for j in rng.choice(flat.size, size=max(1, flat.size // 3), replace=False).tolist():
      flat[j] = f32(0.0) if rng.random() < 0.6 else f32(-0.0)
    return x
  return A.exact_tensor(rng, sh, kind)


def gen_cfg(rng, sh):
  rank = len(sh)
  alpha = [None, 0.5, 1.0, 2.0, "auto", "auto", "auto_po2", "auto_po2"][int(rng.integers(0, 8))]
  sa = eps = mn = mx = None
  if isinstance(alpha, str) and rank >= 2:
    t = rng.random()
    if t < 0.3:
      sa = int(rng.integers(0, rank))
    elif t < 0.5:
      sa = sorted(rng.choice(rank, size=int(rng.integers(1, rank + 1)), replace=False).tolist())
    if sa is not None and rng.random() < 0.5:
      axes = sa if isinstance(sa, list) else [sa]
      facs = [int(rng.choice([d for d in (1, 2, 4, 8) if sh[a] % d == 0])) for a in axes]
      eps = facs if isinstance(sa, list) else facs[0]
  if alpha == "auto_po2" and rng.random() < 0.4:
    mn = int(rng.integers(-12, 3)) if rng.random() < 0.7 else None
    mx = int(rng.integers(-6, 8)) if rng.random() < 0.7 else None
  return dict(q="binary", alpha=alpha, use01=bool(rng.random() < 0.4), ch_last=bool(rng.random() < 0.75),
              sa=sa, eps=eps, mn=mn, mx=mx)


def gen(rng, tier):
  """scenarios: a configuration, a route, the option's form, and 1-3 calls (phase, tensor) on ONE object"""
  n_inf, n_train, n_hist, n_ter = (70, 40, 24, 24) if tier == "quick" else (400, 250, 120, 120)
  out = []
  routes = ["kw", "kw", "pos", "from_config", "text"]
  for stream, n in (("sr-inf", n_inf), ("sr-train", n_train), ("sr-hist", n_hist)):
    for sh in A.shapes(rng, n, max_elems=64 if tier == "quick" else 128):
      cfg = gen_cfg(rng, sh)
      kind = KINDS[int(rng.integers(0, len(KINDS)))]
      x = tensor(rng, sh, kind)
      sc = dict(stream=stream, cfg=cfg, route=routes[int(rng.integers(0, len(routes)))], cls="binary")
      if stream == "sr-inf":
        sc["usr"] = USR_TRUE[int(rng.integers(0, len(USR_TRUE)))]
        if rng.random() < 0.15 and cfg["sa"] is None:
          sc["cls"], sc["usr"], cfg["use01"] = "stochastic_binary", USR_TRUE[3], False
          cfg["mn"] = cfg["mx"] = None      # stochastic_binary(alpha, temperature, use_real_sigmoid): no exponent bounds
        sc["calls"] = [([0, False, "after-training"][int(rng.integers(0, 3))], x)]
      elif stream == "sr-train":
        falsy = rng.random() < 0.2
        sc["usr"] = (USR_FALSE if falsy else USR_TRUE[:3])[int(rng.integers(0, 2 if falsy else 3))]
        sc["calls"] = [(1, x)]
      else:
        sc["usr"] = USR_TRUE[int(rng.integers(0, 3))]
        phases = [[0, 1, 0], [1, 0, 1], [1, 0], [0, 0], [1, 1, 0]][int(rng.integers(0, 5))]
        calls = []
        for k, ph in enumerate(phases):
          shk = sh if k == 0 or rng.random() < 0.4 or cfg["sa"] is not None else A.shapes(rng, 1, max_elems=48)[0]
          calls.append((ph, x if k == 0 else tensor(rng, shk, KINDS[int(rng.integers(0, len(KINDS)))])))
        sc["calls"] = calls
        if rng.random() < 0.3:
          sc["toggle"] = int(rng.integers(1, len(calls)))     # the option is switched OFF before that call
      if sc["route"] == "text" and not (cfg["sa"] is None and cfg["mn"] is None and cfg["mx"] is None):
        sc["route"] = "kw"
      if sc["cls"] != "binary" or sc["usr"][1] == "attr":
        sc["route"] = "kw"
      out.append(sc)
  for sh in A.shapes(rng, n_ter, max_elems=64):
    alpha = ["auto", "auto_po2", "auto", "auto_po2", 1.0, None][int(rng.integers(0, 6))]
    cfg = dict(q="ternary", alpha=alpha, thr=None, unrolls=[1, 2, 5][int(rng.integers(0, 3))],
               ch_last=bool(rng.random() < 0.75))
    x = tensor(rng, sh, KINDS[int(rng.integers(0, len(KINDS)))])
    ph = 0 if (not isinstance(alpha, str) or rng.random() < 0.6) else 1
    out.append(dict(stream="sr-ter", cfg=cfg, route="kw", cls="ternary", usr=USR_TRUE[int(rng.integers(0, 3))],
                    calls=[(ph, x)]))
  return out


def build(Q, sc, usr_value):
  cfg = sc["cfg"]
  if cfg["q"] == "ternary":
    return Q.ternary(alpha=cfg["alpha"], threshold=cfg["thr"], use_stochastic_rounding=usr_value,
                     number_of_unrolls=cfg["unrolls"])
  import copy
  sa, eps = copy.deepcopy(cfg["sa"]), copy.deepcopy(cfg["eps"])
  if sc["cls"] == "stochastic_binary":
    return Q.stochastic_binary(alpha=cfg["alpha"])
  r = sc["route"]
  if r == "pos":
    return Q.binary(cfg["use01"], cfg["alpha"], usr_value, sa, eps, cfg["mn"], cfg["mx"])
  if r == "from_config":
    return Q.binary.from_config(dict(use_01=cfg["use01"], alpha=cfg["alpha"], use_stochastic_rounding=usr_value,
                                     scale_axis=sa, elements_per_scale=eps, min_po2_exponent=cfg["mn"],
                                     max_po2_exponent=cfg["mx"]))
  if r == "text":
    a = cfg["alpha"]
    parts = ["use_01=%d" % int(cfg["use01"])]
    if a is not None:
      parts.append("alpha=" + (repr(a) if isinstance(a, str) else repr(float(a))))
    parts.append("use_stochastic_rounding=%s" % ("True" if usr_value else "False"))
    return Q.get_quantizer("binary(" + ", ".join(parts) + ")")
  return Q.binary(use_01=cfg["use01"], alpha=cfg["alpha"], use_stochastic_rounding=usr_value, scale_axis=sa,
                  elements_per_scale=eps, min_po2_exponent=cfg["mn"], max_po2_exponent=cfg["mx"])


def call(K, tf, q, x):
  y = np.asarray(q(tf.constant(x)), dtype=np.float32)
  s = q.scale if not hasattr(q.scale, "numpy") else q.scale.numpy()
  return y, A.broadcast_scale(s, x.shape)


def set_phase(K, ph):
  if ph == "after-training":
    K.set_learning_phase(1)
    K.set_learning_phase(0)
  else:
    K.set_learning_phase(ph)


def execute(Q, K, tf, sc):
  """runs the scenario on the real code; per call: dict(phase, usr, x, y, sc | error)"""
  cfg = sc["cfg"]
  K.set_image_data_format("channels_last" if cfg["ch_last"] else "channels_first")
  recs = []
  try:
    form, val = sc["usr"]
    K.set_learning_phase(0)
    if val == "attr":
      q = build(Q, sc, False)
      try:
        q(tf.constant(np.array([0.0, -1.5, 0.25], dtype=np.float32)))     # used once before the option is set
      except Exception:  # pylint: disable=broad-except
        pass
      q.use_stochastic_rounding = True
      on = True
    else:
      q = build(Q, sc, val)
      on = bool(val)
    for k, (ph, x) in enumerate(sc["calls"]):
      if sc.get("toggle") == k:
        q.use_stochastic_rounding = False
        on = False
      set_phase(K, ph)
      training = ph == 1
      rec = dict(training=training, usr=on, x=x, k=k)
      try:
        rec["y"], rec["sc"] = call(K, tf, q, x)
      except Exception as e:  # pylint: disable=broad-except
        rec["error"] = e
      recs.append(rec)
      if "error" in rec:
        break
      if not training:
        # a twin WITHOUT the option, built now: the inference phase is deterministic and the option changes nothing
        try:
          t = build(Q, dict(sc, route="kw", cls=sc["cls"]), False)
          rec["twin"] = call(K, tf, t, x)
        except Exception as e:  # pylint: disable=broad-except
          rec["twin_error"] = e
    return recs
  finally:
    K.set_learning_phase(0)
    K.set_image_data_format("channels_last")


def flat_case(sc, rec):
  """the record c04.judge / c04.line_of understand"""
  c = dict(sc["cfg"])
  x = rec["x"]
  c.update(stream=sc["stream"], shape=list(x.shape), x=x, usr=sc["usr"][0], route=sc["route"], call=rec["k"],
           training=rec["training"], option_on=rec["usr"])
  if sc["cls"] != c["q"]:
    c["cls"] = sc["cls"]
  return c


def carriers(x, shape, ch_last):
  """float32 simulation of the training carrier, independent of the model: per element (f, z, [x'_floor, x'_ceil])"""
  a = np.abs(x.astype(np.float32))
  rank = len(shape)
  if rank <= 1:
    m = np.max(a) * np.ones_like(a) if a.size else a
  else:
    axes = tuple(range(rank - 1)) if ch_last else tuple(range(1, rank))
    m = np.broadcast_to(np.max(a, axis=axes, keepdims=True), a.shape)
  m = np.where(m > 1, f32(1), m).astype(np.float32)
  f = (f32(2) * m).astype(np.float32)
  f = np.where(f > 0, f, f32(1)).astype(np.float32)
  z = (x.astype(np.float32) / f).astype(np.float32)
  z8 = (z * f32(8)).astype(np.float32)
  outs = []
  for r in (np.floor(z8), np.ceil(z8)):
    r = (r / f32(8)).astype(np.float32)
    zr = (z + ((-z) + r).astype(np.float32)).astype(np.float32)
    outs.append((f * zr).astype(np.float32))
  return f.ravel(), z.ravel(), outs[0].ravel(), outs[1].ravel()


def judge_train(run, K, tf, c, rec, eps32, adm):
  """the clauses that survive the randomness of the training phase (binary with the option on)"""
  x, y = rec["x"], rec["y"].ravel()
  fin = bool(np.isfinite(y).all() and np.isfinite(rec["sc"]).all())
  sc = [F(float(v)) for v in rec["sc"]] if fin else []
  auto = isinstance(c["alpha"], str)
  key0 = dict(quantizer="binary", alpha=("const" if not auto and c["alpha"] is not None else str(c["alpha"])),
              phase="training", option="use_stochastic_rounding")
  det0 = {"case": {k: (np.asarray(v).tolist() if isinstance(v, np.ndarray) else v) for k, v in c.items() if k != "x"}}
  n = y.size
  if n <= 64:
    det0["x"] = [float(v) for v in x.ravel()]
  if not fin:
    run.count("clause:finite:FAIL")
    run.violate("finite", key0, dict(det0, y=[float(v) for v in y[:8]], scale=[float(v) for v in rec["sc"][:8]]), mirrored=False)
    return
  if not auto:
    ea = [F(1)] * n if c["alpha"] is None else [F(float(c["alpha"]))] * n
    bad = next((i for i in range(n) if sc[i] != ea[i]), None)
    run.count("clause:const_scale:" + ("ok" if bad is None else "FAIL"))
    if bad is not None:
      run.violate("const_scale", key0, dict(det0, i=bad, scale_reported=float(sc[bad]), alpha=float(ea[bad])), mirrored=False)
  f, z, lo, hi = carriers(x, c["shape"], c["ch_last"])
  if c["alpha"] is None:
    lo_s = np.asarray(K.tanh(tf.constant(lo)), dtype=np.float32)
    hi_s = np.asarray(K.tanh(tf.constant(hi)), dtype=np.float32)
  else:
    lo_s, hi_s = lo, hi
  neg, pos = (F(0) if c["use01"] else F(-1)), F(1)
  xs = x.ravel()
  codes = []
  for i in range(n):
    s = sc[i]
    want = []      # (carrier value the straight-through sum sees, admissible code)
    for cv, cs in ((lo[i], lo_s[i]), (hi[i], hi_s[i])):
      for k in ([pos] if cv > 0 else [neg] if cv < 0 else [pos, neg]):
        want.append((cs, k))
    yi = F(float(y[i]))
    hit = next((k for cs, k in want if yi == s * k or yi == F(float(A.ste32(float(cs), float(s * k))))), None)
    if hit is None:
      legal = next((k for k in (pos, neg) if yi == s * k), None)
      if legal is not None and s != 0:
        run.count("clause:sign:FAIL")
        run.violate("sign", key0, dict(det0, i=i, x=float(xs[i]), f=float(f[i]), y=float(y[i]), scale=float(s), code=str(legal),
                                      why="|x|/f >= 1/8: stochastic rounding cannot change the sign"), mirrored=False)
      else:
        run.count("clause:code_set:not-a-code")
        run.violate("code_set", dict(key0, why="not-a-code"),
                    dict(det0, i=i, x=float(xs[i]), f=float(f[i]), y=float(y[i]), scale=float(s),
                         y_over_scale=(None if s == 0 else float(yi / s)),
                         expected_codes=sorted({str(k) for _cs, k in want})), mirrored=False)
      codes.append(None)
      continue
    run.count("train:code:%s" % ("determined" if len({k for _c, k in want}) == 1 else "random"))
    if s == 0:
      codes.append(None)
      continue
    codes.append(hit)
    if adm is not None:
      run.compared += 1
      m = [F(p[0], p[1]) for p in adm["adm"][i]]
      if hit not in m or F(adm["f"][i][0], adm["f"][i][1]) != F(float(f[i])):
        run.disagree("sr-train:admissible", det0["case"], {"i": i, "code": float(hit), "f": float(f[i])},
                     {"i": i, "admissible": [float(v) for v in m], "f": float(F(adm["f"][i][0], adm["f"][i][1]))})
  if not auto:
    return
  if any(s < 0 for s in sc):
    run.violate("scale_nonneg", key0, dict(det0, scale=[float(s) for s in sc[:8]]), mirrored=False)
  groups = A.spec_groups(c["shape"], c["sa"], c["eps"], c["ch_last"])
  by = {}
  for i, g in enumerate(groups):
    by.setdefault(g, []).append(i)
  for g, idx in by.items():
    ss = {sc[i] for i in idx}
    if len(ss) != 1:
      run.violate("scale_group_constant", key0, dict(det0, group=str(g), scales=[float(s) for s in sorted(ss)[:4]]), mirrored=False)
      continue
    s = sc[idx[0]]
    if c["alpha"] == "auto_po2":
      if not A.is_pow2(s):
        run.violate("po2", dict(key0, why="not-a-power-of-two"), dict(det0, group=str(g), scale=float(s)), mirrored=False)
        continue
      e, mn, mx = A.log2_exact(s), c["mn"], c["mx"]
      hi_e = mx if (mn is None or mx is None or mx >= mn) else mn
      if (mn is not None and e < mn) or (hi_e is not None and e > hi_e):
        run.violate("po2", dict(key0, why="outside-exponent-bounds"), dict(det0, group=str(g), e=e, min=mn, max=mx), mirrored=False)
    elif all(codes[i] is not None for i in idx) and len(c["shape"]) >= 2:
      # least squares over the carrier: it lies between the two admissible carriers of every element
      ks = [codes[i] for i in idx]
      den = sum(k * k for k in ks) + len(idx) * eps32
      lo_n = sum(min(F(float(lo[i])) * k, F(float(hi[i])) * k) for i, k in zip(idx, ks)) / den
      hi_n = sum(max(F(float(lo[i])) * k, F(float(hi[i])) * k) for i, k in zip(idx, ks)) / den
      tol = F(1, 2 ** 18) * max(abs(lo_n), abs(hi_n))
      run.count("train:scale:auto")
      if not lo_n - tol <= s <= hi_n + tol:
        run.violate("least_squares", key0, dict(det0, group=str(g), scale=float(s), admissible=[float(lo_n), float(hi_n)]),
                    mirrored=False)


def judge_train_ternary(run, c, rec):
  x, y = rec["x"].ravel(), rec["y"].ravel()
  sc = [F(float(v)) for v in rec["sc"]] if np.isfinite(rec["sc"]).all() else []
  key0 = dict(quantizer="ternary", alpha=str(c["alpha"]), phase="training", option="use_stochastic_rounding")
  det0 = {"case": {k: (np.asarray(v).tolist() if isinstance(v, np.ndarray) else v) for k, v in c.items() if k != "x"},
          "x": [float(v) for v in x[:64]]}
  if not (np.isfinite(y).all() and np.isfinite(rec["sc"]).all()):
    run.violate("finite", key0, dict(det0, y=[float(v) for v in y[:8]]), mirrored=False)
    return
  for i in range(y.size):
    s, yi = sc[i], F(float(y[i]))
    k = next((a for a in (F(0), F(1), F(-1)) if yi == s * a or yi == F(float(A.ste32(float(x[i]), float(s * a))))), None)
    if k is None:
      run.violate("code_set", dict(key0, why="not-a-code"), dict(det0, i=i, x=float(x[i]), y=float(y[i]), scale=float(s)),
                  mirrored=False)
    elif s != 0 and k != 0 and ((k > 0) != (x[i] > 0) or x[i] == 0):
      run.violate("sign", key0, dict(det0, i=i, x=float(x[i]), code=str(k)), mirrored=False)
    if s < 0:
      run.violate("scale_nonneg", key0, dict(det0, i=i, scale=float(s)), mirrored=False)
    if c["alpha"] == "auto_po2" and not A.is_pow2(s):
      run.violate("po2", dict(key0, why="not-a-power-of-two"), dict(det0, i=i, scale=float(s)), mirrored=False)


def run_sr(run, tier, Q, K, tf, rng, eps32, judge, line_of):
  scs = gen(rng, tier)
  jobs, lines = [], []
  for sc in scs:
    recs = execute(Q, K, tf, sc)
    for rec in recs:
      c = flat_case(sc, rec)
      tern = c["q"] == "ternary"
      run.count("stream:%s:%s:%s:%s" % (sc["stream"], sc["cls"], "train" if rec["training"] else "inf",
                                        "on" if rec["usr"] else "off"))
      run.case(key=(sc["stream"], sc["cls"], str(c["alpha"]), sc["usr"][0], sc["route"], rec["k"], len(run.nontrivial)),
               nontrivial=True,
               sample={"case": {k: (v if k != "x" else np.asarray(v).ravel()[:6].tolist()) for k, v in c.items()}})
      rejects = tern and rec["usr"] and not isinstance(c["alpha"], str)
      if "error" in rec:
        e = rec["error"]
        if rejects and isinstance(e, AssertionError):
          run.count("ternary:option-rejected-for-constant-alpha")
          run.compared += 1
          continue
        run.count("impl-raises")
        run.violate("returns_output", dict(quantizer=c["q"], alpha=str(c["alpha"]), error=type(e).__name__,
                                           option="use_stochastic_rounding", phase="training" if rec["training"] else "inference"),
                    {"case": {k: v for k, v in c.items() if k != "x"}, "error": str(e)[:300]}, mirrored=False)
        continue
      if rejects:
        run.disagree("sr-ter:model-rejects", {k: v for k, v in c.items() if k != "x"}, "ok", {"err": "assert"})
        continue
      x = rec["x"]
      xste = np.asarray(K.tanh(tf.constant(x)), dtype=np.float32) if c["alpha"] is None else x
      if rec["training"] and rec["usr"]:
        if tern:
          judge_train_ternary(run, c, rec)
          continue
        ln = line_of(c, xste, eps32)
        ln.update(op="bin_sr", usr=True, training=True)
        lines.append(ln)
        jobs.append(("train", sc, c, rec, xste))
        continue
      # deterministic call: inference phase (option on or off), or training with the option off
      if "twin" in rec or "twin_error" in rec:
        run.count("clause:sr_inference_invariant")
        same = "twin" in rec and np.array_equal(rec["y"], rec["twin"][0]) and np.array_equal(rec["sc"], rec["twin"][1])
        if rec["usr"] and not same:
          d = np.flatnonzero(rec["y"].ravel() != rec["twin"][0].ravel()) if "twin" in rec else []
          i = int(d[0]) if len(d) else 0
          run.violate("sr_inference_invariant", dict(quantizer=c["q"], alpha=("const" if not isinstance(c["alpha"], str) and c["alpha"] is not None else str(c["alpha"]))),
                      {"case": {k: (np.asarray(v).tolist() if isinstance(v, np.ndarray) else v) for k, v in c.items()},
                       "i": i, "x": float(x.ravel()[i]), "y_with_option": float(rec["y"].ravel()[i]),
                       "y_without": (float(rec["twin"][0].ravel()[i]) if "twin" in rec else str(rec.get("twin_error"))),
                       "scale_with_option": float(rec["sc"][i]),
                       "scale_without": (float(rec["twin"][1][i]) if "twin" in rec else None)}, mirrored=False)
      ln = line_of(c, xste, eps32)
      if tern:
        ln.update(op="ter_sr", usr=bool(rec["usr"]))
      else:
        ln.update(op="bin_sr", usr=bool(rec["usr"]), training=bool(rec["training"]))
      lines.append(ln)
      jobs.append(("det", sc, c, rec, xste))
  outs = core.run_driver("C04", lines)
  for (kind, sc, c, rec, xste), o in zip(jobs, outs):
    if kind == "train":
      judge_train(run, K, tf, c, rec, eps32, None if "err" in o else o)
      if "err" in o:
        run.disagree("sr-train:model-rejects", {k: v for k, v in c.items() if k != "x"}, "ok", o)
      continue
    y, scl = rec["y"], rec["sc"]
    if not (np.isfinite(y).all() and np.isfinite(scl).all()):
      run.violate("finite", dict(quantizer=c["q"], alpha=str(c["alpha"]), option="use_stochastic_rounding"),
                  {"case": {k: v for k, v in c.items() if k != "x"}, "y": [float(v) for v in y.ravel()[:8]]}, mirrored=False)
      continue
    fx, fxs, fy, fs = A.fr(rec["x"]), A.fr(xste), A.fr(y), [F(float(v)) for v in scl]
    mirrored = True
    if "err" in o:
      run.disagree("sr:model-rejects", {k: v for k, v in c.items() if k != "x"}, "ok", o)
      mirrored = False
    else:
      Fm, Em = o["F"], o["E"]
      mF = dict(out=A.dec(Fm["out"]), scales=A.dec(Fm["scales"]), codes=A.dec(Fm["codes"]))
      mE = dict(out=A.dec(Em["out"]), scales=A.dec(Em["scales"]), codes=A.dec(Em["codes"]))
      run.compared += 1
      if o["band"]:
        run.count("tie:band")
        mirrored = mF["out"] == fy
      elif mF["out"] != fy or mF["scales"] != fs:
        mirrored = False
        j = next((i for i in range(len(fy)) if mF["out"][i] != fy[i] or mF["scales"][i] != fs[i]), 0)
        run.disagree("bit-exact:sr:" + c["q"], {k: (np.asarray(v).tolist() if isinstance(v, np.ndarray) else v) for k, v in c.items()},
                     {"i": j, "x": float(fx[j]), "y": float(fy[j]), "scale": float(fs[j])},
                     {"i": j, "y": float(mF["out"][j]), "scale": float(mF["scales"][j])})
      else:
        run.count("tie:bit-exact")
    judge(run, c, fx, fxs, fy, fs, eps32, None, mirrored)
  run.extra["sr"] = dict(scenarios=len(scs), calls=len(jobs))
