"""C10 — quantizer strings (DESIGN.md §4 C10).

(a) grammar stream : generated call expressions over the literal grammar (syntax trees ->
    text, whitespace variants) through the REAL safe_eval with the constructor replaced by a
    recorder, vs the model parser, vs the model's reference reader `pyCall`, vs Python's own
    compile()/ast reading of the same text (clause: safe_eval == Python).
(b) formerly carved-out forms, now ordinary members of the clause (repaired in the fix round):
    list literals `[a,b]` / `[a]` / `[]`, repeated keywords (SyntaxError as in Python), blanks
    after keyword values; and junk text (error kinds / accepted junk, tie only).
(r) routes and histories (second strengthening round, seeds C10-5 / C10-6): every text of (a) and
    (b) also through the real `get_quantizer(text)` (clause route_get_quantizer); numpy-style lists;
    histories in one process: mutation of what GetParams returned, safe_eval with overrides on the
    same argument text under another name (clause override_merge), then the same text again through
    both routes and under a third name, and every text a second time at the end of the run
    (clause parse_eq_python with the history step in the key).
(c) str direction over the C09 option lattice EXTENDED per class with the case splits of the
    printing code (strengthening round, seed C10-3): for every option the constructor defaults
    of the OTHER classes with an option of that name, every constant the model's `__str__` tables
    and the live source of quantizers.py compare an option of that name with, and the
    falsy-but-legal values (0, 0.0, False; a numeric scale of 0 included), each under every
    context of the class; list-valued axes of the classes that have them.
    str(q) vs model print (string equality), get_quantizer(str(q)) vs the model's verdict and
    rebuilt fields, and the clause oracle "denotes the same function":
      str_same_options  — the COMPLETE option set of the rebuilt quantizer (every constructor
                          argument read back from the object, and every get_config() entry) is
                          Python-`==` the original's; an omitted option that silently falls back
                          to another value is a violation by itself;
      str_same_output / str_same_gradient — no exception, identical outputs / scale / gradients
                          on probe tensors, in the training phase too, there also with
                          tf.random.uniform patched to fixed draws (a grid of levels).
(f) long floats (strengthening round 3, seed C10-7): EVERY float-valued option of every class
    (max_value, alpha, negative_slope, relu_upper_bound, threshold, temperature, u, relu_shift)
    with values whose shortest repr needs 7-17 significant digits or exponent notation: powers of
    two 2^-9 .. 2^-20, integers above 10^6, 7-10 digit decimals, values next to the defaults,
    1/3, float32-rounded values, 1e-7 / 1e22, sqrt(2)*2^k +- 1 ulp and 2^k +- 1 ulp (the rounding
    boundaries of the po2 consumer, there also under log2_rounding='floor' and the quadratic
    approximation), negative values; also as np.float64 and assigned through the public attribute
    of a default object.  Clauses as in (c) plus
      str_text_denotes_option — PYTHON's reading of the printed text, bound to the constructor's
                          signature, gives every float option exactly (independent of safe_eval
                          and of the model);
      str_after_setattr  — a default object with the option assigned prints what a fresh one prints.
    Model side (device 1): a float whose shortest repr is a positional decimal of <= 15 digits is
    sent to the model as that decimal (checked to round to the same binary64); floats outside the
    domain of the model's reprFloat are judged by the clause oracle only.
"""
import ast
import fractions
import inspect
import keyword
import math
import re

import numpy as np

from .. import core, qlattice as L

STOCHASTIC = {"bernoulli", "stochastic_binary", "stochastic_ternary"}
STR_ALPHABET = list("abcdefghijklmnopqrstuvwxyzABCDEFGHIJKLMNOPQRSTUVWXYZ0123456789_-.+*:/[]{}!@#$%^&~<>?|;")
IDENT0 = list("abcdefghijklmnopqrstuvwxyz_")
IDENT = IDENT0 + list("0123456789ABCXYZ")


# --------------------------------------------------------------------------- literal syntax trees

def _digits(rng, lo, hi, leading_zero_ok=False):
  n = int(rng.integers(lo, hi + 1))
  ds = "".join(str(int(d)) for d in rng.integers(0, 10, size=n))
  if not leading_zero_ok and len(ds) > 1 and ds[0] == "0":
    ds = str(int(rng.integers(1, 10))) + ds[1:]
  return ds


def gen_lit(rng, kind=None):
  kind = kind or ["none", "bool", "int", "int", "float", "float", "str", "list"][int(rng.integers(8))]
  if kind == "list":
    n = [0, 1, 2, 2, 3, 4][int(rng.integers(6))]
    return {"t": "list", "ns": [gen_lit(rng, ["int", "int", "float"][int(rng.integers(3))])
                                for _ in range(n)]}
  if kind == "none":
    return {"t": "none"}
  if kind == "bool":
    return {"t": "bool", "b": bool(rng.integers(2))}
  if kind == "int":
    return {"t": "int", "neg": bool(rng.integers(3) == 0), "ds": _digits(rng, 1, [1, 1, 2, 3, 12][int(rng.integers(5))])}
  if kind == "float":
    ex = None
    if rng.integers(3) == 0:
      ex = {"neg": bool(rng.integers(2)), "ds": _digits(rng, 1, 2, leading_zero_ok=True)}
      if int(ex["ds"]) > 30:
        ex["ds"] = "7"
    return {"t": "float", "neg": bool(rng.integers(3) == 0), "ip": _digits(rng, 1, 4),
            "fp": _digits(rng, 1, 6, leading_zero_ok=True), "ex": ex}
  special = ["True", "None", "False", "1.5", "12", "[1", "auto", "auto_po2", "rnd", "floor", ""]
  if rng.integers(3) == 0:
    cs = special[int(rng.integers(len(special)))]
  else:
    cs = "".join(STR_ALPHABET[int(i)] for i in rng.integers(0, len(STR_ALPHABET), size=int(rng.integers(0, 9))))
  return {"t": "str", "dq": bool(rng.integers(2)), "cs": cs}


def lit_text(l, sep=","):
  t = l["t"]
  if t == "list":
    return "[" + sep.join(lit_text(e) for e in l["ns"]) + "]"
  if t == "none":
    return "None"
  if t == "bool":
    return "True" if l["b"] else "False"
  if t == "int":
    return ("-" if l["neg"] else "") + l["ds"]
  if t == "float":
    s = ("-" if l["neg"] else "") + l["ip"] + "." + l["fp"]
    if l["ex"] is not None:
      s += "e" + ("-" if l["ex"]["neg"] else "") + l["ex"]["ds"]
    return s
  q = '"' if l["dq"] else "'"
  return q + l["cs"] + q


def gen_ident(rng, pool):
  if pool and rng.integers(3) != 0:
    return pool[int(rng.integers(len(pool)))]
  n = int(rng.integers(1, 8))
  k = IDENT0[int(rng.integers(len(IDENT0)))] + "".join(IDENT[int(i)] for i in rng.integers(0, len(IDENT), size=n - 1))
  return k + "_" if keyword.iskeyword(k) else k   # reserved words are not identifiers


def gen_args(rng, pool, allow_bad_order=True):
  n = int(rng.integers(0, 7))
  n_pos = int(rng.integers(0, n + 1))
  args, used = [], set()
  for i in range(n):
    if i < n_pos:
      args.append({"k": None, "lit": gen_lit(rng)})
    else:
      k = gen_ident(rng, pool)
      tries = 0
      while k in used and tries < 20:
        k = gen_ident(rng, [])
        tries += 1
      if k in used:
        continue
      used.add(k)
      args.append({"k": k, "lit": gen_lit(rng)})
  if allow_bad_order and n >= 2 and rng.integers(6) == 0:
    perm = rng.permutation(len(args)).tolist()
    args = [args[i] for i in perm]
  return args


def render(name, args, ws=0, rng=None):
  """ws=0 canonical (must equal the model's render); 1: blank after commas (inside lists too);
  2: random blanks where Python ignores them, inside lists too (never after a keyword value);
  3: also a blank after every argument (i.e. after keyword values)"""
  def blank():
    if ws < 2:
      return ""
    return ["", " ", "  ", "\t", " \n "][int(rng.integers(5))]
  parts = []
  for i, a in enumerate(args):
    if ws == 0:
      t = lit_text(a["lit"])
    elif ws == 1:
      t = lit_text(a["lit"], ", ")
    else:
      t = lit_text(a["lit"], blank() + "," + blank())
    last = i == len(args) - 1
    if a["k"] is None:
      s = blank() + t + blank()
    else:
      s = blank() + a["k"] + blank() + "=" + blank() + t + (" " if ws == 3 else "")
    parts.append(s)
  sep = ", " if ws == 1 else ","
  return name + "(" + sep.join(parts) + ")"


# --------------------------------------------------------------------------- readers

class _Rec:
  def __init__(self):
    self.calls = []

  def __call__(self, *a, **k):
    self.calls.append((a, k))
    return ("REC", a, k)


def impl_read(text, name):
  """the REAL safe_eval on `text` with `name` bound to a recorder"""
  from qkeras.safe_eval import safe_eval
  rec = _Rec()
  try:
    r = safe_eval(text, {name: rec})
  except BaseException as e:  # pylint: disable=broad-except
    return {"err": L.err_tag(e)}
  if isinstance(r, tuple) and r and r[0] == "REC":
    return {"args": [L.enc(x) for x in r[1]], "kwargs": [[k, L.enc(v)] for k, v in r[2].items()],
            "called": True}
  return {"args": [], "kwargs": [], "called": False}


REC_NAME = "qkv_route_recorder"


def _as_call(r):
  if isinstance(r, tuple) and r and r[0] == "REC":
    return {"args": [L.enc(x) for x in r[1]], "kwargs": [[k, L.enc(v)] for k, v in r[2].items()],
            "called": True}
  return {"args": [], "kwargs": [], "called": False}


def route_read(Q, text, name):
  """the same text through the OTHER public route: the real `get_quantizer(text)` of
  qkeras.quantizers (what layer arguments, QActivation(text) and the conversion dictionaries
  call), with a recorder bound to a fresh name in the module's globals in place of `name`"""
  rec = _Rec()
  setattr(Q, REC_NAME, rec)
  try:
    return _as_call(Q.get_quantizer(REC_NAME + text[len(name):]))
  except BaseException as e:  # pylint: disable=broad-except
    return {"err": L.err_tag(e)}
  finally:
    delattr(Q, REC_NAME)


def numpy_list_text(rng, lit):
  """a list literal in the form `str(numpy.ndarray)` prints: items separated by blanks, no
  commas, optional padding; an integral float may lose its fraction digits ("2.")"""
  items = []
  for e in lit["ns"]:
    t = lit_text(e)
    if e["t"] == "float" and e["ex"] is None and set(e["fp"]) == {"0"} and rng.integers(2) == 0:
      t = t[:t.index(".") + 1]
    items.append(t)
  out = "[" + " " * int(rng.integers(0, 2))
  for i, t in enumerate(items):
    out += t + (" " * int(rng.integers(1, 4)) if i < len(items) - 1 else "")
  return out + " " * int(rng.integers(0, 3)) + "]"


def python_read(text, name):
  """Python's own reading: compile() for the syntax verdict, ast.literal_eval per argument"""
  try:
    compile(text, "<quantizer>", "eval")
    tree = ast.parse(text, mode="eval").body
  except SyntaxError:
    return {"err": "SyntaxError"}
  if not (isinstance(tree, ast.Call) and isinstance(tree.func, ast.Name) and tree.func.id == name):
    return {"err": "not-a-call"}
  try:
    return {"args": [L.enc(ast.literal_eval(a)) for a in tree.args],
            "kwargs": [[k.arg, L.enc(ast.literal_eval(k.value))] for k in tree.keywords], "called": True}
  except (ValueError, SyntaxError):
    return {"err": "not-literal"}


def as_float64(v):
  """model values carry the exact decimal of a float literal; CPython rounds it to binary64"""
  if isinstance(v, dict):
    if "f" in v:
      return L.enc(L.dec(v))
    if "l" in v:
      return {"l": [as_float64(e) for e in v["l"]]}
  return v


def norm_call(c):
  if "err" in c:
    return {"err": c["err"]}
  return {"args": [as_float64(a) for a in c["args"]],
          "kwargs": [[k, as_float64(v)] for k, v in c["kwargs"]], "called": bool(c.get("called", True))}


def same_reading(a, b):
  """argument readings agree (keyword order is not part of the meaning of a call)"""
  if "err" in a or "err" in b:
    return a.get("err") == b.get("err")
  return a["args"] == b["args"] and sorted(a["kwargs"]) == sorted(b["kwargs"])


# --------------------------------------------------------------------------- option lattice (C10)

NOT_SWEPT = {"var_name", "use_variables", "post_training_scale"}   # not literals / no effect
NO_ZERO = {"bits", "alpha", "elements_per_scale"}   # no generic 0 for these options (alpha: see rule 4)


def harvest_source_constants(module):
  """every literal the live source of `module` compares an attribute with (`self.x != 6.0`,
  `quantizer.temperature != 6.0`, `0 == self.y`, ...): {attribute name: [values]}"""
  out = {}
  try:
    tree = ast.parse(inspect.getsource(module))
  except (OSError, TypeError, SyntaxError):
    return out

  def const(n):
    if isinstance(n, ast.Constant) and isinstance(n.value, (int, float, str, bool, type(None))):
      return True, n.value
    if isinstance(n, ast.UnaryOp) and isinstance(n.op, ast.USub) and isinstance(n.operand, ast.Constant) \
        and isinstance(n.operand.value, (int, float)) and not isinstance(n.operand.value, bool):
      return True, -n.operand.value
    return False, None

  for node in ast.walk(tree):
    if isinstance(node, ast.Compare) and len(node.comparators) == 1:
      l, r = node.left, node.comparators[0]
      for a, b in ((l, r), (r, l)):
        if isinstance(a, ast.Attribute):
          ok, v = const(b)
          if ok:
            out.setdefault(a.attr, [])
            if not any(type(v) is type(w) and v == w for w in out[a.attr]):
              out[a.attr].append(v)
  return out


def live_defaults(reg):
  """constructor defaults of the live classes: {class: {parameter: default}}"""
  out = {}
  for n, c in reg.items():
    ps = list(inspect.signature(c.__init__).parameters.values())[1:]
    out[n] = {p.name: p.default for p in ps if p.default is not inspect.Parameter.empty}
  return out


def _same(v, w):
  return type(v) is type(w) and v == w


def extra_option_values(name, defaults, harvested, anchors):
  """per option of class `name`: the values at which printing code SHARED with other classes (or
  written with their constants) would split — defaults of the other classes for an option of
  that name, constants of the model's statement tables and of the live source for that name,
  and the falsy-but-legal values.  Returns {option: [(value, origin)]}."""
  own = defaults[name]
  known = L.LATTICE[name]["options"]
  out = {}

  def add(o, v, origin):
    if isinstance(v, float) and v != v:
      return
    if _same(v, own.get(o)):
      return
    lst = out.setdefault(o, [])
    if any(_same(v, w) for w, _ in lst) or any(_same(v, w) for w in known.get(o, []) if not isinstance(w, (list, np.ndarray))):
      return
    lst.append((v, origin))

  for o in own:
    if o in NOT_SWEPT:
      continue
    # (1) defaults of the other classes
    for other, d in defaults.items():
      if other != name and o in d and not isinstance(d[o], (list, np.ndarray)):
        add(o, d[o], "default-of-" + other)
    # (2) constants of the model's statement tables (any class) for this option name
    for v in anchors.get(o, []):
      add(o, v, "model-table-constant")
    # (3) constants the live source compares an attribute of that name with
    for v in harvested.get(o, []):
      if isinstance(v, str) and not isinstance(own[o], str) and not any(isinstance(w, str) for w in known.get(o, [])):
        continue
      add(o, v, "source-constant")   # kept only if the constructor and the call accept it
    # (4) falsy-but-legal
    if o == "alpha" and any(isinstance(w, (int, float)) and not isinstance(w, bool) for w in known.get(o, [])):
      # a numeric scale of 0 is accepted where a numeric scale is (the zero function); the classes
      # whose __str__ tested `if self.alpha:` dropped it (repaired in the second fix round).  Named
      # here so that the case does not depend on a constant of the live source (rule 3)
      add(o, 0.0, "falsy")
      add(o, 0, "falsy")
    if o in NO_ZERO or o == "qnoise_factor":
      continue
    kinds = [own[o]] + [w for w in known.get(o, []) if not isinstance(w, (list, np.ndarray))]
    if any(isinstance(w, bool) for w in kinds):
      add(o, False, "falsy")
      add(o, True, "truthy")
    elif any(isinstance(w, float) for w in kinds):
      add(o, 0.0, "falsy")
    elif any(isinstance(w, int) for w in kinds):
      add(o, 0, "falsy")
  return out


def legal(cls, kw, x):
  """the constructor accepts the options and the quantizer maps the probe to finite numbers"""
  try:
    q = cls(**kw)
    y = q(x)
    y = np.asarray(y.numpy() if hasattr(y, "numpy") else y, np.float32)
    return bool(np.all(np.isfinite(y)))
  except Exception:  # pylint: disable=broad-except
    return False


def c10_configs(name, tier, rng, cls, extras, x_legal):
  """the C09 lattice of the class (unchanged, same order), then every extra option value under
  every context of the class, then the extra values of two options together"""
  out = list(L.configs(name, tier, rng))
  seen = {L._key(kw) for _, kw in out}   # pylint: disable=protected-access
  lat = L.LATTICE[name]

  def add(kw, kind):
    k = L._key(kw)   # pylint: disable=protected-access
    if k in seen:
      return
    seen.add(k)
    if legal(cls, kw, x_legal):
      out.append((kind, dict(kw)))

  singles = []
  for o, vals in extras.items():
    for v, origin in vals:
      singles.append((o, v))
      for ctx in lat["contexts"]:
        if o in ctx:
          continue
        kw = dict(ctx)
        kw[o] = v
        add(kw, "cross")
  # two cross values together (printing code that shares ONE helper for several options)
  for i, (o1, v1) in enumerate(singles):
    for o2, v2 in singles[i + 1:]:
      if o1 != o2:
        for ctx in lat["contexts"][:2]:
          if o1 in ctx or o2 in ctx:
            continue
          kw = dict(ctx)
          kw[o1] = v1
          kw[o2] = v2
          add(kw, "cross2")
  return out


# --------------------------------------------------------------------------- array-valued options

ARRAY_FORMS = ("list", "tuple", "ndarray64", "ndarray32", "tf.constant", "tf.Variable")


def _form(v, form, tf):
  if form == "list":
    return list(v)
  if form == "tuple":
    return tuple(v)
  ints = all(isinstance(e, int) for e in v)
  if form == "ndarray64":
    return np.array(v, dtype=np.int64 if ints else np.float64)
  if form == "ndarray32":
    return np.array(v, dtype=np.int32 if ints else np.float32)
  if form == "tf.constant":
    return tf.constant(v, dtype=tf.int32 if ints else tf.float32)
  return tf.Variable(v, dtype=tf.int32 if ints else tf.float32, trainable=False)


def array_configs(name, tf):
  """per-channel (array-valued) options, in every form the signature allows: the scale `alpha` of
  quantized_linear (printed with str(np.array(alpha))), the integer bits of quantized_bits /
  quantized_relu / quantized_hswish as ndarray or tf.Variable (what QAdaptiveActivation(per_channel)
  stores; printed with str(ndarray)).  Three channels; values whose numpy text is positional."""
  out = []
  if name == "quantized_linear":
    for v in ([0.5, 0.25, 2.0], [1.0, 2.0, 4.0], [1, 2, 4], [1.5, 0.125, 16.0]):
      for form in ARRAY_FORMS:
        for ctx in ({"bits": 4}, {"bits": 6, "integer": 1, "keep_negative": False}):
          kw = dict(ctx)
          kw["alpha"] = (v, form)
          out.append(kw)
  elif name in ("quantized_bits", "quantized_relu", "quantized_hswish"):
    ctxs = {"quantized_bits": ({"bits": 8, "alpha": 1.0, "symmetric": 1}, {"bits": 6, "keep_negative": False}),
            "quantized_relu": ({"bits": 8}, {"bits": 6, "negative_slope": 0.25}),
            "quantized_hswish": ({"bits": 8},)}[name]
    for v in ([1, 2, 0], [2, 1, 3], [10, 2, 0], [3, 3, 3]):
      for form in ("ndarray64", "ndarray32", "tf.Variable"):
        for ctx in ctxs:
          kw = dict(ctx)
          kw["integer"] = (v, form)
          out.append(kw)
  res = []
  for kw in out:
    forms = {k: v[1] for k, v in kw.items() if isinstance(v, tuple) and len(v) == 2 and isinstance(v[1], str)}
    real = {k: (_form(v[0], v[1], tf) if k in forms else v) for k, v in kw.items()}
    plain = {k: (list(v[0]) if k in forms else v) for k, v in kw.items()}
    res.append((real, plain, forms))
  return res


SCALAR_FORMS = ("np.float32", "np.float64", "np.int64", "np.int32", "0-d ndarray")


def scalar_form_configs(name, defaults, rng_index):
  """every numeric option of the class's lattice once as a numpy scalar / 0-d array instead of a
  Python number (same value => same text, same rebuilt options); the form rotates with the
  option so that one quick run sees every form.  Eager tensors are NOT generated: str(tf.constant(4))
  is 'tf.Tensor(4, shape=(), dtype=int32)' for every option of every class (notes/C10.md)."""
  out = []
  lat = L.LATTICE[name]
  ctx = dict(lat["contexts"][-1])
  i = rng_index
  for o, vals in lat["options"].items():
    if o in NOT_SWEPT or o in ctx:
      continue
    for v in vals[:1]:
      if isinstance(v, bool) or not isinstance(v, (int, float)):
        continue
      if isinstance(v, float) and float(np.float32(v)) != v:
        continue
      for j in range(2):
        form = SCALAR_FORMS[(i + j * 2) % len(SCALAR_FORMS)]
        if isinstance(v, float) and form in ("np.int64", "np.int32"):
          form = "np.float32"
        if isinstance(v, int) and form in ("np.float32", "np.float64"):
          form = "np.int64"
        fv = {"np.float32": np.float32, "np.float64": np.float64, "np.int64": np.int64,
              "np.int32": np.int32, "0-d ndarray": np.array}[form](v)
        real = dict(ctx)
        real[o] = fv
        plain = dict(ctx)
        plain[o] = v
        out.append((real, plain, {o: form}))
      i += 1
  return out


def list_configs(name):
  """list-valued axis options of the three other classes that have them (binary has them in the C09
  lattice already).  A quantizer is a tf.Module, so the stored list is a tracked ListWrapper: until
  the second fix round __str__ printed "ListWrapper([0,1])" and the re-parse returned the DEFAULT
  quantizer.  Ordinary members of every clause now (no known entry: a return is a VIOLATION)."""
  if name == "quantized_bits":
    return [{"bits": 4, "alpha": "auto", "scale_axis": [0, 1]},
            {"bits": 4, "alpha": "auto_po2", "scale_axis": [0, 1], "elements_per_scale": [2, 3]},
            {"bits": 4, "alpha": "auto_po2", "scale_axis": 1, "elements_per_scale": [2]},
            {"alpha": "auto", "scale_axis": [1]},
            {"bits": 4, "alpha": "auto_po2", "scale_axis": [1, 0], "elements_per_scale": [3, 2]},
            {"alpha": "auto_po2", "scale_axis": [0], "elements_per_scale": 2},
            {"alpha": 0.0, "scale_axis": [0, 1]},
            {"bits": 4, "alpha": 0, "scale_axis": [1], "use_ste": False}]
  if name == "quantized_linear":
    return [{"bits": 4, "alpha": "auto", "scale_axis": [0, 1]}, {"alpha": "auto_po2", "scale_axis": [1]},
            {"bits": 4, "alpha": "auto_po2", "scale_axis": [1, 0]}, {"alpha": 0.0, "scale_axis": [0, 1]}]
  if name == "quantized_hswish":
    return [{"bits": 4, "alpha": "auto", "scale_axis": [0, 1]}, {"alpha": "auto_po2", "scale_axis": [1]},
            {"bits": 4, "alpha": "auto_po2", "scale_axis": [1, 0]}, {"alpha": 0, "scale_axis": [0, 1]}]
  return []


# --------------------------------------------------------------------------- long float options
# (strengthening round 3, seed C10-7) EVERY float-valued option of every class with values whose
# shortest repr needs many significant digits.  `str(float)` is the 17-significant-digit-exact
# shortest repr; any printing helper that formats with a fixed precision ("{:g}", "%g", "%.6f",
# round(x, n), np.float32(x)) agrees with it on the short values of the C09 lattice and splits here.

FLOAT_OPTION_NAMES = ("max_value", "alpha", "negative_slope", "relu_upper_bound", "threshold",
                      "temperature", "u", "relu_shift")
SQRT2 = math.sqrt(2.0)
CONSUMER_FAMILIES = ("pow2_small", "pow2_boundary", "sqrt2_boundary", "sqrt2_dyadic")


def _f32(v):
  return float(np.float32(v))


def long_float_values():
  """[(value, family, core)] — python floats; `core` values are used for every option in the
  quick tier, the others are sampled per option (all of them in the thorough tier and for the
  max_value of the po2 classes, whose consumer rounds log2(max_value))"""
  out = []

  def add(v, fam, core=False):
    v = float(v)
    if not any(v == w for w, _, _ in out):
      out.append((v, fam, core))
  # powers of two: exact decimal text of 7..14 digits; below 1e-4 repr switches to exponent form
  for k, core in ((9, True), (10, False), (12, False), (13, True), (14, False), (17, False), (20, True)):
    add(2.0 ** -k, "pow2_small", core)
  add(2.0 ** 20 + 1, "int_gt_1e6", True)
  add(3000001.0, "int_gt_1e6", True)
  add(2.0 ** 24 + 1, "int_gt_1e6")
  add(1234567.5, "decimal_gt_1e6")
  # short decimals that need 7..10 significant digits
  add(0.1234567, "decimal7", True)
  add(0.12345678, "decimal8")
  add(6.000001, "near_default")      # next to relu_upper_bound / temperature defaults
  add(8.000001, "near_default")
  add(255.00001, "near_default")     # next to u = 255.0
  add(7.999999999, "decimal10")
  add(1.0000001, "near_one")
  # full-length reprs (16-17 digits)
  add(1.0 / 3.0, "full17", True)
  add(2.0 / 3.0, "full17")
  add(0.1 + 0.2, "full17")
  add(_f32(0.1), "float32_rounded", True)
  add(_f32(1.0 / 3.0), "float32_rounded")
  add(_f32(6.000001), "float32_rounded")
  # exponent notation
  add(1e-7, "tiny", True)
  add(1.2345678e-7, "tiny")
  add(1.5e-5, "tiny")
  add(1e16, "huge")
  add(1.2345678901234568e+17, "huge")
  add(1e22, "huge")
  # rounding boundaries of the consumer (po2: log2 rounds at sqrt(2)*2^k; quadratic / floor at 2^k)
  for k in (0, -9, 3):
    b = SQRT2 * 2.0 ** k
    add(b, "sqrt2_boundary", k == 0)
    add(np.nextafter(b, 1e30), "sqrt2_boundary", k == -9)
    add(np.nextafter(b, 0.0), "sqrt2_boundary")
  add(1.414306640625, "sqrt2_dyadic")       # 11586/8192 > sqrt(2), 13 digits, exact decimal
  add(1.4141845703125, "sqrt2_dyadic")      # 11585/8192 < sqrt(2)
  add(0.70709228515625, "sqrt2_dyadic")
  add(np.nextafter(2.0 ** -9, 1.0), "pow2_boundary")
  add(np.nextafter(2.0 ** -9, 0.0), "pow2_boundary")
  add(np.nextafter(4.0, 0.0), "pow2_boundary")
  # negative values
  add(-2.0 ** -9, "negative", True)
  add(-0.1234567, "negative", True)
  add(-1.0 / 3.0, "negative")
  add(-1e-7, "negative")
  return out


def float_options(name, defaults):
  """options of class `name` that take a float: by name, or because the constructor default or a
  value of the C09 lattice is a float (qnoise_factor is not printable: recorded finding)"""
  own = defaults[name]
  known = L.LATTICE[name]["options"]
  out = []
  for o in own:
    if o in NOT_SWEPT or o == "qnoise_factor":
      continue
    kinds = [own[o]] + [w for w in known.get(o, []) if not isinstance(w, (list, np.ndarray))]
    if o in FLOAT_OPTION_NAMES or any(isinstance(w, float) for w in kinds):
      out.append(o)
  return out


def long_float_configs(name, tier, rng, cls, defaults, x_legal):
  """[(kw, family)]: every float option of the class x the long values (core values always, the
  others sampled per option in quick), alone and — for the po2 max_value — under the rounding
  modes of its consumer; kept when the constructor accepts them and the probe maps to finite numbers"""
  vals = long_float_values()
  out, seen = [], set()
  po2 = name in ("quantized_po2", "quantized_relu_po2")
  for o in float_options(name, defaults):
    consumer = po2 and o == "max_value"
    rest = [i for i, (_, _, core) in enumerate(vals) if not core]
    n_extra = len(rest) if (tier != "quick" or consumer) else (2 if name in STOCHASTIC else 4)
    extra = set(sorted(rng.choice(rest, size=min(n_extra, len(rest)), replace=False).tolist()))
    ctxs = [{}]
    if consumer:
      ctxs += [{"log2_rounding": "floor"}, {"quadratic_approximation": True}]
    elif o == "alpha":
      ctxs = [{"bits": 4}] if "bits" in defaults[name] else [{}]
    for i, (v, fam, core) in enumerate(vals):
      if not (core or i in extra):
        continue
      if o == "negative_slope" and fam == "pow2_boundary":
        # the constructors test `np.mod(np.log2(negative_slope), 1) == 0` in floating point, which
        # accepts 2^k(1 +- 1 ulp); the model's constructor tests "is a power of two" exactly.  A
        # validation question of C09's constructor model, not a printing one: not generated
        continue
      for j, ctx in enumerate(ctxs):
        if j and tier == "quick" and not (core or fam in CONSUMER_FAMILIES):
          continue   # the other rounding modes of the consumer: the values at ITS boundaries
        kw = dict(ctx)
        kw[o] = v
        k = L._key(kw)   # pylint: disable=protected-access
        if k in seen:
          continue
        seen.add(k)
        if legal(cls, kw, x_legal):
          out.append((kw, fam, o))
  return out


def _in_repr_domain(f):
  """the domain of the model's `reprFloat`: terminating decimal, <= 15 significant digits,
  1e-4 <= |f| < 1e16 (or zero)"""
  if f == 0:
    return True
  d = f.denominator
  while d % 2 == 0:
    d //= 2
  while d % 5 == 0:
    d //= 5
  if d != 1:
    return False
  a = abs(f)
  if a < fractions.Fraction(1, 10000) or a >= 10 ** 16:
    return False
  k = 0
  while (f * 10 ** k).denominator != 1:
    k += 1
  return k <= 17 and len(str(abs(int(f * 10 ** k)))) <= 15


def enc_model(v, stats=None):
  """protocol value of an option for the MODEL (device 1: a float is carried as a decimal that
  denotes it): a Python float whose shortest repr is a positional decimal with <= 15 significant
  digits is sent as that decimal — checked here to round to the very same binary64; every other
  float as its exact binary value (outside the domain of the model's reprFloat: the model answers
  '<float>' and only the clause oracle judges the case)"""
  if isinstance(v, (float, np.floating)) and not isinstance(v, bool) and math.isfinite(float(v)):
    v = float(v)
    exact = fractions.Fraction(v)
    if _in_repr_domain(exact):
      return L.enc(v)
    d = fractions.Fraction(repr(v))
    if float(d) == v and _in_repr_domain(d):
      if stats is not None:
        stats["model_float_as_shortest_decimal"] = stats.get("model_float_as_shortest_decimal", 0) + 1
      return {"f": [d.numerator, d.denominator]}
    return L.enc(v)
  return L.enc(v)


def enc_model_env(d, stats=None):
  return [[k, enc_model(v, stats)] for k, v in d.items()]


def bound_reading(cls, name, text):
  """Python's own reading of a printed text bound to the constructor's parameters: {parameter:
  python value}, or None when the text is not a Python call expression (numpy-style lists)"""
  py = python_read(text, name)
  if "err" in py:
    return None
  try:
    ba = inspect.signature(cls.__init__).bind(None, *[L.dec(a) for a in py["args"]],
                                              **{k: L.dec(v) for k, v in py["kwargs"]})
  except TypeError:
    return None
  out = dict(ba.arguments)
  out.pop("self", None)
  return out


def c10_attrs(q, names):
  """qlattice.attrs, with tracked sequences (tf.Module wraps list attributes in ListWrapper) read as lists"""
  import collections.abc
  out = {}
  for n in names:
    try:
      v = getattr(q, n)
      if isinstance(v, collections.abc.Sequence) and not isinstance(v, (str, bytes, list, tuple)):
        v = list(v)
      out[n] = L.enc(v)
    except Exception as e:  # pylint: disable=broad-except
      out[n] = {"s": "<unreadable:%s>" % L.err_tag(e)}
  return out


def ws_variants(s):
  """the same call with blanks where a call expression may have them: after the commas (inside
  number lists too), around `=`, after `(` and before `)`"""
  head, _, tail = s.partition("(")
  body = tail[:-1] if tail.endswith(")") else tail
  return [("blank_after_comma", head + "(" + body.replace(",", ", ") + ")"),
          ("blank_around_eq_and_parens", head + "( " + body.replace("=", " = ") + " )")]


# --------------------------------------------------------------------------- fixed random draws

PHI = 0.6180339887498949


class FixedDraws:
  """stand-in for tf.random.uniform (cf. harness/qkv/props/c08.py): element k of the n-th draw of
  a call is frac(level + k*phi + 0.37*n), a multiple of 2^-23 in [0,1) — the same tensor for the
  original and the rebuilt quantizer, so that equal options give bit-identical samples and a
  changed sampling probability moves at least the elements whose draw lies in between."""

  def __init__(self, tf):
    self.tf = tf
    self.level = 0.5
    self.calls = 0
    self.mods = []

  def install(self, mods):
    for m in mods:
      self.mods.append((m, m.uniform))
      m.uniform = self.fake
    return self

  def uninstall(self):
    for m, orig in self.mods:
      m.uniform = orig
    self.mods = []

  def fake(self, shape, minval=0, maxval=None, dtype=None, seed=None, name=None):  # pylint: disable=unused-argument
    tf = self.tf
    shp = [int(d) for d in np.asarray(shape).reshape(-1)]
    n = int(np.prod(shp)) if shp else 1
    u = (self.level + np.arange(n) * PHI + 0.37 * self.calls) % 1.0
    u = np.minimum(np.floor(u * 2.0 ** 23) / 2.0 ** 23, 1.0 - 2.0 ** -23).astype(np.float32)
    self.calls += 1
    u = tf.reshape(tf.constant(u), shp)
    if maxval is None and isinstance(minval, (int, float)) and minval == 0:
      return u
    if maxval is None:
      maxval = 1.0
    return u * (maxval - minval) + minval


def observe_training(q, xs, draws, levels):
  """training-phase outputs and scale under the fixed draws, one observation per level"""
  import tensorflow as tf
  import tensorflow.keras.backend as K
  obs = {}
  K.set_learning_phase(1)
  try:
    for i, x in enumerate(xs):
      for lv in levels:
        draws.level = lv
        draws.calls = 0
        key = "%d_%g" % (i, lv)
        try:
          y = q(tf.constant(x))
          obs["y1f" + key] = np.asarray(y.numpy() if hasattr(y, "numpy") else y, np.float32).tobytes()
          sc = getattr(q, "scale", None)
          if sc is not None:
            sc = np.asarray(K.eval(sc) if hasattr(sc, "numpy") or tf.is_tensor(sc) else sc, np.float32)
            obs["s1f" + key] = (sc.shape, sc.tobytes())
          else:
            obs["s1f" + key] = None
        except Exception as e:  # pylint: disable=broad-except
          obs["y1f" + key] = ("raises", L.err_tag(e))
  finally:
    K.set_learning_phase(0)
  return obs


# --------------------------------------------------------------------------- complete option set

def _py(v):
  """decoded protocol value; numbers compare exactly, across bool / int / float as Python does"""
  try:
    return L.dec(v)
  except Exception:  # pylint: disable=broad-except
    return v


def _enc_any(v):
  try:
    return L.enc(v)
  except Exception:  # pylint: disable=broad-except
    return {"s": "<%s>" % type(v).__name__}


def options_diff(q, q2, a0, a2, pnames):
  """fields of the complete option set in which the rebuilt quantizer is not Python-`==` the
  original: every constructor argument read back from the objects, every get_config() entry"""
  bad = {}
  for n in pnames:
    if not _py(a0[n]) == _py(a2[n]):
      bad[n] = {"original": a0[n], "rebuilt": a2[n], "read_from": "attribute"}
  try:
    c1, c2 = q.get_config(), q2.get_config()
  except Exception:  # pylint: disable=broad-except
    return bad
  for k in sorted(set(c1) | set(c2)):
    if k in bad:
      continue
    e1 = _enc_any(c1[k]) if k in c1 else {"s": "<absent>"}
    e2 = _enc_any(c2[k]) if k in c2 else {"s": "<absent>"}
    if not _py(e1) == _py(e2):
      bad[k] = {"original": e1, "rebuilt": e2, "read_from": "get_config"}
  return bad


# --------------------------------------------------------------------------- the check

def run(run: core.Run, tier: str):
  core.assert_repo_import()
  from qkeras import quantizers as Q
  from qkeras import quantizer_registry as R
  rng = np.random.default_rng(run.seed)
  run.extra["rule"] = (
      "grammar: per registered name, generated argument lists (0-6 arguments, positional then "
      "keyword, 1 in 6 shuffled; None/True/False, signed ints up to 12 digits, signed floats "
      "with optional exponent, quoted strings over a 90-symbol alphabet incl. 'True'/'None'/'1.5' "
      "as string contents, lists of 0-4 numbers) x 4 whitespace layouts (the 4th with blanks after "
      "keyword values); numpy-style lists (blanks, no commas, padding, '2.') with Python's reading of the "
      "comma form as reference; fixed list / repeated-keyword forms and junk text as separate streams; "
      "EVERY text through both public routes (safe_eval with a recorder, the real get_quantizer with the "
      "recorder bound in the module globals); histories in one process (120 texts: caller mutates the "
      "GetParams result, safe_eval with *params / **kwparams on the same argument text under another "
      "name, then the text again through both routes and under a third name; every text read a second "
      "time at the end); "
      "str direction: the C09 option lattice (qkv.qlattice) plus, per class and option, under every "
      "context of the class: the constructor defaults of the other classes for an option of that name "
      "(temperature 6.0 / 8.0, relu_upper_bound None / 6, negative_slope 0 / 0.0, symmetric 0 / 1 / False), "
      "the constants of the model's __str__ tables and the literals the live source of quantizers.py "
      "compares an attribute of that name with, the falsy-but-legal values 0 / 0.0 / False (a numeric "
      "scale alpha = 0 / 0.0 named explicitly for every class with a numeric scale), and pairs of "
      "those values (kept when the constructor accepts them and the probe maps to finite numbers); "
      "array-valued options in every argument form (alpha of quantized_linear as list / tuple / float64 / "
      "float32 ndarray / tf.constant / tf.Variable; integer bits of quantized_bits / quantized_relu / "
      "quantized_hswish as int64 / int32 ndarray / tf.Variable) on three-channel probes; list-valued axes "
      "(scale_axis, elements_per_scale; 16 configurations, 13 accepted by constructor and call; tracked lists of a tf.Module) of quantized_bits / "
      "quantized_linear / quantized_hswish; every printed text also with blanks after "
      "commas / around '=' / inside the parentheses, through QActivation(text), and again after a "
      "safe_eval call with a keyword override on the same text; "
      "long floats: every float-valued option of every class x values whose shortest repr needs 7-17 "
      "significant digits or exponent notation (2^-9..2^-20, integers > 10^6, 0.1234567, 1/3, float32-rounded "
      "0.1, 1e-7, 1e22, sqrt(2)*2^k and 2^k +- 1 ulp, values next to the defaults, negatives; 13 core values "
      "for every option + a seeded sample of the other 32; all 45 for the po2 max_value, the boundary families "
      "also under log2_rounding='floor' and quadratic_approximation), two per option also as np.float64, "
      "single options also assigned to a default object (setattr, then str). "
      "non-trivial = distinct text / distinct (class, keyword set)")
  run.assumptions.append(
      "pyparsing's matching of the GetParams grammar is modelled by comma segments up to the "
      "first ')' outside a bracketed number list (tied on generated and malformed text); "
      "int()/float() on ASCII decimal text "
      "without '_' / inf / nan; CPython rounds a decimal literal to binary64 identically in "
      "float(s) and in the compiler (device 1: the model carries the exact decimal)")
  run.assumptions.append(
      "str(numpy.ndarray) is modelled for 1-d arrays of integers and of floats in positional notation "
      "with <= 8 fraction digits (no exponent form, no line wrap); the array-valued option values stay "
      "inside that domain; a list value of 'integer' / 'alpha' stands for an ndarray / tensor (the model "
      "does not distinguish a Python list from an ndarray)")
  run.assumptions.append(
      "repr(float) is modelled for terminating decimals with <= 15 significant digits in "
      "[1e-4, 1e16); a Python float whose shortest repr is such a decimal is handed to the model as that "
      "decimal (device 1; the harness checks float(decimal) == value exactly); floats whose repr has 16-17 "
      "digits or an exponent are outside the model (it answers '<float>', histogram "
      "model_out_of_repr_domain): for them only the clause oracle speaks (str_same_options, "
      "str_text_denotes_option, outputs / gradients), nothing is compared with the model")
  reg = dict(R._QUANTIZERS_REGISTRY._container)  # pylint: disable=protected-access
  tables = core.run_driver("C09", [{"op": "tables"}])[0]
  model_cls = {c["name"]: c for c in tables["classes"]}
  names = list(tables["registry"])

  # ------------------------------------------------------------------ (a) grammar stream
  per_name = 40 if tier == "quick" else 400
  cases = []
  for name in names:
    pool = [p[0] for p in model_cls[name]["params"]]
    for _ in range(per_name):
      args = gen_args(rng, pool)
      for ws in (0, 1, 2):
        cases.append(("grammar", name, args, render(name, args, ws, rng), ws))
      if any(a["k"] is not None for a in args):
        cases.append(("kw_trailing_ws", name, args, render(name, args, 3, rng), 3))
  # forms the unrepaired parser misread (findings C10-parse-* of the first round, now fixed)
  for name in names[:4] if tier == "quick" else names:
    for _ in range(6):
      k = gen_ident(rng, [p[0] for p in model_cls[name]["params"]])
      a = gen_lit(rng, "int")
      b = gen_lit(rng, "int")
      lst = "[" + lit_text(a) + "," + lit_text(b) + "]"
      cases.append(("list_literal", name, None, "%s(%s=%s)" % (name, k, lst), 0))
      cases.append(("list_literal", name, None, "%s(%s)" % (name, lst), 0))
      cases.append(("list_literal", name, None, "%s(%s=[%s])" % (name, k, lit_text(a)), 0))
      cases.append(("list_literal", name, None, "%s(%s=[])" % (name, k), 0))
      cases.append(("repeated_keyword", name, None,
                    "%s(%s=%s,%s=%s)" % (name, k, lit_text(a), k, lit_text(b)), 0))
  # lists in the form __str__ prints for array-valued options (numpy: blanks, no commas); not
  # Python syntax — the reference reading is Python's reading of the comma form of the same tree
  np_ref = {}
  for name in names:
    pool = [p[0] for p in model_cls[name]["params"]]
    for _ in range(6 if tier == "quick" else 40):
      args = [a for a in gen_args(rng, pool, allow_bad_order=False)][:3]
      args.insert(int(rng.integers(0, 1 + sum(1 for a in args if a["k"] is None))),
                  {"k": None, "lit": gen_lit(rng, "list")})
      if rng.integers(2) == 0:
        k = gen_ident(rng, [q for q in pool if q not in {a["k"] for a in args}])
        if k not in {a["k"] for a in args}:
          args.append({"k": k, "lit": gen_lit(rng, "list")})
      parts = []
      for a in args:
        t = numpy_list_text(rng, a["lit"]) if a["lit"]["t"] == "list" else lit_text(a["lit"])
        parts.append(t if a["k"] is None else a["k"] + "=" + t)
      text = name + "(" + ",".join(parts) + ")"
      np_ref[text] = render(name, args, 0, rng)
      cases.append(("numpy_list", name, None, text, 0))
  lines, meta = [], []
  for form, name, args, text, ws in cases:
    if args is not None and ws == 0:
      lines.append({"op": "pycall", "name": name, "args": args})
    else:
      lines.append({"op": "parse", "s": text})
    meta.append((form, name, args, text, ws))
  outs = core.run_driver("C10", lines)
  first_reading = {}
  for (form, name, args, text, ws), o in zip(meta, outs):
    run.case(text, nontrivial=True,
             sample={"text": text} if len(run.samples) < 4 and ws == 2 else None)
    run.compared += 1
    impl = norm_call(impl_read(text, name))
    first_reading[text] = (name, impl)
    # the reference: Python's own reading (of the comma form of the tree for numpy-style lists)
    py = norm_call(python_read(np_ref.get(text, text), name))
    # the other public route: get_quantizer(text) must read the text exactly as safe_eval does
    impl_r = norm_call(route_read(Q, text, name))
    run.compared += 1
    if impl_r != impl:
      run.count("route_differs_" + form)
      run.violate("route_get_quantizer", {"form": form},
                  {"text": text, "safe_eval": impl, "get_quantizer": impl_r, "python": py,
                   "replay": "qkeras.quantizers.get_quantizer(%r) vs qkeras.safe_eval.safe_eval(%r, table)"
                             % (text, text)}, mirrored=False)
    if "parse" in o:
      if o["text"] != text:
        run.disagree("render", {"args": args}, text, o["text"])
      if not o["wf"]:
        run.disagree("generator.wf", {"text": text}, "generated", "not well-formed in the model")
      model = norm_call(o["parse"])
      mpy = norm_call(o["py"])
      # the model's reference reader vs Python itself
      if not same_reading(mpy, py):
        run.disagree("pycall_vs_python", {"text": text}, py, mpy)
    else:
      model = norm_call(o)
    if "err" in model and model["err"] != impl.get("err"):
      run.disagree("parse", {"text": text}, impl, model)
      mirrored = False
    elif "err" not in model and (impl.get("err") or impl != model):
      run.disagree("parse", {"text": text}, impl, model)
      mirrored = False
    else:
      mirrored = True
    run.count("form_%s_%s" % (form, "err_" + impl["err"] if "err" in impl else "ok"))
    if args is not None:
      for a in args:
        run.count("lit_" + a["lit"]["t"] + ("_kw" if a["k"] else "_pos"))
    # clause: safe_eval reads the call as Python does
    if not same_reading(impl, py):
      run.violate("parse_eq_python", {"form": form},
                  {"text": text, "safe_eval": impl, "python": py,
                   "replay": "qkeras.safe_eval.GetParams(%r)" % text[text.index("("):]},
                  mirrored=mirrored)
    elif form == "grammar" and "err" in impl and impl["err"] == "SyntaxError":
      run.count("order_rejected")

  # ------------------------------------------------------------------ (b) junk text (tie only)
  junk = ["f()", "f( )", "f(,1)", "f(1,)", "f(1,,2)", "f(1 2)", "f(=1)", "f(a=)", "f(a==1)", "f(a=1=2)",
          "f(1", "f(1)zzz", "f", "f(1)(2)", "f(a=(1))", "f(+3)", "f(08)", "f(.5)", "f(5.)", "f(1e5)",
          "f(1E5)", "f(-1.5E-3)", "f(true)", "f(x)", "f(a=x)", "f(--3)", "f(1e)", "f('')", "f(')",
          "f(1.5.2)", "f(a=1 2)", "f(a=3 4 5)", "f(a=[1.5 2])", "f(a=[1  2])", "f(a=[ 1 2 ])",
          "f(a=[1 'b'])", "f(a=[2 3])", "f([2 3])", "f(a=1,b)", "f(a=1,2,c=3)", "f(1,a=2,3)", "f(\t1\n,\n2)",
          "f(a\t=\t1)", "f(a= None)", "f(a=None )", "f(a=True )", "f('a=b')", "f(k='a=b')", "f( a = 'x y' )",
          "f(0x10)", "f(a=-3)", "f(a= -3)", "f(- 3)", "f(1,2,3,4,5,6,7,8,9)", "f(a=1;b=2)", "f(\"q\")",
          "f(a=\"x\",b='y')", "f(None)", "f(None,True,False)", "f(a=Nonee)", "f(TrueFalse)", "f(a=1.)", " f(1)",
          # brackets: where a number list is part of a token and where it is not
          "f(x[1,2]y)", "f(a=[1,2]x)", "f(a=[1,2)", "f('[a', b=']')", "f(a [1,2])", "f([1,2] x)",
          "f(a=[1,2) ])", "f([1,[2,3]])", "f(a=[1,'b'])", "f([1,2]=3)", "f(a=1 [2,3])", "f([,1])",
          "f([1,2,])", "f(a=[1\t2])", "f([ ])", "f([1;2])", "f(a=[+1,-2.5e-3])", "f(a=[1,2],a=[3])",
          "f(a=[1, 2] , b = [ ] )", "f([1,2],[3,4])", "f(a=[)", "f(a=])", "f(a=[1,2]])", "f(a=[[1,2])",
          "f('[1,2]')", "f(k='[1' ,j='2]')", "f([1,\n2])", "f(a=[1,2],3)"]
  for _ in range(60 if tier == "quick" else 600):
    # random damage to a generated text: delete / duplicate / insert one character
    args = gen_args(rng, [])
    t = list(render("f", args, int(rng.integers(0, 3)), rng))
    pos = int(rng.integers(1, len(t)))
    op = int(rng.integers(3))
    if op == 0:
      del t[pos]
    elif op == 1:
      t.insert(pos, t[pos])
    else:
      t.insert(pos, [",", "=", " ", ")", "'", "1", "e", ".", "-", "x"][int(rng.integers(10))])
    s = "".join(t)
    if "_" in s and any(ch.isdigit() for ch in s):
      continue   # int('1_0') accepts underscores, not modelled
    if s.count("(") == 0:
      continue
    if re.search(r"[eE][+-]?[0-9]{3,}", s):
      continue   # may overflow to inf / underflow in Python (|exponent| >= 100 is not needed for the
                 # tie; 1e400 is inf); the model computes 10^e exactly
    junk.append(s)
  jl = [{"op": "parse", "s": s} for s in junk]
  for s, o in zip(junk, core.run_driver("C10", jl)):
    name = s.split("(")[0]
    low = s.lower()
    if "inf" in low or "nan" in low:
      continue
    try:
      impl = norm_call(impl_read(s, name))
    except OverflowError:     # a literal that Python reads as inf: outside the exact-rational protocol
      run.count("junk_nonfinite_skipped")
      continue
    run.case(("junk", s), nontrivial=True)
    run.compared += 1
    model = norm_call(o)
    run.count("junk_" + ("err_" + impl["err"] if "err" in impl else "accepted"))
    if impl != model:
      run.disagree("parse.junk", {"text": s}, impl, model)
    impl_r = norm_call(route_read(Q, s, name))
    if impl_r != impl:
      run.disagree("parse.junk.route_get_quantizer", {"text": s}, impl_r, impl)

  # ------------------------------------------------------------------ (h) histories in one process
  # The reading of a text must not depend on what the process parsed before: the same argument
  # text again, under another name, after a call WITH keyword / positional overrides
  # (safe_eval(text, table, *params, **kwparams), the form of tests/safe_eval_test.py), after the
  # caller mutated what GetParams returned.  Reference: Python's reading of the text.
  from qkeras.safe_eval import safe_eval as real_safe_eval, GetParams as real_get_params
  hist = [(form, name, text) for (form, name, args, text, ws) in meta
          if form in ("grammar", "numpy_list", "list_literal") and ws in (0, 1)
          and "err" not in first_reading[text][1] and first_reading[text][1]["called"]]
  n_hist = 120 if tier == "quick" else 1200
  pick = sorted(rng.choice(len(hist), size=min(n_hist, len(hist)), replace=False).tolist()) if hist else []
  ov_pool = [False, 7, "ov", None, 2.5, [1, 2]]
  hlines, hmeta = [], []
  for i in pick:
    form, name, text = hist[i]
    argtext = text[len(name):]
    ref = norm_call(python_read(np_ref.get(text, text), name))
    if "err" in ref:
      continue
    run.case(("history", text), nontrivial=True)
    keys = [k for k, _ in ref["kwargs"]]
    ov = {}
    if keys and rng.integers(2) == 0:
      ov[keys[int(rng.integers(len(keys)))]] = ov_pool[int(rng.integers(len(ov_pool)))]
    ov["qkv_override"] = ov_pool[int(rng.integers(len(ov_pool)))]
    params = [3] if rng.integers(3) == 0 else []
    steps = []
    # 1. the caller mutates the objects GetParams handed out
    try:
      a, k = real_get_params(argtext)
      a.append("qkv_mutated")
      k["qkv_mutated"] = 1
      for v in list(a) + list(k.values()):
        if isinstance(v, list):
          v.append(99)
      steps.append(("after_mutating_GetParams_result", norm_call(impl_read(text, name))))
    except BaseException as e:  # pylint: disable=broad-except
      steps.append(("after_mutating_GetParams_result", {"err": L.err_tag(e)}))
    # 2. a call with overrides on the same argument text under ANOTHER name
    rec = _Rec()
    try:
      got = norm_call(_as_call(real_safe_eval("qkv_other" + argtext, {"qkv_other": rec}, *params, **ov)))
    except BaseException as e:  # pylint: disable=broad-except
      got = {"err": L.err_tag(e)}
    merged = dict((k2, v2) for k2, v2 in ref["kwargs"])
    for k2, v2 in ov.items():
      merged[k2] = L.enc(v2)
    want = {"args": ref["args"] + [L.enc(x) for x in params],
            "kwargs": [[k2, v2] for k2, v2 in merged.items()], "called": True}
    run.compared += 1
    hlines.append({"op": "override", "s": "qkv_other" + argtext, "params": [L.enc(x) for x in params],
                   "kw": L.enc_env(ov)})
    hmeta.append((text, got))
    if not same_reading(got, want):
      run.violate("override_merge", {"form": form},
                  {"text": "qkv_other" + argtext, "params": params, "overrides": L.enc_env(ov),
                   "safe_eval": got, "expected": want}, mirrored=False)
    # 3. the same text again, through both routes, and the same argument text under a third name
    steps.append(("after_override_call", norm_call(impl_read(text, name))))
    steps.append(("after_override_call.get_quantizer", norm_call(route_read(Q, text, name))))
    steps.append(("after_override_call.other_name", norm_call(impl_read("qkv_third" + argtext, "qkv_third"))))
    for step, got2 in steps:
      run.compared += 1
      run.count("history_" + step)
      if not same_reading(got2, ref) or got2 != first_reading[text][1]:
        run.violate("parse_eq_python", {"form": form, "history": step},
                    {"text": text, "reading": got2, "python": ref, "first_reading": first_reading[text][1],
                     "history": "GetParams(%r) result mutated; safe_eval(%r, table, *%r, **%r); then this read"
                                % (argtext, "qkv_other" + argtext, params, ov)}, mirrored=False)
  for (text, got), o in zip(hmeta, core.run_driver("C10", hlines)):
    if norm_call(o) != got and not ("err" in got and norm_call(o).get("err") == got["err"]):
      if not same_reading(norm_call(o), got):
        run.disagree("override", {"text": text}, got, norm_call(o))
  # second pass: every text of the grammar stream read once more at the end of the history
  for text, (name, first) in first_reading.items():
    again = norm_call(impl_read(text, name))
    run.compared += 1
    if again != first:
      run.count("second_pass_differs")
      run.violate("parse_eq_python", {"form": "second_pass", "history": "end_of_process"},
                  {"text": text, "first_reading": first, "second_reading": again}, mirrored=False)

  # ------------------------------------------------------------------ (c) str direction
  import tensorflow as tf
  xs_all = L.probes(rng)
  xs_main = xs_all if tier != "quick" else [xs_all[0], xs_all[2]]
  xs_arr = [np.ascontiguousarray(xs_all[0][:, :3]), np.ascontiguousarray(xs_all[2][..., :3])]
  # the case splits of the printing code: the model's statement tables, the live signatures, the
  # literals the live source compares options with
  anchors_raw = core.run_driver("C10", [{"op": "anchors"}])[0]["classes"]
  anchors = {}
  for c in anchors_raw:
    for r in c["rows"]:
      if r["cond"] == "ne":
        v = L.dec(r["const"])
        if not any(_same(v, w) for w in anchors.setdefault(r["name"], [])):
          anchors[r["name"]].append(v)
      if not r["anchored"]:
        run.disagree("model.anchored", {"class": c["cls"], "row": r}, "n/a", "statement not anchored at the class default")
  unprinted = {c["cls"]: c["unprinted"] for c in anchors_raw}
  defaults = live_defaults(reg)
  harvested = harvest_source_constants(Q)
  run.extra["source_constants_harvested"] = {k: [repr(v) for v in vs] for k, vs in sorted(harvested.items())
                                             if any(k in d for d in defaults.values())}
  draws = FixedDraws(tf)
  rmods = [Q.tf.random] + ([tf.random] if tf.random is not Q.tf.random else [])
  levels_full = [(k + 0.5) / 8.0 for k in range(8)]
  slines, srecs = [], []
  for name in names:
    cls = reg.get(name)
    if cls is None:
      continue
    pnames = [p[0] for p in model_cls[name]["params"]]
    extras = extra_option_values(name, defaults, harvested, anchors)
    run.extra.setdefault("cross_values", {})[name] = {o: ["%r (%s)" % (v, why) for v, why in vs]
                                                      for o, vs in sorted(extras.items())}
    todo = [(kind, kw, kw, None) for kind, kw in c10_configs(name, tier, rng, cls, extras, tf.constant(xs_all[0]))]
    todo += [("array", real, plain, forms) for real, plain, forms in array_configs(name, tf)]
    todo += [("listopt", kw, kw, None) for kw in list_configs(name) if legal(cls, kw, tf.constant(xs_all[0]))]
    todo += [("scalarform", real, plain, forms)
             for real, plain, forms in scalar_form_configs(name, defaults, names.index(name))
             if legal(cls, plain, tf.constant(xs_all[0]))]
    # every float-valued option with values whose shortest repr needs many digits (seed C10-7)
    lf = long_float_configs(name, tier, rng, cls, defaults, tf.constant(xs_all[0]))
    todo += [("longfloat", kw, kw, {o: "float:" + fam}) for kw, fam, o in lf]
    done_o = {}
    for kw, fam, o in lf:
      # the same value held as np.float64 (two per option): same text, same rebuilt options
      if len(kw) == 1 and done_o.get(o, 0) < 2:
        done_o[o] = done_o.get(o, 0) + 1
        todo.append(("scalarform", {o: np.float64(kw[o])}, kw, {o: "np.float64:" + fam}))
    for kind, kw, kw_plain, forms in todo:
      if "post_training_scale" in kw:
        continue
      run.count("lattice_" + kind)
      rec = {"class": name, "kw": kw_plain, "kind": kind, "forms": forms}
      # array-valued options are per channel: probes with three channels
      xs = xs_main if kind != "array" else xs_arr
      try:
        q = cls(**kw)
      except Exception as e:  # pylint: disable=broad-except
        continue
      slines.append({"op": "str", "cls": name, "kw": enc_model_env(kw_plain, run.extra.setdefault("model_floats", {}))})
      rec["kw_exact"] = L.enc_env(kw_plain)
      srecs.append(rec)
      if kind == "longfloat":
        run.count("longfloat_%s.%s" % (name, sorted(forms)[0]))
        run.count("longfloat_family_" + sorted(forms.values())[0].split(":")[1])
      run.case(("str", name, repr(L.enc_env(kw_plain)), repr(forms)), nontrivial=True)
      a0 = c10_attrs(q, pnames)
      rec["attrs"] = a0
      try:
        s = str(q)
        rec["str"] = {"ok": s}
      except Exception as e:  # pylint: disable=broad-except
        rec["str"] = {"err": L.err_tag(e)}
        continue
      # the printed text read by PYTHON and bound to the constructor's parameters: every float option
      # must be denoted exactly (independent of safe_eval and of the model)
      br = bound_reading(cls, name, s) if s.count("(") == 1 else None
      if br is not None:
        run.count("str_text_read_by_python")
        bad = {}
        for n in pnames:
          if n in NOT_SWEPT or n == "qnoise_factor":
            continue
          v0 = _py(a0[n])
          if isinstance(v0, float) and not isinstance(v0, bool):
            v1 = br.get(n, defaults[name].get(n))
            if isinstance(v1, (list, tuple, np.ndarray)) or not v1 == v0:
              bad[n] = v1
        if bad:
          rec["text_denotes"] = bad
      # history on one object: the option assigned through the public attribute of a default object
      if kind == "longfloat" and len(kw) == 1:
        try:
          q_set = cls()
          (o_set, v_set), = kw.items()
          setattr(q_set, o_set, v_set)
          s_set = str(q_set)
        except Exception as e:  # pylint: disable=broad-except
          s_set = "<raises %s>" % L.err_tag(e)
        run.count("history_setattr_then_str")
        if s_set != s:
          rec["str_after_setattr"] = s_set
      try:
        q2 = Q.get_quantizer(s)
        a2 = c10_attrs(q2, pnames)
        rec["reparse"] = {"ok": a2}
      except BaseException as e:  # pylint: disable=broad-except
        rec["reparse"] = {"err": L.err_tag(e)}
        continue
      # the same text with blanks, and through the layer route QActivation(text)
      rec["routes"] = []
      for vname, sv in ws_variants(s):
        try:
          av = c10_attrs(Q.get_quantizer(sv), pnames)
        except BaseException as e:  # pylint: disable=broad-except
          av = {"err": L.err_tag(e)}
        if av != a2:
          rec["routes"].append((vname, sv, av))
      if kind in ("default", "context", "array", "cross") or len(srecs) % 5 == 0:
        try:
          from qkeras import QActivation
          layer = QActivation(s)
          av = c10_attrs(layer.quantizer, pnames)
          cfg = layer.get_quantization_config()
          if av != a2 or cfg != s:
            rec["routes"].append(("QActivation", s, {"attrs": av, "get_quantization_config": cfg}))
          run.count("route_QActivation")
        except BaseException as e:  # pylint: disable=broad-except
          rec["routes"].append(("QActivation", s, {"err": L.err_tag(e)}))
      # history on the real classes: a call with a keyword override, then the same text again
      try:
        n_pos = len(real_get_params(s[s.index("("):])[0]) if s.count("(") == 1 else len(pnames)
      except BaseException:  # pylint: disable=broad-except
        n_pos = len(pnames)
      kw_names = [n for n in pnames[n_pos:] if n not in NOT_SWEPT]
      if len(srecs) % 3 == 0 and kw_names:
        o_name = kw_names[len(srecs) % len(kw_names)]
        o_val = L.dec(a0[o_name])
        try:
          q3 = real_safe_eval(s, vars(Q), **{o_name: o_val})
          a3 = c10_attrs(q3, pnames)
          q4 = Q.get_quantizer(s)
          a4 = c10_attrs(q4, pnames)
          run.count("history_real_class")
          if a4 != a2:
            rec["routes"].append(("after_override_call:%s" % o_name, s, a4))
          if not _py(a3[o_name]) == _py(a0[o_name]):
            rec["routes"].append(("override_not_applied:%s" % o_name, s, a3))
        except BaseException as e:  # pylint: disable=broad-except
          rec["routes"].append(("after_override_call:%s" % o_name, s, {"err": L.err_tag(e)}))
      stochastic = name in STOCHASTIC or bool(kw.get("use_stochastic_rounding")) or \
          bool(a2.get("use_stochastic_rounding"))
      phases = (0, 1) if stochastic else (0,)
      # (a) the complete option set, read back from the two objects
      rec["opt_diff"] = options_diff(q, q2, a0, a2, pnames)
      rec["options"] = {n: a0[n] for n in pnames}
      rec["rebuilt_options"] = {n: a2[n] for n in pnames}
      # (b) behaviour; stochastic classes also in the training phase under fixed draws
      levels = () if not stochastic else (levels_full if name in STOCHASTIC else levels_full[1::4])

      def watch(qq):
        o = L.observe(qq, xs, phases)
        if levels:
          draws.install(rmods)
          try:
            o.update(observe_training(qq, xs, draws, levels))
          finally:
            draws.uninstall()
        return o
      o0 = watch(q)
      rec["call_raises"] = any(isinstance(v, tuple) and v and v[0] == "raises" for k, v in o0.items()
                               if not k.startswith("y1"))
      o2 = watch(q2)
      kinds = L.obs_diff(o0, o2)
      # which observations differ: y/s/g + phase (+ 'f' = fixed draws) + probe index (+ draw level)
      rec["obs_differing"] = sorted(k for k in o0 if o0[k] != o2.get(k))[:8]
      diff = [n for n in pnames if a0[n] != a2[n]]
      rec["diff_fields"] = diff
      rec["kinds"] = sorted(kinds)
      # history on one object: the quantizer has now been called on tensors of two ranks, in both
      # phases, with gradients — its text must still be the text it printed when fresh
      try:
        s_after = str(q)
      except Exception as e:  # pylint: disable=broad-except
        s_after = "<raises %s>" % L.err_tag(e)
      if s_after != s:
        rec["str_after_use"] = s_after
      if levels:
        run.count("training_fixed_draws_observed")
      if kinds and len(diff) > 1:
        culprits = []
        for f in diff:
          kw3 = {k: L.dec(v) for k, v in a2.items()}
          for g in diff:
            if g != f:
              kw3[g] = L.dec(a0[g])
          try:
            q3 = cls(**kw3)
            if L.obs_diff(o0, watch(q3)):
              culprits.append(f)
          except Exception:  # pylint: disable=broad-except
            culprits.append(f)
        rec["culprits"] = culprits or ["+".join(diff)]
      elif kinds:
        rec["culprits"] = diff or ["<no field differs>"]
  n_unobserved = 0
  for rec, line, o in zip(srecs, slines, core.run_driver("C10", slines)):
    name = rec["class"]
    case = {"class": name, "kw": line["kw"]}
    run.compared += 1
    mirrored = True
    if "err" in o["construct"]:
      run.disagree("str.construct", case, "ok", o["construct"])
      continue
    # a float whose repr is outside the domain of the model's reprFloat (> 15 significant digits,
    # exponent notation): the model answers "<float>"; the case is judged by the clause oracle only
    outside = "<float>" in o["str"].get("ok", "")
    if outside:
      run.count("model_out_of_repr_domain")
      mirrored = False
    elif rec["str"] != o["str"]:
      run.disagree("str", case, rec["str"], o["str"])
      mirrored = False
    run.count("str_%s" % ("ok" if "ok" in rec["str"] else rec["str"]["err"]))
    if "err" in rec["str"]:
      run.violate("str_raises", {"class": name, "error": rec["str"]["err"]},
                  {"kw": rec["kw_exact"], "replay": "str(%s(**kw))" % name}, mirrored=mirrored)
      continue
    for f, v1 in sorted(rec.get("text_denotes", {}).items()):
      run.count("str_text_denotes_other_value_%s.%s" % (name, f))
      run.violate("str_text_denotes_option", {"class": name, "field": f},
                  {"class": name, "kw": rec["kw_exact"], "kw_repr": repr(rec["kw"]), "str": rec["str"]["ok"],
                   "field": f, "original": rec["attrs"][f], "original_repr": repr(_py(rec["attrs"][f])),
                   "python_reads_the_text_as": repr(v1),
                   "replay": "q=%s(**kw); eval(str(q)) with %s bound to the class: .%s != q.%s" % (name, name, f, f)},
                  mirrored=False)
    if "str_after_setattr" in rec:
      run.violate("str_after_setattr", {"class": name},
                  {"class": name, "kw": rec["kw_exact"], "str_fresh": rec["str"]["ok"],
                   "str_of_default_object_after_setattr": rec["str_after_setattr"],
                   "replay": "q=%s(); q.<option> = value; str(q) vs str(%s(<option>=value))" % (name, name)},
                  mirrored=False)
    r, m = rec["reparse"], o["reparse"]
    if outside:
      pass
    elif ("err" in r) != ("err" in m) or ("err" in r and r["err"] != m["err"]):
      run.disagree("reparse", case, r.get("err", "ok"), m.get("err", "ok"))
      mirrored = False
    elif "ok" in r:
      mm = [[k, as_float64(v)] for k, v in m["ok"]]
      if L.canon_env(list(r["ok"].items())) != L.canon_env(mm):
        run.disagree("reparse.fields", {"class": name, "kw": line["kw"], "str": rec["str"]["ok"]},
                     L.canon_env(list(r["ok"].items())), L.canon_env(mm))
        mirrored = False
    if "err" in r:
      run.count("reparse_" + r["err"])
      opts = sorted(k for k in rec["kw"])
      run.violate("reparse_raises", {"class": name, "error": r["err"]},
                  {"kw": rec["kw_exact"], "forms": rec.get("forms"), "str": rec["str"]["ok"], "options": opts,
                   "replay": "get_quantizer(str(%s(**kw)))" % name}, mirrored=mirrored)
      continue
    if "str_after_use" in rec:
      run.count("str_changed_after_use")
      run.violate("str_stable_after_use", {"class": name},
                  {"class": name, "kw": rec["kw_exact"], "forms": rec.get("forms"), "str_fresh": rec["str"]["ok"],
                   "str_after_calls": rec["str_after_use"],
                   "replay": "q=%s(**kw); s=str(q); q(x) in both phases; str(q) != s" % name}, mirrored=False)
    # a printed text with a second "(" makes safe_eval drop EVERY argument: one violation for
    # the case instead of one per option that fell back to its default
    dropped = rec["str"]["ok"].count("(") != 1
    if dropped:
      mm = re.search(r"(?:(\w+)=)?(\w+)\(", rec["str"]["ok"][rec["str"]["ok"].index("(") + 1:])
      run.count("str_all_arguments_dropped")
      run.violate("str_all_arguments_dropped",
                  {"class": name, "option": (mm.group(1) or "<positional>") if mm else "?",
                   "wrapper": mm.group(2) if mm else "?"},
                  {"class": name, "kw": rec["kw_exact"], "options": rec["options"], "str": rec["str"]["ok"],
                   "rebuilt_options": rec["rebuilt_options"],
                   "replay": "q=%s(**kw); get_quantizer(str(q)) is the default %s()" % (name, name)},
                  mirrored=mirrored)
      continue
    # the other routes / layouts / histories must rebuild exactly what get_quantizer(str(q)) rebuilt
    for vname, sv, av in rec.get("routes", []):
      run.count("route_differs_" + vname.split(":")[0])
      run.violate("str_route_independent", {"class": name, "route": vname.split(":")[0]},
                  {"class": name, "kw": rec["kw_exact"], "forms": rec.get("forms"), "options": rec["options"],
                   "str": rec["str"]["ok"], "text": sv, "route": vname, "rebuilt_options": rec["rebuilt_options"],
                   "rebuilt_through_route": av,
                   "replay": "get_quantizer(%r) / QActivation(%r).quantizer vs get_quantizer(%r)" % (sv, sv, rec["str"]["ok"])},
                  mirrored=False)
    # clause (a): every option of the rebuilt quantizer == the original's (one violation per field)
    opt_diff = rec.get("opt_diff", {})
    m_diff = set(o.get("diff_eq") or [])
    for f, d in sorted(opt_diff.items()):
      run.count("str_option_differs_%s.%s" % (name, f))
      run.violate("str_same_options", {"class": name, "field": f, "falsy_original": not _py(d["original"])},
                  {"class": name, "kw": rec["kw_exact"], "options": rec["options"], "str": rec["str"]["ok"],
                   "rebuilt_options": rec["rebuilt_options"], "field": f, "original": d["original"],
                   "rebuilt": d["rebuilt"], "read_from": d["read_from"],
                   "model_expects_difference": f in m_diff,
                   "unprintable_option": f in unprinted.get(name, []),
                   "replay": "q=%s(**kw); q2=get_quantizer(str(q)); q2.%s vs q.%s" % (name, f, f)},
                  mirrored=mirrored and (f in m_diff or d["read_from"] == "get_config"))
    if not opt_diff:
      run.count("str_options_all_equal")
    kinds = set(rec.get("kinds", []))
    if rec.get("call_raises"):
      kinds = set()
    if kinds:
      clause = "str_same_output" if kinds & {"output", "scale"} else "str_same_gradient"
      for f in rec["culprits"]:
        run.count("str_differs_%s.%s" % (name, f))
        run.violate(clause, {"class": name, "field": f,
                             "falsy_original": f in rec["options"] and not _py(rec["options"][f])},
                    {"class": name, "kw": rec["kw_exact"], "options": rec["options"], "str": rec["str"]["ok"],
                     "rebuilt_options": rec["rebuilt_options"], "differs": sorted(kinds),
                     "observations_differing": rec.get("obs_differing"),
                     "fields_changed": rec["diff_fields"],
                     "replay": "q=%s(**kw); get_quantizer(str(q))(x) vs q(x)" % name},
                    mirrored=mirrored)
    elif opt_diff:
      n_unobserved += 1
      run.count("str_option_changed_but_no_observable_difference")
    elif rec.get("diff_fields"):
      run.count("str_option_retyped_only")    # True -> 1 and the like: Python-== values
    else:
      run.count("str_roundtrip_exact")
  run.extra["str_options_changed_without_observable_difference"] = n_unobserved
