"""C10 — quantizer strings (DESIGN.md §4 C10).

(a) grammar stream : generated call expressions over the literal grammar (syntax trees ->
    text, whitespace variants) through the REAL safe_eval with the constructor replaced by a
    recorder, vs the model parser, vs the model's reference reader `pyCall`, vs Python's own
    compile()/ast reading of the same text (clause: safe_eval == Python).
(b) formerly carved-out forms, now ordinary members of the clause (repaired in the fix round):
    list literals `[a,b]` / `[a]` / `[]`, repeated keywords (SyntaxError as in Python), blanks
    after keyword values; and junk text (error kinds / accepted junk, tie only).
(c) str direction over the C09 option lattice: str(q) vs model print (string equality),
    get_quantizer(str(q)) vs the model's verdict and rebuilt fields, and the clause oracle:
    no exception, identical outputs / scale / gradients on probe tensors.
"""
import ast
import keyword
import re

import numpy as np

from .. import core, qlattice as L

STOCHASTIC = {"bernoulli", "stochastic_binary", "stochastic_ternary"}
STR_ALPHABET = list("abcdefghijklmnopqrstuvwxyzABCDEFGHIJKLMNOPQRSTUVWXYZ0123456789_-.+*:/[]{}!@#$%^&~<>?|;")
IDENT0 = list("abcdefghijklmnopqrstuvwxyz_")
IDENT = IDENT0 + list("0123456789ABCXYZ")


# --------------------------------------------------------------------------- literal syntax trees

def _digits(rng, lo, hi, leading_zero_ok=False):
  n = int(rng.integers(lo, hi + 1))
  ds = "".join(str(int(d)) for d in rng.integers(0, 10, size=n))
  if not leading_zero_ok and len(ds) > 1 and ds[0] == "0":
    ds = str(int(rng.integers(1, 10))) + ds[1:]
  return ds


def gen_lit(rng, kind=None):
  kind = kind or ["none", "bool", "int", "int", "float", "float", "str", "list"][int(rng.integers(8))]
  if kind == "list":
    n = [0, 1, 2, 2, 3, 4][int(rng.integers(6))]
    return {"t": "list", "ns": [gen_lit(rng, ["int", "int", "float"][int(rng.integers(3))])
                                for _ in range(n)]}
  if kind == "none":
    return {"t": "none"}
  if kind == "bool":
    return {"t": "bool", "b": bool(rng.integers(2))}
  if kind == "int":
    return {"t": "int", "neg": bool(rng.integers(3) == 0), "ds": _digits(rng, 1, [1, 1, 2, 3, 12][int(rng.integers(5))])}
  if kind == "float":
    ex = None
    if rng.integers(3) == 0:
      ex = {"neg": bool(rng.integers(2)), "ds": _digits(rng, 1, 2, leading_zero_ok=True)}
      if int(ex["ds"]) > 30:
        ex["ds"] = "7"
    return {"t": "float", "neg": bool(rng.integers(3) == 0), "ip": _digits(rng, 1, 4),
            "fp": _digits(rng, 1, 6, leading_zero_ok=True), "ex": ex}
  special = ["True", "None", "False", "1.5", "12", "[1", "auto", "auto_po2", "rnd", "floor", ""]
  if rng.integers(3) == 0:
    cs = special[int(rng.integers(len(special)))]
  else:
    cs = "".join(STR_ALPHABET[int(i)] for i in rng.integers(0, len(STR_ALPHABET), size=int(rng.integers(0, 9))))
  return {"t": "str", "dq": bool(rng.integers(2)), "cs": cs}


def lit_text(l, sep=","):
  t = l["t"]
  if t == "list":
    return "[" + sep.join(lit_text(e) for e in l["ns"]) + "]"
  if t == "none":
    return "None"
  if t == "bool":
    return "True" if l["b"] else "False"
  if t == "int":
    return ("-" if l["neg"] else "") + l["ds"]
  if t == "float":
    s = ("-" if l["neg"] else "") + l["ip"] + "." + l["fp"]
    if l["ex"] is not None:
      s += "e" + ("-" if l["ex"]["neg"] else "") + l["ex"]["ds"]
    return s
  q = '"' if l["dq"] else "'"
  return q + l["cs"] + q


def gen_ident(rng, pool):
  if pool and rng.integers(3) != 0:
    return pool[int(rng.integers(len(pool)))]
  n = int(rng.integers(1, 8))
  k = IDENT0[int(rng.integers(len(IDENT0)))] + "".join(IDENT[int(i)] for i in rng.integers(0, len(IDENT), size=n - 1))
  return k + "_" if keyword.iskeyword(k) else k   # reserved words are not identifiers


def gen_args(rng, pool, allow_bad_order=True):
  n = int(rng.integers(0, 7))
  n_pos = int(rng.integers(0, n + 1))
  args, used = [], set()
  for i in range(n):
    if i < n_pos:
      args.append({"k": None, "lit": gen_lit(rng)})
    else:
      k = gen_ident(rng, pool)
      tries = 0
      while k in used and tries < 20:
        k = gen_ident(rng, [])
        tries += 1
      if k in used:
        continue
      used.add(k)
      args.append({"k": k, "lit": gen_lit(rng)})
  if allow_bad_order and n >= 2 and rng.integers(6) == 0:
    perm = rng.permutation(len(args)).tolist()
    args = [args[i] for i in perm]
  return args


def render(name, args, ws=0, rng=None):
  """ws=0 canonical (must equal the model's render); 1: blank after commas (inside lists too);
  2: random blanks where Python ignores them, inside lists too (never after a keyword value);
  3: also a blank after every argument (i.e. after keyword values)"""
  def blank():
    if ws < 2:
      return ""
    return ["", " ", "  ", "\t", " \n "][int(rng.integers(5))]
  parts = []
  for i, a in enumerate(args):
    if ws == 0:
      t = lit_text(a["lit"])
    elif ws == 1:
      t = lit_text(a["lit"], ", ")
    else:
      t = lit_text(a["lit"], blank() + "," + blank())
    last = i == len(args) - 1
    if a["k"] is None:
      s = blank() + t + blank()
    else:
      s = blank() + a["k"] + blank() + "=" + blank() + t + (" " if ws == 3 else "")
    parts.append(s)
  sep = ", " if ws == 1 else ","
  return name + "(" + sep.join(parts) + ")"


# --------------------------------------------------------------------------- readers

class _Rec:
  def __init__(self):
    self.calls = []

  def __call__(self, *a, **k):
    self.calls.append((a, k))
    return ("REC", a, k)


def impl_read(text, name):
  """the REAL safe_eval on `text` with `name` bound to a recorder"""
  from qkeras.safe_eval import safe_eval
  rec = _Rec()
  try:
    r = safe_eval(text, {name: rec})
  except BaseException as e:  # pylint: disable=broad-except
    return {"err": L.err_tag(e)}
  if isinstance(r, tuple) and r and r[0] == "REC":
    return {"args": [L.enc(x) for x in r[1]], "kwargs": [[k, L.enc(v)] for k, v in r[2].items()],
            "called": True}
  return {"args": [], "kwargs": [], "called": False}


def python_read(text, name):
  """Python's own reading: compile() for the syntax verdict, ast.literal_eval per argument"""
  try:
    compile(text, "<quantizer>", "eval")
    tree = ast.parse(text, mode="eval").body
  except SyntaxError:
    return {"err": "SyntaxError"}
  if not (isinstance(tree, ast.Call) and isinstance(tree.func, ast.Name) and tree.func.id == name):
    return {"err": "not-a-call"}
  try:
    return {"args": [L.enc(ast.literal_eval(a)) for a in tree.args],
            "kwargs": [[k.arg, L.enc(ast.literal_eval(k.value))] for k in tree.keywords], "called": True}
  except (ValueError, SyntaxError):
    return {"err": "not-literal"}


def as_float64(v):
  """model values carry the exact decimal of a float literal; CPython rounds it to binary64"""
  if isinstance(v, dict):
    if "f" in v:
      return L.enc(L.dec(v))
    if "l" in v:
      return {"l": [as_float64(e) for e in v["l"]]}
  return v


def norm_call(c):
  if "err" in c:
    return {"err": c["err"]}
  return {"args": [as_float64(a) for a in c["args"]],
          "kwargs": [[k, as_float64(v)] for k, v in c["kwargs"]], "called": bool(c.get("called", True))}


def same_reading(a, b):
  """argument readings agree (keyword order is not part of the meaning of a call)"""
  if "err" in a or "err" in b:
    return a.get("err") == b.get("err")
  return a["args"] == b["args"] and sorted(a["kwargs"]) == sorted(b["kwargs"])


# --------------------------------------------------------------------------- the check

def run(run: core.Run, tier: str):
  core.assert_repo_import()
  from qkeras import quantizers as Q
  from qkeras import quantizer_registry as R
  rng = np.random.default_rng(run.seed)
  run.extra["rule"] = (
      "grammar: per registered name, generated argument lists (0-6 arguments, positional then "
      "keyword, 1 in 6 shuffled; None/True/False, signed ints up to 12 digits, signed floats "
      "with optional exponent, quoted strings over a 90-symbol alphabet incl. 'True'/'None'/'1.5' "
      "as string contents, lists of 0-4 numbers) x 4 whitespace layouts (the 4th with blanks after "
      "keyword values); fixed list / repeated-keyword forms and junk text as separate streams; "
      "str direction: the C09 option lattice (qkv.qlattice). non-trivial = distinct text / "
      "distinct (class, keyword set)")
  run.assumptions.append(
      "pyparsing's matching of the GetParams grammar is modelled by comma segments up to the "
      "first ')' outside a bracketed number list (tied on generated and malformed text); "
      "int()/float() on ASCII decimal text "
      "without '_' / inf / nan; CPython rounds a decimal literal to binary64 identically in "
      "float(s) and in the compiler (device 1: the model carries the exact decimal)")
  run.assumptions.append(
      "repr(float) is modelled for terminating decimals with <= 15 significant digits in "
      "[1e-4, 1e16); the option lattice stays inside that domain")
  reg = dict(R._QUANTIZERS_REGISTRY._container)  # pylint: disable=protected-access
  tables = core.run_driver("C09", [{"op": "tables"}])[0]
  model_cls = {c["name"]: c for c in tables["classes"]}
  names = list(tables["registry"])

  # ------------------------------------------------------------------ (a) grammar stream
  per_name = 40 if tier == "quick" else 400
  cases = []
  for name in names:
    pool = [p[0] for p in model_cls[name]["params"]]
    for _ in range(per_name):
      args = gen_args(rng, pool)
      for ws in (0, 1, 2):
        cases.append(("grammar", name, args, render(name, args, ws, rng), ws))
      if any(a["k"] is not None for a in args):
        cases.append(("kw_trailing_ws", name, args, render(name, args, 3, rng), 3))
  # forms the unrepaired parser misread (findings C10-parse-* of the first round, now fixed)
  for name in names[:4] if tier == "quick" else names:
    for _ in range(6):
      k = gen_ident(rng, [p[0] for p in model_cls[name]["params"]])
      a = gen_lit(rng, "int")
      b = gen_lit(rng, "int")
      lst = "[" + lit_text(a) + "," + lit_text(b) + "]"
      cases.append(("list_literal", name, None, "%s(%s=%s)" % (name, k, lst), 0))
      cases.append(("list_literal", name, None, "%s(%s)" % (name, lst), 0))
      cases.append(("list_literal", name, None, "%s(%s=[%s])" % (name, k, lit_text(a)), 0))
      cases.append(("list_literal", name, None, "%s(%s=[])" % (name, k), 0))
      cases.append(("repeated_keyword", name, None,
                    "%s(%s=%s,%s=%s)" % (name, k, lit_text(a), k, lit_text(b)), 0))
  lines, meta = [], []
  for form, name, args, text, ws in cases:
    if args is not None and ws == 0:
      lines.append({"op": "pycall", "name": name, "args": args})
    else:
      lines.append({"op": "parse", "s": text})
    meta.append((form, name, args, text, ws))
  outs = core.run_driver("C10", lines)
  for (form, name, args, text, ws), o in zip(meta, outs):
    run.case(text, nontrivial=True,
             sample={"text": text} if len(run.samples) < 4 and ws == 2 else None)
    run.compared += 1
    impl = norm_call(impl_read(text, name))
    py = norm_call(python_read(text, name))
    if "parse" in o:
      if o["text"] != text:
        run.disagree("render", {"args": args}, text, o["text"])
      if not o["wf"]:
        run.disagree("generator.wf", {"text": text}, "generated", "not well-formed in the model")
      model = norm_call(o["parse"])
      mpy = norm_call(o["py"])
      # the model's reference reader vs Python itself
      if not same_reading(mpy, py):
        run.disagree("pycall_vs_python", {"text": text}, py, mpy)
    else:
      model = norm_call(o)
    if "err" in model and model["err"] != impl.get("err"):
      run.disagree("parse", {"text": text}, impl, model)
      mirrored = False
    elif "err" not in model and (impl.get("err") or impl != model):
      run.disagree("parse", {"text": text}, impl, model)
      mirrored = False
    else:
      mirrored = True
    run.count("form_%s_%s" % (form, "err_" + impl["err"] if "err" in impl else "ok"))
    if args is not None:
      for a in args:
        run.count("lit_" + a["lit"]["t"] + ("_kw" if a["k"] else "_pos"))
    # clause: safe_eval reads the call as Python does
    if not same_reading(impl, py):
      run.violate("parse_eq_python", {"form": form},
                  {"text": text, "safe_eval": impl, "python": py,
                   "replay": "qkeras.safe_eval.GetParams(%r)" % text[text.index("("):]},
                  mirrored=mirrored)
    elif form == "grammar" and "err" in impl and impl["err"] == "SyntaxError":
      run.count("order_rejected")

  # ------------------------------------------------------------------ (b) junk text (tie only)
  junk = ["f()", "f( )", "f(,1)", "f(1,)", "f(1,,2)", "f(1 2)", "f(=1)", "f(a=)", "f(a==1)", "f(a=1=2)",
          "f(1", "f(1)zzz", "f", "f(1)(2)", "f(a=(1))", "f(+3)", "f(08)", "f(.5)", "f(5.)", "f(1e5)",
          "f(1E5)", "f(-1.5E-3)", "f(true)", "f(x)", "f(a=x)", "f(--3)", "f(1e)", "f('')", "f(')",
          "f(1.5.2)", "f(a=1 2)", "f(a=3 4 5)", "f(a=[1.5 2])", "f(a=[1  2])", "f(a=[ 1 2 ])",
          "f(a=[1 'b'])", "f(a=[2 3])", "f([2 3])", "f(a=1,b)", "f(a=1,2,c=3)", "f(1,a=2,3)", "f(\t1\n,\n2)",
          "f(a\t=\t1)", "f(a= None)", "f(a=None )", "f(a=True )", "f('a=b')", "f(k='a=b')", "f( a = 'x y' )",
          "f(0x10)", "f(a=-3)", "f(a= -3)", "f(- 3)", "f(1,2,3,4,5,6,7,8,9)", "f(a=1;b=2)", "f(\"q\")",
          "f(a=\"x\",b='y')", "f(None)", "f(None,True,False)", "f(a=Nonee)", "f(TrueFalse)", "f(a=1.)", " f(1)",
          # brackets: where a number list is part of a token and where it is not
          "f(x[1,2]y)", "f(a=[1,2]x)", "f(a=[1,2)", "f('[a', b=']')", "f(a [1,2])", "f([1,2] x)",
          "f(a=[1,2) ])", "f([1,[2,3]])", "f(a=[1,'b'])", "f([1,2]=3)", "f(a=1 [2,3])", "f([,1])",
          "f([1,2,])", "f(a=[1\t2])", "f([ ])", "f([1;2])", "f(a=[+1,-2.5e-3])", "f(a=[1,2],a=[3])",
          "f(a=[1, 2] , b = [ ] )", "f([1,2],[3,4])", "f(a=[)", "f(a=])", "f(a=[1,2]])", "f(a=[[1,2])",
          "f('[1,2]')", "f(k='[1' ,j='2]')", "f([1,\n2])", "f(a=[1,2],3)"]
  for _ in range(60 if tier == "quick" else 600):
    # random damage to a generated text: delete / duplicate / insert one character
    args = gen_args(rng, [])
    t = list(render("f", args, int(rng.integers(0, 3)), rng))
    pos = int(rng.integers(1, len(t)))
    op = int(rng.integers(3))
    if op == 0:
      del t[pos]
    elif op == 1:
      t.insert(pos, t[pos])
    else:
      t.insert(pos, [",", "=", " ", ")", "'", "1", "e", ".", "-", "x"][int(rng.integers(10))])
    s = "".join(t)
    if "_" in s and any(ch.isdigit() for ch in s):
      continue   # int('1_0') accepts underscores, not modelled
    if s.count("(") == 0:
      continue
    if re.search(r"[eE][+-]?[0-9]{4,}", s):
      continue   # overflows to inf / underflows in Python; the model computes 10^e exactly
    junk.append(s)
  jl = [{"op": "parse", "s": s} for s in junk]
  for s, o in zip(junk, core.run_driver("C10", jl)):
    name = s.split("(")[0]
    low = s.lower()
    if "inf" in low or "nan" in low:
      continue
    run.case(("junk", s), nontrivial=True)
    run.compared += 1
    impl = norm_call(impl_read(s, name))
    model = norm_call(o)
    run.count("junk_" + ("err_" + impl["err"] if "err" in impl else "accepted"))
    if impl != model:
      run.disagree("parse.junk", {"text": s}, impl, model)

  # ------------------------------------------------------------------ (c) str direction
  xs_all = L.probes(rng)
  xs = xs_all if tier != "quick" else [xs_all[0], xs_all[2]]
  slines, srecs = [], []
  for name in names:
    cls = reg.get(name)
    if cls is None:
      continue
    pnames = [p[0] for p in model_cls[name]["params"]]
    for kind, kw in L.configs(name, tier, rng):
      if "post_training_scale" in kw:
        continue
      rec = {"class": name, "kw": kw, "kind": kind}
      try:
        q = cls(**kw)
      except Exception as e:  # pylint: disable=broad-except
        continue
      slines.append({"op": "str", "cls": name, "kw": L.enc_env(kw)})
      srecs.append(rec)
      run.case(("str", name, repr(L.enc_env(kw))), nontrivial=True)
      a0 = L.attrs(q, pnames)
      rec["attrs"] = a0
      try:
        s = str(q)
        rec["str"] = {"ok": s}
      except Exception as e:  # pylint: disable=broad-except
        rec["str"] = {"err": L.err_tag(e)}
        continue
      try:
        q2 = Q.get_quantizer(s)
        a2 = L.attrs(q2, pnames)
        rec["reparse"] = {"ok": a2}
      except BaseException as e:  # pylint: disable=broad-except
        rec["reparse"] = {"err": L.err_tag(e)}
        continue
      stochastic = name in STOCHASTIC or bool(kw.get("use_stochastic_rounding")) or \
          bool(a2.get("use_stochastic_rounding"))
      phases = (0, 1) if stochastic else (0,)
      o0 = L.observe(q, xs, phases)
      rec["call_raises"] = any(isinstance(v, tuple) and v and v[0] == "raises" for v in o0.values())
      kinds = L.obs_diff(o0, L.observe(q2, xs, phases))
      diff = [n for n in pnames if a0[n] != a2[n]]
      rec["diff_fields"] = diff
      rec["kinds"] = sorted(kinds)
      if kinds and len(diff) > 1:
        culprits = []
        for f in diff:
          kw3 = {k: L.dec(v) for k, v in a2.items()}
          for g in diff:
            if g != f:
              kw3[g] = L.dec(a0[g])
          try:
            q3 = cls(**kw3)
            if L.obs_diff(o0, L.observe(q3, xs, phases)):
              culprits.append(f)
          except Exception:  # pylint: disable=broad-except
            culprits.append(f)
        rec["culprits"] = culprits or ["+".join(diff)]
      elif kinds:
        rec["culprits"] = diff or ["<no field differs>"]
  n_unobserved = 0
  for rec, line, o in zip(srecs, slines, core.run_driver("C10", slines)):
    name = rec["class"]
    case = {"class": name, "kw": line["kw"]}
    run.compared += 1
    mirrored = True
    if "err" in o["construct"]:
      run.disagree("str.construct", case, "ok", o["construct"])
      continue
    if rec["str"] != o["str"]:
      run.disagree("str", case, rec["str"], o["str"])
      mirrored = False
    run.count("str_%s" % ("ok" if "ok" in rec["str"] else rec["str"]["err"]))
    if "err" in rec["str"]:
      run.violate("str_raises", {"class": name, "error": rec["str"]["err"]},
                  {"kw": line["kw"], "replay": "str(%s(**kw))" % name}, mirrored=mirrored)
      continue
    r, m = rec["reparse"], o["reparse"]
    if ("err" in r) != ("err" in m) or ("err" in r and r["err"] != m["err"]):
      run.disagree("reparse", case, r.get("err", "ok"), m.get("err", "ok"))
      mirrored = False
    elif "ok" in r:
      mm = [[k, as_float64(v)] for k, v in m["ok"]]
      if L.canon_env(list(r["ok"].items())) != L.canon_env(mm):
        run.disagree("reparse.fields", {"class": name, "kw": line["kw"], "str": rec["str"]["ok"]},
                     L.canon_env(list(r["ok"].items())), L.canon_env(mm))
        mirrored = False
    if "err" in r:
      run.count("reparse_" + r["err"])
      opts = sorted(k for k in rec["kw"])
      run.violate("reparse_raises", {"class": name, "error": r["err"]},
                  {"kw": line["kw"], "str": rec["str"]["ok"], "options": opts,
                   "replay": "get_quantizer(str(%s(**kw)))" % name}, mirrored=mirrored)
      continue
    kinds = set(rec.get("kinds", []))
    if rec.get("call_raises"):
      kinds = set()
    if kinds:
      clause = "str_same_output" if kinds & {"output", "scale"} else "str_same_gradient"
      for f in rec["culprits"]:
        run.count("str_differs_%s.%s" % (name, f))
        run.violate(clause, {"class": name, "field": f},
                    {"kw": line["kw"], "str": rec["str"]["ok"], "differs": sorted(kinds),
                     "fields_changed": rec["diff_fields"],
                     "replay": "q=%s(**kw); get_quantizer(str(q))(x) vs q(x)" % name},
                    mirrored=mirrored)
    elif rec.get("diff_fields"):
      n_unobserved += 1
      run.count("str_field_changed_but_no_observable_difference")
    else:
      run.count("str_roundtrip_exact")
  run.extra["str_fields_changed_without_observable_difference"] = n_unobserved
