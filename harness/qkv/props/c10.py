"""C10 — quantizer strings (DESIGN.md §4 C10).

(a) grammar stream : generated call expressions over the literal grammar (syntax trees ->
    text, whitespace variants) through the REAL safe_eval with the constructor replaced by a
    recorder, vs the model parser, vs the model's reference reader `pyCall`, vs Python's own
    compile()/ast reading of the same text (clause: safe_eval == Python).
(b) formerly carved-out forms, now ordinary members of the clause (repaired in the fix round):
    list literals `[a,b]` / `[a]` / `[]`, repeated keywords (SyntaxError as in Python), blanks
    after keyword values; and junk text (error kinds / accepted junk, tie only).
(c) str direction over the C09 option lattice EXTENDED per class with the case splits of the
    printing code (strengthening round, seed C10-3): for every option the constructor defaults
    of the OTHER classes with an option of that name, every constant the model's `__str__` tables
    and the live source of quantizers.py compare an option of that name with, and the
    falsy-but-legal values (0, 0.0, False), each under every context of the class.
    str(q) vs model print (string equality), get_quantizer(str(q)) vs the model's verdict and
    rebuilt fields, and the clause oracle "denotes the same function":
      str_same_options  — the COMPLETE option set of the rebuilt quantizer (every constructor
                          argument read back from the object, and every get_config() entry) is
                          Python-`==` the original's; an omitted option that silently falls back
                          to another value is a violation by itself;
      str_same_output / str_same_gradient — no exception, identical outputs / scale / gradients
                          on probe tensors, in the training phase too, there also with
                          tf.random.uniform patched to fixed draws (a grid of levels).
"""
import ast
import inspect
import keyword
import re

import numpy as np

from .. import core, qlattice as L

STOCHASTIC = {"bernoulli", "stochastic_binary", "stochastic_ternary"}
STR_ALPHABET = list("abcdefghijklmnopqrstuvwxyzABCDEFGHIJKLMNOPQRSTUVWXYZ0123456789_-.+*:/[]{}!@#$%^&~<>?|;")
IDENT0 = list("abcdefghijklmnopqrstuvwxyz_")
IDENT = IDENT0 + list("0123456789ABCXYZ")


# --------------------------------------------------------------------------- literal syntax trees

def _digits(rng, lo, hi, leading_zero_ok=False):
  n = int(rng.integers(lo, hi + 1))
  ds = "".join(str(int(d)) for d in rng.integers(0, 10, size=n))
  if not leading_zero_ok and len(ds) > 1 and ds[0] == "0":
    ds = str(int(rng.integers(1, 10))) + ds[1:]
  return ds


def gen_lit(rng, kind=None):
  kind = kind or ["none", "bool", "int", "int", "float", "float", "str", "list"][int(rng.integers(8))]
  if kind == "list":
    n = [0, 1, 2, 2, 3, 4][int(rng.integers(6))]
    return {"t": "list", "ns": [gen_lit(rng, ["int", "int", "float"][int(rng.integers(3))])
                                for _ in range(n)]}
  if kind == "none":
    return {"t": "none"}
  if kind == "bool":
    return {"t": "bool", "b": bool(rng.integers(2))}
  if kind == "int":
    return {"t": "int", "neg": bool(rng.integers(3) == 0), "ds": _digits(rng, 1, [1, 1, 2, 3, 12][int(rng.integers(5))])}
  if kind == "float":
    ex = None
    if rng.integers(3) == 0:
      ex = {"neg": bool(rng.integers(2)), "ds": _digits(rng, 1, 2, leading_zero_ok=True)}
      if int(ex["ds"]) > 30:
        ex["ds"] = "7"
    return {"t": "float", "neg": bool(rng.integers(3) == 0), "ip": _digits(rng, 1, 4),
            "fp": _digits(rng, 1, 6, leading_zero_ok=True), "ex": ex}
  special = ["True", "None", "False", "1.5", "12", "[1", "auto", "auto_po2", "rnd", "floor", ""]
  if rng.integers(3) == 0:
    cs = special[int(rng.integers(len(special)))]
  else:
    cs = "".join(STR_ALPHABET[int(i)] for i in rng.integers(0, len(STR_ALPHABET), size=int(rng.integers(0, 9))))
  return {"t": "str", "dq": bool(rng.integers(2)), "cs": cs}


def lit_text(l, sep=","):
  t = l["t"]
  if t == "list":
    return "[" + sep.join(lit_text(e) for e in l["ns"]) + "]"
  if t == "none":
    return "None"
  if t == "bool":
    return "True" if l["b"] else "False"
  if t == "int":
    return ("-" if l["neg"] else "") + l["ds"]
  if t == "float":
    s = ("-" if l["neg"] else "") + l["ip"] + "." + l["fp"]
    if l["ex"] is not None:
      s += "e" + ("-" if l["ex"]["neg"] else "") + l["ex"]["ds"]
    return s
  q = '"' if l["dq"] else "'"
  return q + l["cs"] + q


def gen_ident(rng, pool):
  if pool and rng.integers(3) != 0:
    return pool[int(rng.integers(len(pool)))]
  n = int(rng.integers(1, 8))
  k = IDENT0[int(rng.integers(len(IDENT0)))] + "".join(IDENT[int(i)] for i in rng.integers(0, len(IDENT), size=n - 1))
  return k + "_" if keyword.iskeyword(k) else k   # reserved words are not identifiers


def gen_args(rng, pool, allow_bad_order=True):
  n = int(rng.integers(0, 7))
  n_pos = int(rng.integers(0, n + 1))
  args, used = [], set()
  for i in range(n):
    if i < n_pos:
      args.append({"k": None, "lit": gen_lit(rng)})
    else:
      k = gen_ident(rng, pool)
      tries = 0
      while k in used and tries < 20:
        k = gen_ident(rng, [])
        tries += 1
      if k in used:
        continue
      used.add(k)
      args.append({"k": k, "lit": gen_lit(rng)})
  if allow_bad_order and n >= 2 and rng.integers(6) == 0:
    perm = rng.permutation(len(args)).tolist()
    args = [args[i] for i in perm]
  return args


def render(name, args, ws=0, rng=None):
  """ws=0 canonical (must equal the model's render); 1: blank after commas (inside lists too);
  2: random blanks where Python ignores them, inside lists too (never after a keyword value);
  3: also a blank after every argument (i.e. after keyword values)"""
  def blank():
    if ws < 2:
      return ""
    return ["", " ", "  ", "\t", " \n "][int(rng.integers(5))]
  parts = []
  for i, a in enumerate(args):
    if ws == 0:
      t = lit_text(a["lit"])
    elif ws == 1:
      t = lit_text(a["lit"], ", ")
    else:
      t = lit_text(a["lit"], blank() + "," + blank())
    last = i == len(args) - 1
    if a["k"] is None:
      s = blank() + t + blank()
    else:
      s = blank() + a["k"] + blank() + "=" + blank() + t + (" " if ws == 3 else "")
    parts.append(s)
  sep = ", " if ws == 1 else ","
  return name + "(" + sep.join(parts) + ")"


# --------------------------------------------------------------------------- readers

class _Rec:
  def __init__(self):
    self.calls = []

  def __call__(self, *a, **k):
    self.calls.append((a, k))
    return ("REC", a, k)


def impl_read(text, name):
  """the REAL safe_eval on `text` with `name` bound to a recorder"""
  from qkeras.safe_eval import safe_eval
  rec = _Rec()
  try:
    r = safe_eval(text, {name: rec})
  except BaseException as e:  # pylint: disable=broad-except
    return {"err": L.err_tag(e)}
  if isinstance(r, tuple) and r and r[0] == "REC":
    return {"args": [L.enc(x) for x in r[1]], "kwargs": [[k, L.enc(v)] for k, v in r[2].items()],
            "called": True}
  return {"args": [], "kwargs": [], "called": False}


def python_read(text, name):
  """Python's own reading: compile() for the syntax verdict, ast.literal_eval per argument"""
  try:
    compile(text, "<quantizer>", "eval")
    tree = ast.parse(text, mode="eval").body
  except SyntaxError:
    return {"err": "SyntaxError"}
  if not (isinstance(tree, ast.Call) and isinstance(tree.func, ast.Name) and tree.func.id == name):
    return {"err": "not-a-call"}
  try:
    return {"args": [L.enc(ast.literal_eval(a)) for a in tree.args],
            "kwargs": [[k.arg, L.enc(ast.literal_eval(k.value))] for k in tree.keywords], "called": True}
  except (ValueError, SyntaxError):
    return {"err": "not-literal"}


def as_float64(v):
  """model values carry the exact decimal of a float literal; CPython rounds it to binary64"""
  if isinstance(v, dict):
    if "f" in v:
      return L.enc(L.dec(v))
    if "l" in v:
      return {"l": [as_float64(e) for e in v["l"]]}
  return v


def norm_call(c):
  if "err" in c:
    return {"err": c["err"]}
  return {"args": [as_float64(a) for a in c["args"]],
          "kwargs": [[k, as_float64(v)] for k, v in c["kwargs"]], "called": bool(c.get("called", True))}


def same_reading(a, b):
  """argument readings agree (keyword order is not part of the meaning of a call)"""
  if "err" in a or "err" in b:
    return a.get("err") == b.get("err")
  return a["args"] == b["args"] and sorted(a["kwargs"]) == sorted(b["kwargs"])


# --------------------------------------------------------------------------- option lattice (C10)

NOT_SWEPT = {"var_name", "use_variables", "post_training_scale"}   # not literals / no effect
NO_ZERO = {"bits", "alpha", "elements_per_scale"}   # 0 is not a legal value of these options


def harvest_source_constants(module):
  """every literal the live source of `module` compares an attribute with (`self.x != 6.0`,
  `quantizer.temperature != 6.0`, `0 == self.y`, ...): {attribute name: [values]}"""
  out = {}
  try:
    tree = ast.parse(inspect.getsource(module))
  except (OSError, TypeError, SyntaxError):
    return out

  def const(n):
    if isinstance(n, ast.Constant) and isinstance(n.value, (int, float, str, bool, type(None))):
      return True, n.value
    if isinstance(n, ast.UnaryOp) and isinstance(n.op, ast.USub) and isinstance(n.operand, ast.Constant) \
        and isinstance(n.operand.value, (int, float)) and not isinstance(n.operand.value, bool):
      return True, -n.operand.value
    return False, None

  for node in ast.walk(tree):
    if isinstance(node, ast.Compare) and len(node.comparators) == 1:
      l, r = node.left, node.comparators[0]
      for a, b in ((l, r), (r, l)):
        if isinstance(a, ast.Attribute):
          ok, v = const(b)
          if ok:
            out.setdefault(a.attr, [])
            if not any(type(v) is type(w) and v == w for w in out[a.attr]):
              out[a.attr].append(v)
  return out


def live_defaults(reg):
  """constructor defaults of the live classes: {class: {parameter: default}}"""
  out = {}
  for n, c in reg.items():
    ps = list(inspect.signature(c.__init__).parameters.values())[1:]
    out[n] = {p.name: p.default for p in ps if p.default is not inspect.Parameter.empty}
  return out


def _same(v, w):
  return type(v) is type(w) and v == w


def extra_option_values(name, defaults, harvested, anchors):
  """per option of class `name`: the values at which printing code SHARED with other classes (or
  written with their constants) would split — defaults of the other classes for an option of
  that name, constants of the model's statement tables and of the live source for that name,
  and the falsy-but-legal values.  Returns {option: [(value, origin)]}."""
  own = defaults[name]
  known = L.LATTICE[name]["options"]
  out = {}

  def add(o, v, origin):
    if isinstance(v, float) and v != v:
      return
    if _same(v, own.get(o)):
      return
    lst = out.setdefault(o, [])
    if any(_same(v, w) for w, _ in lst) or any(_same(v, w) for w in known.get(o, []) if not isinstance(w, (list, np.ndarray))):
      return
    lst.append((v, origin))

  for o in own:
    if o in NOT_SWEPT:
      continue
    # (1) defaults of the other classes
    for other, d in defaults.items():
      if other != name and o in d and not isinstance(d[o], (list, np.ndarray)):
        add(o, d[o], "default-of-" + other)
    # (2) constants of the model's statement tables (any class) for this option name
    for v in anchors.get(o, []):
      add(o, v, "model-table-constant")
    # (3) constants the live source compares an attribute of that name with
    for v in harvested.get(o, []):
      if isinstance(v, str) and not isinstance(own[o], str) and not any(isinstance(w, str) for w in known.get(o, [])):
        continue
      add(o, v, "source-constant")   # kept only if the constructor and the call accept it
    # (4) falsy-but-legal
    if o in NO_ZERO or o == "qnoise_factor":
      continue
    kinds = [own[o]] + [w for w in known.get(o, []) if not isinstance(w, (list, np.ndarray))]
    if any(isinstance(w, bool) for w in kinds):
      add(o, False, "falsy")
      add(o, True, "truthy")
    elif any(isinstance(w, float) for w in kinds):
      add(o, 0.0, "falsy")
    elif any(isinstance(w, int) for w in kinds):
      add(o, 0, "falsy")
  return out


def legal(cls, kw, x):
  """the constructor accepts the options and the quantizer maps the probe to finite numbers"""
  try:
    q = cls(**kw)
    y = q(x)
    y = np.asarray(y.numpy() if hasattr(y, "numpy") else y, np.float32)
    return bool(np.all(np.isfinite(y)))
  except Exception:  # pylint: disable=broad-except
    return False


def c10_configs(name, tier, rng, cls, extras, x_legal):
  """the C09 lattice of the class (unchanged, same order), then every extra option value under
  every context of the class, then the extra values of two options together"""
  out = list(L.configs(name, tier, rng))
  seen = {L._key(kw) for _, kw in out}   # pylint: disable=protected-access
  lat = L.LATTICE[name]

  def add(kw, kind):
    k = L._key(kw)   # pylint: disable=protected-access
    if k in seen:
      return
    seen.add(k)
    if legal(cls, kw, x_legal):
      out.append((kind, dict(kw)))

  singles = []
  for o, vals in extras.items():
    for v, origin in vals:
      singles.append((o, v))
      for ctx in lat["contexts"]:
        if o in ctx:
          continue
        kw = dict(ctx)
        kw[o] = v
        add(kw, "cross")
  # two cross values together (printing code that shares ONE helper for several options)
  for i, (o1, v1) in enumerate(singles):
    for o2, v2 in singles[i + 1:]:
      if o1 != o2:
        for ctx in lat["contexts"][:2]:
          if o1 in ctx or o2 in ctx:
            continue
          kw = dict(ctx)
          kw[o1] = v1
          kw[o2] = v2
          add(kw, "cross2")
  return out


# --------------------------------------------------------------------------- fixed random draws

PHI = 0.6180339887498949


class FixedDraws:
  """stand-in for tf.random.uniform (cf. harness/qkv/props/c08.py): element k of the n-th draw of
  a call is frac(level + k*phi + 0.37*n), a multiple of 2^-23 in [0,1) — the same tensor for the
  original and the rebuilt quantizer, so that equal options give bit-identical samples and a
  changed sampling probability moves at least the elements whose draw lies in between."""

  def __init__(self, tf):
    self.tf = tf
    self.level = 0.5
    self.calls = 0
    self.mods = []

  def install(self, mods):
    for m in mods:
      self.mods.append((m, m.uniform))
      m.uniform = self.fake
    return self

  def uninstall(self):
    for m, orig in self.mods:
      m.uniform = orig
    self.mods = []

  def fake(self, shape, minval=0, maxval=None, dtype=None, seed=None, name=None):  # pylint: disable=unused-argument
    tf = self.tf
    shp = [int(d) for d in np.asarray(shape).reshape(-1)]
    n = int(np.prod(shp)) if shp else 1
    u = (self.level + np.arange(n) * PHI + 0.37 * self.calls) % 1.0
    u = np.minimum(np.floor(u * 2.0 ** 23) / 2.0 ** 23, 1.0 - 2.0 ** -23).astype(np.float32)
    self.calls += 1
    u = tf.reshape(tf.constant(u), shp)
    if maxval is None and isinstance(minval, (int, float)) and minval == 0:
      return u
    if maxval is None:
      maxval = 1.0
    return u * (maxval - minval) + minval


def observe_training(q, xs, draws, levels):
  """training-phase outputs and scale under the fixed draws, one observation per level"""
  import tensorflow as tf
  import tensorflow.keras.backend as K
  obs = {}
  K.set_learning_phase(1)
  try:
    for i, x in enumerate(xs):
      for lv in levels:
        draws.level = lv
        draws.calls = 0
        key = "%d_%g" % (i, lv)
        try:
          y = q(tf.constant(x))
          obs["y1f" + key] = np.asarray(y.numpy() if hasattr(y, "numpy") else y, np.float32).tobytes()
          sc = getattr(q, "scale", None)
          if sc is not None:
            sc = np.asarray(K.eval(sc) if hasattr(sc, "numpy") or tf.is_tensor(sc) else sc, np.float32)
            obs["s1f" + key] = (sc.shape, sc.tobytes())
          else:
            obs["s1f" + key] = None
        except Exception as e:  # pylint: disable=broad-except
          obs["y1f" + key] = ("raises", L.err_tag(e))
  finally:
    K.set_learning_phase(0)
  return obs


# --------------------------------------------------------------------------- complete option set

def _py(v):
  """decoded protocol value; numbers compare exactly, across bool / int / float as Python does"""
  try:
    return L.dec(v)
  except Exception:  # pylint: disable=broad-except
    return v


def _enc_any(v):
  try:
    return L.enc(v)
  except Exception:  # pylint: disable=broad-except
    return {"s": "<%s>" % type(v).__name__}


def options_diff(q, q2, a0, a2, pnames):
  """fields of the complete option set in which the rebuilt quantizer is not Python-`==` the
  original: every constructor argument read back from the objects, every get_config() entry"""
  bad = {}
  for n in pnames:
    if not _py(a0[n]) == _py(a2[n]):
      bad[n] = {"original": a0[n], "rebuilt": a2[n], "read_from": "attribute"}
  try:
    c1, c2 = q.get_config(), q2.get_config()
  except Exception:  # pylint: disable=broad-except
    return bad
  for k in sorted(set(c1) | set(c2)):
    if k in bad:
      continue
    e1 = _enc_any(c1[k]) if k in c1 else {"s": "<absent>"}
    e2 = _enc_any(c2[k]) if k in c2 else {"s": "<absent>"}
    if not _py(e1) == _py(e2):
      bad[k] = {"original": e1, "rebuilt": e2, "read_from": "get_config"}
  return bad


# --------------------------------------------------------------------------- the check

def run(run: core.Run, tier: str):
  core.assert_repo_import()
  from qkeras import quantizers as Q
  from qkeras import quantizer_registry as R
  rng = np.random.default_rng(run.seed)
  run.extra["rule"] = (
      "grammar: per registered name, generated argument lists (0-6 arguments, positional then "
      "keyword, 1 in 6 shuffled; None/True/False, signed ints up to 12 digits, signed floats "
      "with optional exponent, quoted strings over a 90-symbol alphabet incl. 'True'/'None'/'1.5' "
      "as string contents, lists of 0-4 numbers) x 4 whitespace layouts (the 4th with blanks after "
      "keyword values); fixed list / repeated-keyword forms and junk text as separate streams; "
      "str direction: the C09 option lattice (qkv.qlattice) plus, per class and option, under every "
      "context of the class: the constructor defaults of the other classes for an option of that name "
      "(temperature 6.0 / 8.0, relu_upper_bound None / 6, negative_slope 0 / 0.0, symmetric 0 / 1 / False), "
      "the constants of the model's __str__ tables and the literals the live source of quantizers.py "
      "compares an attribute of that name with, the falsy-but-legal values 0 / 0.0 / False, and pairs of "
      "those values (kept when the constructor accepts them and the probe maps to finite numbers). "
      "non-trivial = distinct text / distinct (class, keyword set)")
  run.assumptions.append(
      "pyparsing's matching of the GetParams grammar is modelled by comma segments up to the "
      "first ')' outside a bracketed number list (tied on generated and malformed text); "
      "int()/float() on ASCII decimal text "
      "without '_' / inf / nan; CPython rounds a decimal literal to binary64 identically in "
      "float(s) and in the compiler (device 1: the model carries the exact decimal)")
  run.assumptions.append(
      "repr(float) is modelled for terminating decimals with <= 15 significant digits in "
      "[1e-4, 1e16); the option lattice stays inside that domain")
  reg = dict(R._QUANTIZERS_REGISTRY._container)  # pylint: disable=protected-access
  tables = core.run_driver("C09", [{"op": "tables"}])[0]
  model_cls = {c["name"]: c for c in tables["classes"]}
  names = list(tables["registry"])

  # ------------------------------------------------------------------ (a) grammar stream
  per_name = 40 if tier == "quick" else 400
  cases = []
  for name in names:
    pool = [p[0] for p in model_cls[name]["params"]]
    for _ in range(per_name):
      args = gen_args(rng, pool)
      for ws in (0, 1, 2):
        cases.append(("grammar", name, args, render(name, args, ws, rng), ws))
      if any(a["k"] is not None for a in args):
        cases.append(("kw_trailing_ws", name, args, render(name, args, 3, rng), 3))
  # forms the unrepaired parser misread (findings C10-parse-* of the first round, now fixed)
  for name in names[:4] if tier == "quick" else names:
    for _ in range(6):
      k = gen_ident(rng, [p[0] for p in model_cls[name]["params"]])
      a = gen_lit(rng, "int")
      b = gen_lit(rng, "int")
      lst = "[" + lit_text(a) + "," + lit_text(b) + "]"
      cases.append(("list_literal", name, None, "%s(%s=%s)" % (name, k, lst), 0))
      cases.append(("list_literal", name, None, "%s(%s)" % (name, lst), 0))
      cases.append(("list_literal", name, None, "%s(%s=[%s])" % (name, k, lit_text(a)), 0))
      cases.append(("list_literal", name, None, "%s(%s=[])" % (name, k), 0))
      cases.append(("repeated_keyword", name, None,
                    "%s(%s=%s,%s=%s)" % (name, k, lit_text(a), k, lit_text(b)), 0))
  lines, meta = [], []
  for form, name, args, text, ws in cases:
    if args is not None and ws == 0:
      lines.append({"op": "pycall", "name": name, "args": args})
    else:
      lines.append({"op": "parse", "s": text})
    meta.append((form, name, args, text, ws))
  outs = core.run_driver("C10", lines)
  for (form, name, args, text, ws), o in zip(meta, outs):
    run.case(text, nontrivial=True,
             sample={"text": text} if len(run.samples) < 4 and ws == 2 else None)
    run.compared += 1
    impl = norm_call(impl_read(text, name))
    py = norm_call(python_read(text, name))
    if "parse" in o:
      if o["text"] != text:
        run.disagree("render", {"args": args}, text, o["text"])
      if not o["wf"]:
        run.disagree("generator.wf", {"text": text}, "generated", "not well-formed in the model")
      model = norm_call(o["parse"])
      mpy = norm_call(o["py"])
      # the model's reference reader vs Python itself
      if not same_reading(mpy, py):
        run.disagree("pycall_vs_python", {"text": text}, py, mpy)
    else:
      model = norm_call(o)
    if "err" in model and model["err"] != impl.get("err"):
      run.disagree("parse", {"text": text}, impl, model)
      mirrored = False
    elif "err" not in model and (impl.get("err") or impl != model):
      run.disagree("parse", {"text": text}, impl, model)
      mirrored = False
    else:
      mirrored = True
    run.count("form_%s_%s" % (form, "err_" + impl["err"] if "err" in impl else "ok"))
    if args is not None:
      for a in args:
        run.count("lit_" + a["lit"]["t"] + ("_kw" if a["k"] else "_pos"))
    # clause: safe_eval reads the call as Python does
    if not same_reading(impl, py):
      run.violate("parse_eq_python", {"form": form},
                  {"text": text, "safe_eval": impl, "python": py,
                   "replay": "qkeras.safe_eval.GetParams(%r)" % text[text.index("("):]},
                  mirrored=mirrored)
    elif form == "grammar" and "err" in impl and impl["err"] == "SyntaxError":
      run.count("order_rejected")

  # ------------------------------------------------------------------ (b) junk text (tie only)
  junk = ["f()", "f( )", "f(,1)", "f(1,)", "f(1,,2)", "f(1 2)", "f(=1)", "f(a=)", "f(a==1)", "f(a=1=2)",
          "f(1", "f(1)zzz", "f", "f(1)(2)", "f(a=(1))", "f(+3)", "f(08)", "f(.5)", "f(5.)", "f(1e5)",
          "f(1E5)", "f(-1.5E-3)", "f(true)", "f(x)", "f(a=x)", "f(--3)", "f(1e)", "f('')", "f(')",
          "f(1.5.2)", "f(a=1 2)", "f(a=3 4 5)", "f(a=[1.5 2])", "f(a=[1  2])", "f(a=[ 1 2 ])",
          "f(a=[1 'b'])", "f(a=[2 3])", "f([2 3])", "f(a=1,b)", "f(a=1,2,c=3)", "f(1,a=2,3)", "f(\t1\n,\n2)",
          "f(a\t=\t1)", "f(a= None)", "f(a=None )", "f(a=True )", "f('a=b')", "f(k='a=b')", "f( a = 'x y' )",
          "f(0x10)", "f(a=-3)", "f(a= -3)", "f(- 3)", "f(1,2,3,4,5,6,7,8,9)", "f(a=1;b=2)", "f(\"q\")",
          "f(a=\"x\",b='y')", "f(None)", "f(None,True,False)", "f(a=Nonee)", "f(TrueFalse)", "f(a=1.)", " f(1)",
          # brackets: where a number list is part of a token and where it is not
          "f(x[1,2]y)", "f(a=[1,2]x)", "f(a=[1,2)", "f('[a', b=']')", "f(a [1,2])", "f([1,2] x)",
          "f(a=[1,2) ])", "f([1,[2,3]])", "f(a=[1,'b'])", "f([1,2]=3)", "f(a=1 [2,3])", "f([,1])",
          "f([1,2,])", "f(a=[1\t2])", "f([ ])", "f([1;2])", "f(a=[+1,-2.5e-3])", "f(a=[1,2],a=[3])",
          "f(a=[1, 2] , b = [ ] )", "f([1,2],[3,4])", "f(a=[)", "f(a=])", "f(a=[1,2]])", "f(a=[[1,2])",
          "f('[1,2]')", "f(k='[1' ,j='2]')", "f([1,\n2])", "f(a=[1,2],3)"]
  for _ in range(60 if tier == "quick" else 600):
    # random damage to a generated text: delete / duplicate / insert one character
    args = gen_args(rng, [])
    t = list(render("f", args, int(rng.integers(0, 3)), rng))
    pos = int(rng.integers(1, len(t)))
    op = int(rng.integers(3))
    if op == 0:
      del t[pos]
    elif op == 1:
      t.insert(pos, t[pos])
    else:
      t.insert(pos, [",", "=", " ", ")", "'", "1", "e", ".", "-", "x"][int(rng.integers(10))])
    s = "".join(t)
    if "_" in s and any(ch.isdigit() for ch in s):
      continue   # int('1_0') accepts underscores, not modelled
    if s.count("(") == 0:
      continue
    if re.search(r"[eE][+-]?[0-9]{4,}", s):
      continue   # overflows to inf / underflows in Python; the model computes 10^e exactly
    junk.append(s)
  jl = [{"op": "parse", "s": s} for s in junk]
  for s, o in zip(junk, core.run_driver("C10", jl)):
    name = s.split("(")[0]
    low = s.lower()
    if "inf" in low or "nan" in low:
      continue
    run.case(("junk", s), nontrivial=True)
    run.compared += 1
    impl = norm_call(impl_read(s, name))
    model = norm_call(o)
    run.count("junk_" + ("err_" + impl["err"] if "err" in impl else "accepted"))
    if impl != model:
      run.disagree("parse.junk", {"text": s}, impl, model)

  # ------------------------------------------------------------------ (c) str direction
  import tensorflow as tf
  xs_all = L.probes(rng)
  xs = xs_all if tier != "quick" else [xs_all[0], xs_all[2]]
  # the case splits of the printing code: the model's statement tables, the live signatures, the
  # literals the live source compares options with
  anchors_raw = core.run_driver("C10", [{"op": "anchors"}])[0]["classes"]
  anchors = {}
  for c in anchors_raw:
    for r in c["rows"]:
      if r["cond"] == "ne":
        v = L.dec(r["const"])
        if not any(_same(v, w) for w in anchors.setdefault(r["name"], [])):
          anchors[r["name"]].append(v)
      if not r["anchored"]:
        run.disagree("model.anchored", {"class": c["cls"], "row": r}, "n/a", "statement not anchored at the class default")
  unprinted = {c["cls"]: c["unprinted"] for c in anchors_raw}
  defaults = live_defaults(reg)
  harvested = harvest_source_constants(Q)
  run.extra["source_constants_harvested"] = {k: [repr(v) for v in vs] for k, vs in sorted(harvested.items())
                                             if any(k in d for d in defaults.values())}
  draws = FixedDraws(tf)
  rmods = [Q.tf.random] + ([tf.random] if tf.random is not Q.tf.random else [])
  levels_full = [(k + 0.5) / 8.0 for k in range(8)]
  slines, srecs = [], []
  for name in names:
    cls = reg.get(name)
    if cls is None:
      continue
    pnames = [p[0] for p in model_cls[name]["params"]]
    extras = extra_option_values(name, defaults, harvested, anchors)
    run.extra.setdefault("cross_values", {})[name] = {o: ["%r (%s)" % (v, why) for v, why in vs]
                                                      for o, vs in sorted(extras.items())}
    for kind, kw in c10_configs(name, tier, rng, cls, extras, tf.constant(xs_all[0])):
      if "post_training_scale" in kw:
        continue
      run.count("lattice_" + kind)
      rec = {"class": name, "kw": kw, "kind": kind}
      try:
        q = cls(**kw)
      except Exception as e:  # pylint: disable=broad-except
        continue
      slines.append({"op": "str", "cls": name, "kw": L.enc_env(kw)})
      srecs.append(rec)
      run.case(("str", name, repr(L.enc_env(kw))), nontrivial=True)
      a0 = L.attrs(q, pnames)
      rec["attrs"] = a0
      try:
        s = str(q)
        rec["str"] = {"ok": s}
      except Exception as e:  # pylint: disable=broad-except
        rec["str"] = {"err": L.err_tag(e)}
        continue
      try:
        q2 = Q.get_quantizer(s)
        a2 = L.attrs(q2, pnames)
        rec["reparse"] = {"ok": a2}
      except BaseException as e:  # pylint: disable=broad-except
        rec["reparse"] = {"err": L.err_tag(e)}
        continue
      stochastic = name in STOCHASTIC or bool(kw.get("use_stochastic_rounding")) or \
          bool(a2.get("use_stochastic_rounding"))
      phases = (0, 1) if stochastic else (0,)
      # (a) the complete option set, read back from the two objects
      rec["opt_diff"] = options_diff(q, q2, a0, a2, pnames)
      rec["options"] = {n: a0[n] for n in pnames}
      rec["rebuilt_options"] = {n: a2[n] for n in pnames}
      # (b) behaviour; stochastic classes also in the training phase under fixed draws
      levels = () if not stochastic else (levels_full if name in STOCHASTIC else levels_full[1::4])

      def watch(qq):
        o = L.observe(qq, xs, phases)
        if levels:
          draws.install(rmods)
          try:
            o.update(observe_training(qq, xs, draws, levels))
          finally:
            draws.uninstall()
        return o
      o0 = watch(q)
      rec["call_raises"] = any(isinstance(v, tuple) and v and v[0] == "raises" for k, v in o0.items()
                               if not k.startswith("y1"))
      o2 = watch(q2)
      kinds = L.obs_diff(o0, o2)
      # which observations differ: y/s/g + phase (+ 'f' = fixed draws) + probe index (+ draw level)
      rec["obs_differing"] = sorted(k for k in o0 if o0[k] != o2.get(k))[:8]
      diff = [n for n in pnames if a0[n] != a2[n]]
      rec["diff_fields"] = diff
      rec["kinds"] = sorted(kinds)
      if levels:
        run.count("training_fixed_draws_observed")
      if kinds and len(diff) > 1:
        culprits = []
        for f in diff:
          kw3 = {k: L.dec(v) for k, v in a2.items()}
          for g in diff:
            if g != f:
              kw3[g] = L.dec(a0[g])
          try:
            q3 = cls(**kw3)
            if L.obs_diff(o0, watch(q3)):
              culprits.append(f)
          except Exception:  # pylint: disable=broad-except
            culprits.append(f)
        rec["culprits"] = culprits or ["+".join(diff)]
      elif kinds:
        rec["culprits"] = diff or ["<no field differs>"]
  n_unobserved = 0
  for rec, line, o in zip(srecs, slines, core.run_driver("C10", slines)):
    name = rec["class"]
    case = {"class": name, "kw": line["kw"]}
    run.compared += 1
    mirrored = True
    if "err" in o["construct"]:
      run.disagree("str.construct", case, "ok", o["construct"])
      continue
    if rec["str"] != o["str"]:
      run.disagree("str", case, rec["str"], o["str"])
      mirrored = False
    run.count("str_%s" % ("ok" if "ok" in rec["str"] else rec["str"]["err"]))
    if "err" in rec["str"]:
      run.violate("str_raises", {"class": name, "error": rec["str"]["err"]},
                  {"kw": line["kw"], "replay": "str(%s(**kw))" % name}, mirrored=mirrored)
      continue
    r, m = rec["reparse"], o["reparse"]
    if ("err" in r) != ("err" in m) or ("err" in r and r["err"] != m["err"]):
      run.disagree("reparse", case, r.get("err", "ok"), m.get("err", "ok"))
      mirrored = False
    elif "ok" in r:
      mm = [[k, as_float64(v)] for k, v in m["ok"]]
      if L.canon_env(list(r["ok"].items())) != L.canon_env(mm):
        run.disagree("reparse.fields", {"class": name, "kw": line["kw"], "str": rec["str"]["ok"]},
                     L.canon_env(list(r["ok"].items())), L.canon_env(mm))
        mirrored = False
    if "err" in r:
      run.count("reparse_" + r["err"])
      opts = sorted(k for k in rec["kw"])
      run.violate("reparse_raises", {"class": name, "error": r["err"]},
                  {"kw": line["kw"], "str": rec["str"]["ok"], "options": opts,
                   "replay": "get_quantizer(str(%s(**kw)))" % name}, mirrored=mirrored)
      continue
    # clause (a): every option of the rebuilt quantizer == the original's (one violation per field)
    opt_diff = rec.get("opt_diff", {})
    m_diff = set(o.get("diff_eq") or [])
    for f, d in sorted(opt_diff.items()):
      run.count("str_option_differs_%s.%s" % (name, f))
      run.violate("str_same_options", {"class": name, "field": f, "falsy_original": not _py(d["original"])},
                  {"class": name, "kw": line["kw"], "options": rec["options"], "str": rec["str"]["ok"],
                   "rebuilt_options": rec["rebuilt_options"], "field": f, "original": d["original"],
                   "rebuilt": d["rebuilt"], "read_from": d["read_from"],
                   "model_expects_difference": f in m_diff,
                   "unprintable_option": f in unprinted.get(name, []),
                   "replay": "q=%s(**kw); q2=get_quantizer(str(q)); q2.%s vs q.%s" % (name, f, f)},
                  mirrored=mirrored and (f in m_diff or d["read_from"] == "get_config"))
    if not opt_diff:
      run.count("str_options_all_equal")
    kinds = set(rec.get("kinds", []))
    if rec.get("call_raises"):
      kinds = set()
    if kinds:
      clause = "str_same_output" if kinds & {"output", "scale"} else "str_same_gradient"
      for f in rec["culprits"]:
        run.count("str_differs_%s.%s" % (name, f))
        run.violate(clause, {"class": name, "field": f,
                             "falsy_original": f in rec["options"] and not _py(rec["options"][f])},
                    {"class": name, "kw": line["kw"], "options": rec["options"], "str": rec["str"]["ok"],
                     "rebuilt_options": rec["rebuilt_options"], "differs": sorted(kinds),
                     "observations_differing": rec.get("obs_differing"),
                     "fields_changed": rec["diff_fields"],
                     "replay": "q=%s(**kw); get_quantizer(str(q))(x) vs q(x)" % name},
                    mirrored=mirrored)
    elif opt_diff:
      n_unobserved += 1
      run.count("str_option_changed_but_no_observable_difference")
    elif rec.get("diff_fields"):
      run.count("str_option_retyped_only")    # True -> 1 and the like: Python-== values
    else:
      run.count("str_roundtrip_exact")
  run.extra["str_options_changed_without_observable_difference"] = n_unobserved
