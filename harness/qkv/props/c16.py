"""C16 — qtools multiplier output types represent every product (DESIGN.md §4 C16)."""
import itertools
import numpy as np

from .. import core, qtypes


def conv_case(label, q):
  """protocol line for the model's `ofQuantizer` on a real qkeras quantizer"""
  cls = q.__class__.__name__
  integer = getattr(q, "integer", 0)
  if hasattr(integer, "numpy"):
    integer = integer.numpy()
  mv = getattr(q, "max_value", None)
  return {"op": "convert", "cls": cls, "bits": int(getattr(q, "bits", 0) or 0),
          "integer": int(integer if integer is not None else 0),
          "keep_negative": bool(getattr(q, "keep_negative", True)),
          "use_01": bool(getattr(q, "use_01", False)),
          "neg_slope_nonzero": bool(getattr(q, "negative_slope", 0) != 0),
          "max_value": None if mv is None else core.rj(mv)}


def small(rec):
  """small enough for brute-force enumeration of all values"""
  if rec["mode"] == 0:
    return 1 <= rec["bits"] <= 5
  if rec["mode"] == 1:
    return 2 <= rec["bits"] <= 4 and (rec["bits"] - int(rec["is_signed"])) >= 1
  return rec["mode"] in (2, 3, 4)


def run(run: core.Run, tier: str):
  core.assert_repo_import()
  from qkeras.qtools.quantized_operators import quantizer_factory, multiplier_factory
  rng = np.random.default_rng(run.seed)
  qf = quantizer_factory.QuantizerFactory()
  mf = multiplier_factory.MultiplierFactory()
  run.extra["rule"] = (
      "operand types = every qtools mode built by the real QuantizerFactory from a grid of qkeras "
      "quantizers (bits, int_bits extremes, signedness, po2 max values); all ordered pairs of a "
      "seeded sample; non-trivial = distinct (weight type, input type) pair; brute force = every "
      "value pair of types up to 5 bits judged by the Lean Val predicate on the REAL output type")

  # ---- static tie 1: conversion qkeras quantizer -> qtools record
  types = qtypes.qkeras_types(tier, rng)
  recs = []
  conv_lines, conv_impl = [], []
  for label, q in types:
    impl = qf.make_quantizer(q)
    rec = qtypes.to_rec(impl)
    recs.append((label, impl, rec))
    if not isinstance(q, str):
      conv_lines.append(conv_case(label, q))
      conv_impl.append((label, rec))
  outs = core.run_driver("C16", conv_lines)
  for (label, rec), line, o in zip(conv_impl, conv_lines, outs):
    run.case(("convert", label), sample={"convert": label, "impl": rec, "model": o})
    run.compared += 1
    if "err" in o:
      run.disagree("convert", line, rec, o)
      continue
    d = qtypes.rec_eq(rec, o["out"])
    if d:
      run.disagree("convert", {"quantizer": label, "line": line}, rec, o["out"])
  run.count("convert_cases", len(conv_lines))

  # ---- static tie 2 (exhaustive in the finite dimension): the 36-cell dispatch table
  table_lines, table_impl = [], []
  by_mode = {}
  for label, impl, rec in recs:
    by_mode.setdefault(rec["mode"], (label, impl, rec))
  for wm, xm in itertools.product(range(6), range(6)):
    cls, tmpl = mf.multiplier_impl_table[wm][xm]
    table_impl.append(((wm, xm), cls.implemented_as(), cls.__name__, qtypes.to_rec(tmpl)))
  run.extra["static_tables_compared"] = {"multiplier_impl_table_cells": 36}

  # ---- behavioural tie: make_multiplier on ordered pairs
  n_types = len(recs)
  idx = list(range(n_types))
  if tier == "quick":
    # keep all non-fixed types, sample fixed ones
    fixed = [i for i in idx if recs[i][2]["mode"] == 0]
    other = [i for i in idx if recs[i][2]["mode"] != 0]
    po2 = [i for i in other if recs[i][2]["mode"] == 1]
    rest = [i for i in other if recs[i][2]["mode"] != 1]
    sel = sorted(set(rng.choice(fixed, size=min(70, len(fixed)), replace=False).tolist()
                     + rng.choice(po2, size=min(60, len(po2)), replace=False).tolist() + rest))
  else:
    sel = idx
  pairs = [(a, b) for a in sel for b in sel]
  if tier != "quick" and len(pairs) > 250000:
    keep = rng.choice(len(pairs), size=250000, replace=False)
    pairs = [pairs[i] for i in sorted(keep.tolist())]
  lines, impls = [], []
  for a, b in pairs:
    lw, w, rw = recs[a]
    lx, x, rx = recs[b]
    m = mf.make_multiplier(w, x)
    ro = qtypes.to_rec(m.output)
    lines.append({"op": "mul", "w": rw, "x": rx})
    impls.append((lw, lx, rw, rx, m.implemented_as(), ro))
  outs = core.run_driver("C16", lines)
  brute_lines, brute_meta = [], []
  seen_cells = set()
  for (lw, lx, rw, rx, kind, ro), o in zip(impls, outs):
    cell = (rw["mode"], rx["mode"])
    seen_cells.add(cell)
    run.case((lw, lx), sample={"w": lw, "x": lx, "impl": kind, "out": ro} if len(run.samples) < 6 else None)
    run.compared += 1
    run.count("cell_%d_%d" % cell)
    mirrored = True
    if "err" in o:
      run.disagree("make_multiplier", {"w": lw, "x": lx}, {"impl": kind, "out": ro}, o)
      mirrored = False
    else:
      d = qtypes.rec_eq(ro, o["out"])
      if d or o["impl"] != kind:
        run.disagree("make_multiplier", {"w": lw, "x": lx, "w_rec": rw, "x_rec": rx},
                     {"impl": kind, "out": ro}, o)
        mirrored = False
      # clause: implementation kind is the one the operand kinds call for
      if kind != o["spec_impl"]:
        run.violate("impl_kind", {"cell": list(cell)},
                    {"w": lw, "x": lx, "implemented_as": kind, "expected": o["spec_impl"]},
                    mirrored=mirrored)
    if small(rw) and small(rx) and ro["mode"] != 5:
      brute_lines.append({"op": "brute", "w": rw, "x": rx, "out": ro})
      brute_meta.append((lw, lx, rw, rx, kind, ro, mirrored))
  run.extra["cells_seen"] = len(seen_cells)

  # ---- clause oracle on the real output types: brute-force products
  outs = core.run_driver("C16", brute_lines)
  n_pairs = 0
  for (lw, lx, rw, rx, kind, ro, mirrored), o in zip(brute_meta, outs):
    n_pairs += o["pairs"]
    if o["bad"] is not None:
      a, b = core.unrj(o["bad"][0]), core.unrj(o["bad"][1])
      zero = (a * b == 0)
      key = {"impl": kind, "w_mode": rw["mode"], "x_mode": rx["mode"], "out_mode": ro["mode"],
             "w_name": rw["name"], "x_name": rx["name"],
             "mixed_sign": rw["is_signed"] != rx["is_signed"], "zero_product": zero}
      run.violate("zero" if zero else "product", key,
                  {"w": lw, "x": lx, "out": ro, "a": str(a), "b": str(b), "product": str(a * b),
                   "replay": "MultiplierFactory().make_multiplier(QuantizerFactory().make_quantizer(%s), "
                             "QuantizerFactory().make_quantizer(%s)).output" % (lw, lx)},
                  mirrored=mirrored)
  run.extra["brute_force_type_pairs"] = len(brute_lines)
  run.extra["brute_force_value_pairs"] = n_pairs
  run.evaluations += len(brute_lines)
