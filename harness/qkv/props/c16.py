"""C16 — qtools multiplier output types represent every product (DESIGN.md §4 C16)."""
import itertools
import json
from fractions import Fraction as F

import numpy as np

from .. import core, qtypes

NP_FLOAT = {16: np.float16, 32: np.float32, 64: np.float64}


def float_samples(bits):
  """exactly representable values of the IEEE type of that width, aimed at its edges: precision (1 ± ulp,
  odd significands), range (max, max/4, 2^emax), underflow (smallest normal and subnormal)"""
  t = NP_FLOAT[bits]
  fi = np.finfo(t)
  with np.errstate(all="ignore"):
    vals = [t(0), t(1), t(-1), t(2), t(0.5), t(3), t(-0.375), t(1) + fi.eps, t(1) - fi.epsneg, t(np.pi),
            -t(np.e), fi.max, -fi.max, fi.max / t(4), t(2) ** t(fi.maxexp - 1), fi.tiny, fi.tiny * t(4),
            fi.smallest_subnormal, -fi.smallest_subnormal * t(3), t(1) / t(3), t(1000.0) + t(0.5)]
  return sorted({F(float(v)) for v in vals if np.isfinite(v)})


def in_float(v, bits):
  """is the exact rational `v` a finite value of the IEEE type of that width (numpy cast round trip)"""
  t = NP_FLOAT[bits]
  try:
    d = float(v)                       # nearest double; an inexact step makes the comparison below fail
  except OverflowError:
    return False
  with np.errstate(all="ignore"):
    r = t(d)
  return bool(np.isfinite(r)) and F(float(r)) == v


PARTNER_CANDIDATES = [F(0), F(1), F(-1), F(2), F(-2), F(1, 2), F(-1, 2), F(1, 4), F(4), F(3), F(-3), F(3, 4),
                      F(5, 8), F(7), F(-8), F(1, 16), F(16), F(255), F(1, 256), F(-128), F(127, 128)]


def conv_case(label, q):
  """protocol line for the model's `ofQuantizer` on a real qkeras quantizer"""
  cls = q.__class__.__name__
  integer = getattr(q, "integer", 0)
  if hasattr(integer, "numpy"):
    integer = integer.numpy()
  mv = getattr(q, "max_value", None)
  return {"op": "convert", "cls": cls, "bits": int(getattr(q, "bits", 0) or 0),
          "integer": int(integer if integer is not None else 0),
          "keep_negative": bool(getattr(q, "keep_negative", True)),
          "use_01": bool(getattr(q, "use_01", False)),
          "neg_slope_nonzero": bool(getattr(q, "negative_slope", 0) != 0),
          "max_value": None if mv is None else core.rj(mv)}


def small(rec):
  """small enough for brute-force enumeration of all values"""
  if rec["mode"] == 0:
    return 1 <= rec["bits"] <= 5
  if rec["mode"] == 1:
    return 2 <= rec["bits"] <= 4 and (rec["bits"] - int(rec["is_signed"])) >= 1
  return rec["mode"] in (2, 3, 4)


def run(run: core.Run, tier: str):
  core.assert_repo_import()
  from qkeras.qtools.quantized_operators import quantizer_factory, multiplier_factory
  rng = np.random.default_rng(run.seed)
  qf = quantizer_factory.QuantizerFactory()
  mf = multiplier_factory.MultiplierFactory()
  run.extra["rule"] = (
      "operand types = every qtools mode built by the real QuantizerFactory from a grid of qkeras "
      "quantizers (bits, int_bits extremes, signedness, po2 max values); all ordered pairs of a "
      "seeded sample; non-trivial = distinct (weight type, input type) pair; brute force = every "
      "value pair of types up to 5 bits judged by the Lean Val predicate on the REAL output type; "
      "floating-point cells: all ordered pairs of {fp16, fp32, None -> default_interm_quantizer, "
      "FloatingPoint(bits=16/32/64)} with each other and with 28 non-float partners of every mode (also "
      "fixed-point types wider than the float widths) in both positions, judged by the clauses "
      "float_output_type (floating-point record of the largest floating operand width) and float_product "
      "(IEEE value sets by numpy cast round trip, edge values of each width)")
  run.assumptions.append(
      "value set of a floating-point type of width 16/32/64 = finite values of the IEEE-754 interchange "
      "format of that width (numpy float16/32/64); other widths carry no value claim, only the width rule")

  # ---- static tie 1: conversion qkeras quantizer -> qtools record
  types = qtypes.qkeras_types(tier, rng)
  recs = []
  conv_lines, conv_impl = [], []
  for label, q in types:
    impl = qf.make_quantizer(q)
    rec = qtypes.to_rec(impl)
    recs.append((label, impl, rec))
    if not isinstance(q, str):
      conv_lines.append(conv_case(label, q))
      conv_impl.append((label, rec))
  outs = core.run_driver("C16", conv_lines)
  for (label, rec), line, o in zip(conv_impl, conv_lines, outs):
    run.case(("convert", label), sample={"convert": label, "impl": rec, "model": o})
    run.compared += 1
    if "err" in o:
      run.disagree("convert", line, rec, o)
      continue
    d = qtypes.rec_eq(rec, o["out"])
    if d:
      run.disagree("convert", {"quantizer": label, "line": line}, rec, o["out"])
  run.count("convert_cases", len(conv_lines))

  # ---- static tie 2 (exhaustive in the finite dimension): the 36-cell dispatch table
  table_lines, table_impl = [], []
  by_mode = {}
  for label, impl, rec in recs:
    by_mode.setdefault(rec["mode"], (label, impl, rec))
  for wm, xm in itertools.product(range(6), range(6)):
    cls, tmpl = mf.multiplier_impl_table[wm][xm]
    table_impl.append(((wm, xm), cls.implemented_as(), cls.__name__, qtypes.to_rec(tmpl)))
  run.extra["static_tables_compared"] = {"multiplier_impl_table_cells": 36}

  # ---- behavioural tie: make_multiplier on ordered pairs
  n_types = len(recs)
  idx = list(range(n_types))
  if tier == "quick":
    # keep all non-fixed types, sample fixed ones
    fixed = [i for i in idx if recs[i][2]["mode"] == 0]
    other = [i for i in idx if recs[i][2]["mode"] != 0]
    po2 = [i for i in other if recs[i][2]["mode"] == 1]
    rest = [i for i in other if recs[i][2]["mode"] != 1]
    sel = sorted(set(rng.choice(fixed, size=min(70, len(fixed)), replace=False).tolist()
                     + rng.choice(po2, size=min(60, len(po2)), replace=False).tolist() + rest))
  else:
    sel = idx
  pairs = [(a, b) for a in sel for b in sel]
  if tier != "quick" and len(pairs) > 250000:
    keep = rng.choice(len(pairs), size=250000, replace=False)
    pairs = [pairs[i] for i in sorted(keep.tolist())]
  lines, impls = [], []
  for a, b in pairs:
    lw, w, rw = recs[a]
    lx, x, rx = recs[b]
    m = mf.make_multiplier(w, x)
    ro = qtypes.to_rec(m.output)
    lines.append({"op": "mul", "w": rw, "x": rx})
    impls.append((lw, lx, rw, rx, m.implemented_as(), ro))
  outs = core.run_driver("C16", lines)
  brute_lines, brute_meta = [], []
  seen_cells = set()
  for (lw, lx, rw, rx, kind, ro), o in zip(impls, outs):
    cell = (rw["mode"], rx["mode"])
    seen_cells.add(cell)
    run.case((lw, lx), sample={"w": lw, "x": lx, "impl": kind, "out": ro} if len(run.samples) < 6 else None)
    run.compared += 1
    run.count("cell_%d_%d" % cell)
    mirrored = True
    if "err" in o:
      run.disagree("make_multiplier", {"w": lw, "x": lx}, {"impl": kind, "out": ro}, o)
      mirrored = False
    else:
      d = qtypes.rec_eq(ro, o["out"])
      if d or o["impl"] != kind:
        run.disagree("make_multiplier", {"w": lw, "x": lx, "w_rec": rw, "x_rec": rx},
                     {"impl": kind, "out": ro}, o)
        mirrored = False
      # clause: implementation kind is the one the operand kinds call for
      if kind != o["spec_impl"]:
        run.violate("impl_kind", {"cell": list(cell)},
                    {"w": lw, "x": lx, "implemented_as": kind, "expected": o["spec_impl"]},
                    mirrored=mirrored)
    if small(rw) and small(rx) and ro["mode"] != 5:
      brute_lines.append({"op": "brute", "w": rw, "x": rx, "out": ro})
      brute_meta.append((lw, lx, rw, rx, kind, ro, mirrored))
  run.extra["cells_seen"] = len(seen_cells)

  # ---- clause oracle on the real output types: brute-force products
  outs = core.run_driver("C16", brute_lines)
  n_pairs = 0
  for (lw, lx, rw, rx, kind, ro, mirrored), o in zip(brute_meta, outs):
    n_pairs += o["pairs"]
    if o["bad"] is not None:
      a, b = core.unrj(o["bad"][0]), core.unrj(o["bad"][1])
      zero = (a * b == 0)
      key = {"impl": kind, "w_mode": rw["mode"], "x_mode": rx["mode"], "out_mode": ro["mode"],
             "w_name": rw["name"], "x_name": rx["name"],
             "mixed_sign": rw["is_signed"] != rx["is_signed"], "zero_product": zero}
      run.violate("zero" if zero else "product", key,
                  {"w": lw, "x": lx, "out": ro, "a": str(a), "b": str(b), "product": str(a * b),
                   "replay": "MultiplierFactory().make_multiplier(QuantizerFactory().make_quantizer(%s), "
                             "QuantizerFactory().make_quantizer(%s)).output" % (lw, lx)},
                  mirrored=mirrored)
  run.extra["brute_force_type_pairs"] = len(brute_lines)
  run.extra["brute_force_value_pairs"] = n_pairs
  run.evaluations += len(brute_lines)


  # ---- histories on ONE impl object: convert A, then B, ... (Props.C16 C16_reconvert_*) -----------------
  reconvert(run, qf, mf, rng, tier)

  # ---- argument forms: the same configuration written with numpy / tensor scalars ------------------------
  argument_forms(run, qf, mf)

  # ---- floating-point cells: the clause C16_float judged on the REAL output type ------------------------
  # (the brute-force oracle above has no value set for a float type and skips every pair with one)
  float_cells(run, qf, mf)


def float_cells(run, qf, mf):
  """every ordered pair with a floating-point operand: float x float over all widths and construction
  routes, float x {fixed narrow/wide, po2, ternary, binary +-1, binary 0/1} in both positions.
  Clauses (independent of the Lean model, exact rationals):
    float_output_type : the reported output is a floating-point record (mode 5, is_floating_point,
                        signed) whose width is the LARGEST width among the floating-point operands;
    float_product     : every product a*b of a value of the weight type and a value of the input type
                        that the widest floating-point operand type can hold is a value of the reported
                        output type (IEEE value sets, membership by numpy cast round trip)."""
  fl = qtypes.float_operands()
  pa = qtypes.float_partner_operands()
  ops = []
  for label, arg in fl + pa:
    ops.append((label, arg, label in [l for l, _ in fl]))
  pairs = []
  for (lw, aw, fw), (lx, ax, fx) in itertools.product(ops, ops):
    if fw or fx:
      pairs.append((lw, aw, lx, ax))
  built = []
  for lw, aw, lx, ax in pairs:
    w, x = qf.make_quantizer(aw), qf.make_quantizer(ax)
    m = mf.make_multiplier(w, x)
    built.append((lw, lx, w, x, m))
  # model comparison of the same pairs (the records of the operands as the real factory built them)
  lines = [{"op": "mul", "w": qtypes.to_rec(w), "x": qtypes.to_rec(x)} for _, _, w, x, _ in built]
  outs = core.run_driver("C16", lines)
  # values of the non-float partners: candidates filtered by the type's value predicate
  part_recs = {}
  for _, _, w, x, _ in built:
    for q in (w, x):
      if not q.is_floating_point:
        part_recs[json.dumps(qtypes.to_rec(q), sort_keys=True)] = qtypes.to_rec(q)
  keys = sorted(part_recs)
  mem = core.run_driver("C16", [{"op": "member", "q": part_recs[k],
                                 "vals": [core.rj(v) for v in PARTNER_CANDIDATES]} for k in keys])
  part_vals = {k: [v for v, ok in zip(PARTNER_CANDIDATES, o["in"]) if ok] for k, o in zip(keys, mem)}

  def values(q):
    if q.is_floating_point:
      vs = float_samples(int(q.bits)) if int(q.bits) in NP_FLOAT else []
    else:
      vs = part_vals[json.dumps(qtypes.to_rec(q), sort_keys=True)]
    # unit factors first: the first failing product reported is then of the form (+-1) * b or a * (+-1)
    # whenever one exists, i.e. the output type does not even hold the operand's own values
    return sorted(vs, key=lambda v: (abs(v) != 1, abs(v), v))

  probe = {16: set(), 32: set(), 64: set()}
  n_products = 0
  for (lw, lx, w, x, m), line, o in zip(built, lines, outs):
    out = m.output
    ro = qtypes.to_rec(out)
    kind = m.implemented_as()
    fbits = [int(q.bits) for q in (w, x) if q.is_floating_point]
    want = max(fbits)
    rel = ("both_w_narrower" if len(fbits) == 2 and int(w.bits) < int(x.bits) else
           "both_w_wider" if len(fbits) == 2 and int(w.bits) > int(x.bits) else
           "both_equal" if len(fbits) == 2 else
           "weight_only" if w.is_floating_point else "input_only")
    other = [q for q in (w, x) if not q.is_floating_point]
    wide_partner = bool(other) and int(other[0].bits) > want
    run.case(("float_cell", lw, lx), sample=None)
    run.compared += 1
    run.count("float_cell_" + rel + ("_partner_wider_than_float" if wide_partner else ""))
    run.count("cell_%d_%d" % (int(w.mode), int(x.mode)))
    mirrored = True
    if "err" in o or qtypes.rec_eq(ro, o["out"]) or o["impl"] != kind:
      mirrored = False
      run.disagree("make_multiplier", {"w": lw, "x": lx, "w_rec": line["w"], "x_rec": line["x"]},
                   {"impl": kind, "out": ro}, o)
    if "err" not in o and kind != o["spec_impl"]:
      run.violate("impl_kind", {"cell": [int(w.mode), int(x.mode)]},
                  {"w": lw, "x": lx, "implemented_as": kind, "expected": o["spec_impl"]}, mirrored=mirrored)
    key = {"cell": "float", "operands": rel, "w_mode": int(w.mode), "x_mode": int(x.mode),
           "partner_wider_than_float": wide_partner}
    replay = ("MultiplierFactory().make_multiplier(QuantizerFactory().make_quantizer(%s), "
              "QuantizerFactory().make_quantizer(%s)).output" % (lw, lx))
    ok_type = (bool(out.is_floating_point) and int(out.mode) == 5 and out.bits is not None and
               int(out.bits) == want and bool(out.is_signed) and str(out.name) == "floating_point")
    if not ok_type:
      run.violate("float_output_type", key,
                  {"w": lw, "x": lx, "w_bits": int(w.bits), "x_bits": int(x.bits),
                   "floating_point_operand_widths": fbits, "expected_output_bits": want, "out": ro,
                   "implemented_as": kind, "replay": replay}, mirrored=mirrored)
    # value level: products the widest floating operand type holds must be values of the output type
    ob = int(out.bits) if (out.bits is not None and bool(out.is_floating_point)) else None
    if want in NP_FLOAT and ob in NP_FLOAT:
      bad = None
      for a in values(w):
        for b in values(x):
          pr = a * b
          n_products += 1
          if len(probe[want]) < 4000:
            probe[want].add(pr)
          if in_float(pr, want) and not in_float(pr, ob):
            bad = (a, b, pr)
            break
        if bad:
          break
      if bad:
        a, b, pr = bad
        run.violate("float_product", key,
                    {"w": lw, "x": lx, "out": ro, "a": str(a), "b": str(b), "product": str(pr),
                     "a_float": float(a), "b_float": float(b),
                     "product_is_a_value_of_float%d" % want: True,
                     "product_is_a_value_of_reported_float%d" % ob: False, "replay": replay},
                    mirrored=mirrored)
  run.extra["float_cells"] = {"pairs": len(built), "products_judged": n_products,
                              "float_routes": [l for l, _ in fl], "partners": [l for l, _ in pa]}
  run.evaluations += n_products
  # tie of the value-set model (Props.C16 ValFloat) to real IEEE types: Lean membership vs numpy casts
  fl_lines, fl_meta = [], []
  for bits in (16, 32, 64):
    vs = sorted(probe[bits] | {v for b2 in (16, 32, 64) for v in float_samples(b2)})
    fl_lines.append({"op": "floatval", "bits": bits, "vals": [core.rj(v) for v in vs]})
    fl_meta.append((bits, vs))
  for (bits, vs), o in zip(fl_meta, core.run_driver("C16", fl_lines)):
    for v, mdl in zip(vs, o["in"]):
      run.compared += 1
      if bool(mdl) != in_float(v, bits):
        run.disagree("float_value_set", {"bits": bits, "value": str(v)}, in_float(v, bits), bool(mdl))
    run.count("float_value_set_probes_fp%d" % bits, len(vs))


def history_configs():
  """per qkeras class: (label, constructor) configurations aimed at the fields a conversion writes or
  forgets: bits / integer / sign, the 1-bit 0/1 mode of quantized_relu, use_01, po2 caps (None, 0 = falsy,
  below / at / above 1, non powers of two)"""
  from qkeras import quantizers as Q
  cfg = {}
  cfg["quantized_bits"] = [("quantized_bits(%d,%d,keep_negative=%d)" % a, (lambda a=a: Q.quantized_bits(a[0], a[1], keep_negative=a[2])))
                           for a in [(4, 0, 1), (4, 0, 0), (2, 1, 1), (1, 0, 1), (3, 3, 0), (5, -1, 1), (3, 0, 1), (2, 0, 0)]]
  cfg["quantized_relu"] = [("quantized_relu(%d,%d,negative_slope=%s)" % a, (lambda a=a: Q.quantized_relu(a[0], a[1], negative_slope=a[2])))
                           for a in [(4, 1, 0.0), (4, 1, 0.25), (3, 0, 0.0), (3, 0, 0.25), (1, 1, 0.0), (1, 0, 0.0), (2, 2, 0.0),
                                     (2, 1, 0.125)]]
  cfg["quantized_tanh"] = [("quantized_tanh(%d)" % b, (lambda b=b: Q.quantized_tanh(b))) for b in (2, 3, 5)]
  cfg["quantized_ulaw"] = [("quantized_ulaw(%d,%d)" % a, (lambda a=a: Q.quantized_ulaw(a[0], a[1]))) for a in [(4, 1), (3, 0), (5, 2)]]
  cfg["binary"] = [("binary(use_01=%d)" % u, (lambda u=u: Q.binary(use_01=bool(u)))) for u in (0, 1)]
  cfg["stochastic_binary"] = [("stochastic_binary()", Q.stochastic_binary)]
  cfg["bernoulli"] = [("bernoulli()", Q.bernoulli)]
  cfg["ternary"] = [("ternary()", Q.ternary)]
  cfg["stochastic_ternary"] = [("stochastic_ternary()", Q.stochastic_ternary)]
  mvs = [None, 0, 0.25, 1, 2, 16, 3, 0.75]
  for cls in ("quantized_po2", "quantized_relu_po2"):
    cfg[cls] = [("%s(%d,%s)" % (cls, b, mv), (lambda cls=cls, b=b, mv=mv: getattr(Q, cls)(b, mv)))
                for b in (3, 4, 6) for mv in mvs]
  return cfg


def history_kind(cls, earlier, qb):
  """which forgotten-field situation a history aims at: what ANY earlier conversion on the object set
  versus what the last quantizer needs"""
  if "po2" in cls:
    ca, cb = any(bool(q.max_value) for q in earlier), bool(qb.max_value)
    return {(True, False): "capped_then_uncapped", (False, True): "uncapped_then_capped",
            (True, True): "capped_then_capped", (False, False): "uncapped_then_uncapped"}[(ca, cb)]
  if cls == "quantized_relu":
    sa, sb = any(q.negative_slope != 0 for q in earlier), qb.negative_slope != 0
    return {(True, False): "signed_then_unsigned", (False, True): "unsigned_then_signed",
            (True, True): "signed_then_signed", (False, False): "unsigned_then_unsigned"}[(sa, sb)]
  qa = earlier[-1]
  if cls == "quantized_bits":
    return "sign_change" if bool(qa.keep_negative) != bool(qb.keep_negative) else "same_sign"
  if cls == "binary":
    return "use_01_change" if bool(qa.use_01) != bool(qb.use_01) else "same_use_01"
  return "same_class"


def reconvert(run, qf, mf, rng, tier):
  """One impl object of every class the factory knows, converted from a SEQUENCE of quantizers of its
  class (all ordered pairs of the configurations, plus seeded triples): after every step the record must
  be the record of a fresh conversion of that step's quantizer (clause reconvert_equals_fresh), and
  multipliers built from the reused object must hold every product of the values the LAST quantizer's
  type really has (clause product, brute force with the fresh record as the value set)."""
  from qkeras import quantizers as Q
  cfgs = history_configs()
  hist = []
  for cls, cs in cfgs.items():
    n = len(cs)
    pairs = [(i, j) for i in range(n) for j in range(n)]
    if len(pairs) > 160:
      # all same-width pairs (the cap / sign cases), a seeded sample of the rest
      same = [(i, j) for i, j in pairs if cs[i][0].split(",")[0] == cs[j][0].split(",")[0]]
      rest = [pq for pq in pairs if pq not in set(same)]
      pick = rng.choice(len(rest), size=min(60, len(rest)), replace=False)
      pairs = same + [rest[int(k)] for k in sorted(pick.tolist())]
    for i, j in pairs:
      hist.append((cls, [i, j]))
    for _ in range(min(12, n * n)):
      hist.append((cls, [int(rng.integers(0, n)) for _ in range(int(rng.integers(3, 6)))]))
  partners = [("quantized_bits(3,0,keep_negative=1)", Q.quantized_bits(3, 0, keep_negative=1)),
              ("ternary()", Q.ternary()), ("quantized_po2(3,None)", Q.quantized_po2(3, None)),
              ("binary(use_01=1)", Q.binary(use_01=True))]
  partner_impl = [(l, qf.make_quantizer(q)) for l, q in partners]
  lines, metas = [], []
  for cls, ixs in hist:
    qs = [cfgs[cls][i][1]() for i in ixs]
    labels = [cfgs[cls][i][0] for i in ixs]
    impl_cls = qf.quantizer_lookup[type(qs[0])]
    obj = impl_cls()
    states = []
    for q in qs:
      obj.convert_qkeras_quantizer(q)
      states.append(qtypes.to_rec(obj))
    fresh = [qtypes.to_rec(qf.make_quantizer(q)) for q in qs]
    lines.append({"op": "reconvert", "cls": cls, "history": [conv_case(l, q) for l, q in zip(labels, qs)]})
    metas.append((cls, labels, qs, obj, states, fresh))
  outs = core.run_driver("C16", lines)
  brute_lines, brute_meta = [], []
  for (cls, labels, qs, obj, states, fresh), line, o in zip(metas, lines, outs):
    kind = history_kind(cls, qs[:-1], qs[-1])
    run.case(("reconvert", cls, tuple(labels)))
    run.compared += 1
    run.count("reconvert_%s_%s" % (cls, kind))
    mirrored = True
    for k, (st, mo) in enumerate(zip(states, o["states"])):
      if mo is None or qtypes.rec_eq(st, mo):
        mirrored = False
        run.disagree("reconvert", {"cls": cls, "history": labels, "step": k}, st, mo)
        break
    # the fresh conversion itself (second tie of `ofQuantizer`, through the factory route)
    for k, (fr, mo) in enumerate(zip(fresh, o["fresh"])):
      if mo is None or qtypes.rec_eq(fr, mo):
        mirrored = False
        run.disagree("convert", {"cls": cls, "history": labels, "step": k}, fr, mo)
        break
    # clause: the k-th use of the object behaves like a fresh object
    for k in range(1, len(states)):
      d = qtypes.rec_eq(states[k], fresh[k])
      if d:
        kk = history_kind(cls, qs[:k], qs[k])
        run.violate("reconvert_equals_fresh", {"cls": cls, "history": kk, "fields": sorted(d)},
                    {"class": type(obj).__name__, "history": labels[: k + 1], "step": k,
                     "record_on_reused_object": states[k], "record_on_fresh_object": fresh[k],
                     "replay": "o = quantizer_impl.%s(); [o.convert_qkeras_quantizer(q) for q in history]; vars(o)"
                               % type(obj).__name__},
                    mirrored=mirrored)
        break
    # value level: multipliers built from the reused object vs the values the last quantizer really has
    if small(fresh[-1]):
      for pl, pi in partner_impl:
        for pos in ("w", "x"):
          m = mf.make_multiplier(obj, pi) if pos == "w" else mf.make_multiplier(pi, obj)
          ro = qtypes.to_rec(m.output)
          if ro["mode"] == 5:
            continue
          pr = qtypes.to_rec(pi)
          w_rec, x_rec = (fresh[-1], pr) if pos == "w" else (pr, fresh[-1])
          # what the model says for the STATE of the reused object
          brute_lines.append({"op": "brute", "w": w_rec, "x": x_rec, "out": ro})
          brute_meta.append((cls, kind, labels, pl, pos, m.implemented_as(), ro, states[-1], pr, mirrored))
  mul_lines = [{"op": "mul", "w": (st if pos == "w" else pr), "x": (pr if pos == "w" else st)}
               for (_, _, _, _, pos, _, _, st, pr, _) in brute_meta]
  mul_outs = core.run_driver("C16", mul_lines)
  outs = core.run_driver("C16", brute_lines)
  n_pairs = 0
  for (cls, kind, labels, pl, pos, impl, ro, st, pr, mirrored), o, mo in zip(brute_meta, outs, mul_outs):
    n_pairs += o["pairs"]
    run.compared += 1
    if "err" in mo or qtypes.rec_eq(ro, mo["out"]) or mo["impl"] != impl:
      mirrored = False
      run.disagree("make_multiplier", {"reused_object": labels, "partner": pl, "position": pos},
                   {"impl": impl, "out": ro}, mo)
    if o["bad"] is not None:
      a, b = core.unrj(o["bad"][0]), core.unrj(o["bad"][1])
      zero = (a * b == 0)
      key = {"impl": impl, "out_mode": ro["mode"], "zero_product": zero, "history_cls": cls, "history": kind,
             "reused_position": pos}
      run.violate("zero" if zero else "product", key,
                  {"history_on_one_object": labels, "partner": pl, "out": ro, "a": str(a), "b": str(b),
                   "product": str(a * b), "record_on_reused_object": st,
                   "replay": "o = impl(); [o.convert_qkeras_quantizer(q) for q in history]; "
                             "MultiplierFactory().make_multiplier(o, partner).output  (reused object as %s)" % pos},
                  mirrored=mirrored)
  run.extra["reconvert"] = {"histories": len(hist), "brute_force_type_pairs": len(brute_lines),
                            "brute_force_value_pairs": n_pairs}
  run.evaluations += len(brute_lines)


def argument_forms(run, qf, mf):
  """same value, different Python type (int / np.int32 / np.int64 / np.float32 / np.float64 / 0-d array /
  tf.constant / np.bool_ / keyword vs positional): the qtools record and the multiplier built from it
  must be those of the plain-number twin (clause argument_form); every form also goes to the model."""
  import tensorflow as tf
  from qkeras import quantizers as Q
  groups = [
      ("quantized_po2(4,2)", [
          ("int", lambda: Q.quantized_po2(4, 2)), ("float", lambda: Q.quantized_po2(4, 2.0)),
          ("np.float32", lambda: Q.quantized_po2(np.int64(4), np.float32(2))),
          ("np.float64", lambda: Q.quantized_po2(np.int32(4), np.float64(2))),
          ("np.int64", lambda: Q.quantized_po2(4, np.int64(2))),
          ("0-d array", lambda: Q.quantized_po2(4, np.array(2.0))),
          ("tf.constant", lambda: Q.quantized_po2(4, tf.constant(2.0))),
          ("keywords", lambda: Q.quantized_po2(max_value=2.0, bits=4))]),
      ("quantized_relu_po2(5,0) (falsy cap)", [
          ("int", lambda: Q.quantized_relu_po2(5, 0)), ("None", lambda: Q.quantized_relu_po2(5, None)),
          ("np.float32", lambda: Q.quantized_relu_po2(5, np.float32(0))),
          ("np.int64", lambda: Q.quantized_relu_po2(np.int64(5), np.int64(0))),
          ("float", lambda: Q.quantized_relu_po2(5, 0.0))]),
      ("quantized_relu_po2(4,0.25)", [
          ("float", lambda: Q.quantized_relu_po2(4, 0.25)), ("np.float32", lambda: Q.quantized_relu_po2(4, np.float32(0.25))),
          ("np.float64", lambda: Q.quantized_relu_po2(4, np.float64(0.25))),
          ("tf.constant", lambda: Q.quantized_relu_po2(4, tf.constant(0.25)))]),
      ("quantized_bits(4,1,keep_negative=0)", [
          ("int", lambda: Q.quantized_bits(4, 1, keep_negative=0)), ("bool", lambda: Q.quantized_bits(4, 1, keep_negative=False)),
          ("numpy", lambda: Q.quantized_bits(np.int64(4), np.int32(1), keep_negative=np.bool_(False))),
          ("tf integer", lambda: Q.quantized_bits(4, tf.constant(1), keep_negative=False)),
          ("keywords", lambda: Q.quantized_bits(integer=1, bits=4, keep_negative=False))]),
      ("quantized_relu(4,1)", [
          ("int", lambda: Q.quantized_relu(4, 1)), ("numpy", lambda: Q.quantized_relu(np.int64(4), np.int64(1), negative_slope=np.float32(0.0))),
          ("slope int 0", lambda: Q.quantized_relu(4, 1, negative_slope=0))]),
      ("quantized_relu(4,1,negative_slope=0.25)", [
          ("float", lambda: Q.quantized_relu(4, 1, negative_slope=0.25)),
          ("np.float64", lambda: Q.quantized_relu(4, 1, negative_slope=np.float64(0.25))),
          ("np.float32", lambda: Q.quantized_relu(np.int32(4), 1, negative_slope=np.float32(0.25)))]),
      ("quantized_relu(1,1) (0/1 mode)", [
          ("int", lambda: Q.quantized_relu(1, 1)), ("numpy", lambda: Q.quantized_relu(np.int64(1), np.int64(1)))]),
      ("binary(use_01=1)", [
          ("bool", lambda: Q.binary(use_01=True)), ("int", lambda: Q.binary(use_01=1)),
          ("np.bool_", lambda: Q.binary(use_01=np.bool_(True)))]),
  ]
  partner = qf.make_quantizer(Q.quantized_bits(3, 0, keep_negative=1))
  lines, metas = [], []
  for glabel, forms in groups:
    ref = None
    for flabel, ctor in forms:
      q = ctor()
      impl = qf.make_quantizer(q)
      rec = qtypes.to_rec(impl)
      outs_ = [qtypes.to_rec(mf.make_multiplier(impl, partner).output),
               qtypes.to_rec(mf.make_multiplier(partner, impl).output)]
      if ref is None:
        ref = (flabel, rec, outs_)
      run.case(("argument_form", glabel, flabel))
      run.compared += 1
      run.count("argument_form_" + flabel.replace(" ", "_"))
      lines.append(conv_case(glabel, q))
      metas.append((glabel, flabel, rec))
      if qtypes.rec_eq(rec, ref[1]) or any(qtypes.rec_eq(a, b) for a, b in zip(outs_, ref[2])):
        run.violate("argument_form", {"config": glabel, "form": flabel},
                    {"configuration": glabel, "form": flabel, "record": rec, "reference_form": ref[0],
                     "reference_record": ref[1], "multiplier_outputs": outs_, "reference_multiplier_outputs": ref[2],
                     "replay": "QuantizerFactory().make_quantizer(<%s written with %s arguments>)" % (glabel, flabel)},
                    mirrored=False)
  for (glabel, flabel, rec), line, o in zip(metas, lines, core.run_driver("C16", lines)):
    if "err" in o or qtypes.rec_eq(rec, o["out"]):
      run.disagree("convert", {"quantizer": glabel, "form": flabel, "line": line}, rec, o)
