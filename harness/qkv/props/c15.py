"""C15 — batch-norm folding / unfolding preserves the network function at inference (DESIGN §4 C15).

Streams
  layer_exact   one folded layer, exact regime (eps = 2^-10, var = 4^j - eps, short dyadic everything):
                real `layer(x, training=False)`, `get_folded_weights()` bit for bit against the Lean
                model; real stock conv -> BatchNormalization reference within the stated tolerance.
  layer_float   trained-like float32 statistics (tiny / zero variances, zero gamma): without
                quantizers real layer and real reference within 2^-22*(fan_in+4)*magnitude of the
                exact-rational conv->BN (rsqrt = oracle input); with quantizers bit for bit outside
                the band where the float rounding of the fold moves a kernel entry across a
                quantizer breakpoint.
  data_format   (inside the layer stream; regression of fix 90019a5) both classes x process-wide image
                data format {channels_last, channels_first} x data_format argument {omitted,
                channels_last, channels_first}: `layer.data_format` is the requested layout (the
                process-wide one when omitted) and the layer equals stock conv ->
                BatchNormalization in that layout; nothing is special-cased, a constructor that drops
                the argument is a VIOLATION (data_format_respected, fold_equals_conv_bn, callable).
  unfold        small sequential / branched models of folded layers: unfold_model(m).predict == m.predict.
                Second family "frozen": models mixing folded layers with stock / quantized plain weighted
                layers (Conv2D, DepthwiseConv2D, Dense, QConv2D, QDense, BatchNormalization with and
                without affine variables), layers / the whole model frozen by every public route, the
                freeze state changed between the two unfoldings of one model object.  In both families
                EVERY variable of EVERY layer of the unfolded model is judged (unfold_weights).
  to_folded     stock conv+BN models (sequential, branched, non-foldable variants):
                convert_to_folded_model / model_quantize(enable_bn_folding=True): fold-site selection
                and class substitution against the model; predictions against the property.
                Fix round Q: a second family of DAG models whose fold sites feed ORDER-SENSITIVE
                multi-input layers (Subtract, Concatenate of 2..4 inputs; the removed batch norm first /
                second / both / several; with and without a shared conv; no batch norm at all); the
                inbound layers of every layer of the returned models (public get_config) are judged IN
                ORDER (clause to_folded_input_order) and compared with the ordered-DAG Lean model
                (`OGraph`), which also has to agree with the expression model on the older templates.
  history       ONE layer object (inside one model object) used many times: get_folded_weights /
                unfold_model / inference calls by several routes and on inputs of several shapes,
                interleaved with parameter replacements that are not training steps (variable.assign,
                layer.set_weights, model.set_weights, save_weights -> load_weights in both formats,
                `_iteration` kept or changed).  After every step the observation is compared with the
                Lean model of the CURRENT parameters (`Obj.run`), with the property's formula evaluated
                in exact rationals on the current parameters, and with a fresh twin object.
"""
import math
import os
import shutil
import tempfile
import fractions

import numpy as np

from .. import core

F = fractions.Fraction
EPS_EXACT = 2.0 ** -10


# --------------------------------------------------------------------------- helpers

def worst_index(a, b):
  """flat index of the largest difference of two real outputs (0 when even the shapes differ)"""
  a, b = np.asarray(a), np.asarray(b)
  if a.shape != b.shape:
    return 0
  return int(np.argmax(np.abs(a - b)))


def fr(a):
  """numpy array -> list of exact Fractions (row-major); non-finite entries stay floats (they never
  equal a model value)"""
  return [F(float(v)) if np.isfinite(v) else float(v) for v in np.asarray(a, dtype=np.float64).ravel()]


def enc(a):
  return [[f.numerator, f.denominator] for f in fr(a)]


def dec(ps):
  return None if ps is None else [F(int(p[0]), int(p[1])) for p in ps]


def dy(rng, shape, bits, e):
  """short dyadics: integers of `bits` bits (signed) times 2^e"""
  m = 2 ** bits - 1
  return (rng.integers(-m, m + 1, size=shape).astype(np.float32) * np.float32(2.0 ** e)).astype(np.float32)


def qstr(q):
  if q is None:
    return None
  return "quantized_bits(%d,%d,%d,keep_negative=%s,alpha=1)" % (
      q["bits"], q["integer"], 1 if q["symmetric"] else 0, "True" if q["keep_negative"] else "False")


QUANTS = [
    {"bits": 4, "integer": 0, "symmetric": True, "keep_negative": True},
    {"bits": 8, "integer": 2, "symmetric": False, "keep_negative": True},
    {"bits": 3, "integer": 1, "symmetric": True, "keep_negative": True},
    {"bits": 6, "integer": 3, "symmetric": False, "keep_negative": True},
    {"bits": 5, "integer": 1, "symmetric": False, "keep_negative": False},
    {"bits": 2, "integer": 0, "symmetric": True, "keep_negative": True},
]
WIDE = {"bits": 14, "integer": 4, "symmetric": False, "keep_negative": True}   # step 2^-9, range +-16


def geom_fields(c):
  return {"cls": c["cls"], "n": c["n"], "h": c["h"], "w": c["w"], "cin": c["cin"], "kh": c["kh"],
          "kw": c["kw"], "sh": c["sh"], "sw": c["sw"], "dh": c["dh"], "dw": c["dw"],
          "same": c["same"], "cm": c["cm"], "cf": bool(c.get("cf", False))}


def x_shape(c, n=None, h=None, w=None):
  n, h, w = n or c["n"], h or c["h"], w or c["w"]
  return (n, c["cin"], h, w) if c.get("cf") else (n, h, w, c["cin"])


def cout_of(c):
  return c["cm"] if c["cls"] == "conv" else c["cin"] * c["cm"]


def fan_in(c):
  return c["kh"] * c["kw"] * (c["cin"] if c["cls"] == "conv" else 1)


def rs_table(tf, var, eps):
  """the rsqrt oracle: exact argument var+eps -> what tf.math.rsqrt returns on float32(var)+float32(eps)"""
  v32 = np.asarray(var, np.float32)
  val = tf.math.rsqrt(tf.constant(v32) + tf.constant(np.float32(eps))).numpy()
  tab, exact = [], 0
  for v, r in zip(v32.ravel(), val.ravel()):
    arg = F(float(v)) + F(float(np.float32(eps)))
    tab.append([[arg.numerator, arg.denominator], core.rj(float(r))])
    # bit-exact rsqrt: value^2 * arg == 1
    if F(float(r)) ** 2 * arg == 1:
      exact += 1
  return tab, exact, len(tab)


# --------------------------------------------------------------------------- case generation

def geometries(rng, tier):
  """(cls, h, w, cin, kh, kw, sh, sw, dh, dw, same, cm): every class x padding x {plain, strided,
  dilated, rectangular kernel, 1x1, depth multiplier}"""
  out = []
  for cls in ("conv", "dw"):
    for same in (False, True):
      out.append((cls, 5, 5, 2, 2, 2, 1, 1, 1, 1, same, 3 if cls == "conv" else 1))     # plain
      out.append((cls, 6, 5, 2, 3, 2, 2, 2, 1, 1, same, 2))                               # strided, rectangular
      out.append((cls, 6, 6, 2, 2, 2, 1, 1, 2, 2, same, 2 if cls == "conv" else 1))     # dilated
      out.append((cls, 5, 4, 3, 3, 3, 2, 1, 1, 1, same, 2))                               # anisotropic stride
      out.append((cls, 3, 3, 2, 1, 1, 1, 1, 1, 1, same, 3))                               # 1x1
      if tier != "quick":
        out.append((cls, 7, 6, 2, 3, 3, 3, 2, 1, 1, same, 2))
        out.append((cls, 7, 7, 1, 2, 3, 1, 1, 2, 1, same, 3))
        out.append((cls, 4, 4, 4, 2, 2, 1, 1, 1, 1, same, 1))
  return out


def geometries_cross(tier):
  """the cross-cutting corners: batch 1, spatial extents of 1, kernel as large as / larger than the
  input, stride > kernel, dilation (incl. anisotropic, incl. SAME with a dilated extent larger than the
  input), channels_first (both classes, explicit data_format under the default process-wide format)"""
  out = []
  for cls in ("conv", "dw"):
    for same in (False, True):
      out.append((cls, 5, 5, 2, 2, 2, 1, 1, 1, 1, same, 3 if cls == "conv" else 1, {"n": 1}))   # batch 1
      out.append((cls, 1, 5, 2, 1, 2, 1, 1, 1, 1, same, 2, {}))                                   # height 1
      out.append((cls, 4, 1, 2, 2, 1, 1, 1, 1, 1, same, 2, {"n": 1}))                             # width 1
      out.append((cls, 1, 1, 3, 1, 1, 1, 1, 1, 1, same, 2, {}))                                   # 1x1 input
      if same:
        out.append((cls, 1, 1, 2, 3, 3, 1, 1, 1, 1, True, 2, {}))        # kernel larger than the input
        out.append((cls, 2, 2, 2, 3, 3, 2, 2, 1, 1, True, 2, {"n": 1}))
        out.append((cls, 4, 4, 2, 3, 3, 1, 1, 2, 2, True, 2, {}))        # dilated extent 5 > input 4
      else:
        out.append((cls, 3, 2, 2, 3, 2, 1, 1, 1, 1, False, 2, {}))       # kernel == input: 1x1 output
        out.append((cls, 5, 5, 2, 3, 3, 1, 1, 2, 2, False, 2, {}))       # dilated extent == input
      out.append((cls, 7, 7, 2, 2, 2, 3, 3, 1, 1, same, 2, {}))                                   # stride > kernel
      out.append((cls, 5, 6, 2, 1, 1, 2, 3, 1, 1, same, 2, {}))                                   # 1x1 kernel, stride 2x3
      out.append((cls, 6, 5, 2, 2, 3, 1, 1, 3, 2, same, 2, {}))                                   # anisotropic dilation
    for same in (False, True):
      out.append((cls, 5, 4, 2, 2, 2, 1, 1, 1, 1, same, 1 if cls == "dw" else 3, {"cf": True}))
      out.append((cls, 6, 5, 3, 3, 2, 2, 1, 1, 1, same, 2, {"cf": True}))
      out.append((cls, 4, 4, 2, 2, 2, 1, 1, 2, 2, same, 2, {"cf": True, "n": 1}))
      out.append((cls, 1, 3, 2, 1, 2, 1, 1, 1, 1, same, 3, {"cf": True}))
  return out


DATA_FORMATS = (None, "channels_last", "channels_first")


def geometries_data_format():
  """the data-format stream: BOTH classes under BOTH process-wide image data formats x the
  `data_format` argument {omitted, channels_last, channels_first} x geometries on which NHWC and NCHW
  differ in every respect (h != w != cin != cout, strides, SAME padding, dilation, rectangular kernel).
  `cf` (the layout the layer must have) = the requested one, or the process-wide one when none is
  requested."""
  out = []
  base = {"conv": [(5, 4, 3, 2, 2, 1, 1, 1, 1, False, 2), (6, 5, 2, 3, 2, 2, 1, 1, 1, True, 3),
                   (4, 5, 3, 2, 2, 1, 1, 2, 2, True, 2), (2, 2, 2, 1, 1, 1, 1, 1, 1, False, 2)],
          "dw": [(5, 4, 3, 2, 2, 1, 1, 1, 1, False, 2), (6, 5, 2, 3, 2, 2, 1, 1, 1, True, 1)]}
  for cls in ("conv", "dw"):
    for geo in base[cls]:
      for global_cf in (False, True):
        for df in DATA_FORMATS:
          cf = global_cf if df is None else (df == "channels_first")
          out.append((cls,) + geo + ({"cf": cf, "df": df, "global_cf": global_cf, "global_hold": True},))
  return out


ROUTES = ("training=False", "default", "training=0", "tf.function", "tensor-input")


def layer_case(rng, geo, mode, use_bias, scale, center, qk, qb, act, regime):
  cls, h, w, cin, kh, kw, sh, sw, dh, dw, same, cm = geo[:12]
  extra = geo[12] if len(geo) > 12 else {}
  c = {"cls": cls, "n": extra.get("n", 2), "h": h, "w": w, "cin": cin, "kh": kh, "kw": kw, "sh": sh, "sw": sw,
       "dh": dh, "dw": dw, "same": same, "cm": cm, "mode": mode, "use_bias": use_bias,
       "scale": scale, "center": center, "qk": qk, "qb": qb, "act": act, "regime": regime,
       "cf": bool(extra.get("cf", False)), "form": 0, "route": "training=False", "efd": None}
  # `cf`: the layout the layer must have.  `df_req`: the constructor's data_format argument (None =
  # omitted); `global_cf`: the process-wide K.image_data_format() is channels_first at construction
  # (`global_hold`: and stays so while the layer is built and used)
  c["global_cf"] = bool(extra.get("global_cf", False))
  c["global_hold"] = bool(extra.get("global_hold", False))
  c["df_req"] = extra["df"] if "df" in extra else ("channels_first" if c["cf"] else None)
  assert c["cf"] == (c["global_cf"] if c["df_req"] is None else c["df_req"] == "channels_first")
  co = cout_of(c)
  kshape = (kh, kw, cin, cm)
  c["x"] = dy(rng, x_shape(c), 3, -2)
  fill_params(rng, c, regime)
  if regime != "exact" and qk is not None and rng.random() < 0.5:
    aim_at_breakpoints(rng, c)
  return c


def fill_params(rng, c, regime="exact"):
  """(new) parameters of a folded layer into c: kernel, bias, var, gamma, beta, mean (+ eps)"""
  co = cout_of(c)
  kshape = (c["kh"], c["kw"], c["cin"], c["cm"])
  if regime == "exact":
    c["eps"] = EPS_EXACT
    c["kernel"] = dy(rng, kshape, 3, -3)
    c["bias"] = dy(rng, (co,), 3, -2)
    j = rng.integers(-2, 4, size=co)
    c["var"] = (np.float32(4.0) ** j.astype(np.float32) - np.float32(EPS_EXACT)).astype(np.float32)
    gm = rng.choice(np.array([-1.5, -1, -0.5, 0, 0.25, 0.5, 0.75, 1, 1.5, 2, 3], np.float32), size=co)
    c["gamma"] = gm.astype(np.float32)
    c["beta"] = dy(rng, (co,), 3, -2)
    c["mean"] = dy(rng, (co,), 3, -2)
  else:
    c["eps"] = float(rng.choice([1e-3, EPS_EXACT, 1e-5]))
    c["kernel"] = rng.standard_normal(kshape).astype(np.float32)
    c["bias"] = rng.standard_normal((co,)).astype(np.float32)
    var = np.exp(rng.uniform(np.log(1e-7), np.log(20.0), size=co)).astype(np.float32)
    var[rng.random(co) < 0.15] = 0.0                                  # dead channel
    c["var"] = var
    gm = rng.standard_normal((co,)).astype(np.float32)
    gm[rng.random(co) < 0.15] = 0.0                                   # zero gamma
    c["gamma"] = gm
    c["beta"] = rng.standard_normal((co,)).astype(np.float32)
    c["mean"] = (rng.standard_normal((co,)) * 2).astype(np.float32)
  return c


def aim_at_breakpoints(rng, c):
  """float regime, quantized kernel: put a third of the kernel entries where inv*kernel sits on a
  rounding breakpoint (k+1/2)*step of the kernel quantizer, +-0..2 ulp — the only place where the
  float rounding of the fold can change the result"""
  q = c["qk"]
  ub = q["bits"] - (1 if q["keep_negative"] else 0)
  step = 2.0 ** (q["integer"] - ub)
  lo = -(2 ** ub) if q["keep_negative"] else 0
  hi = 2 ** ub - 1
  rs = 1.0 / np.sqrt(np.asarray(c["var"], np.float64) + float(np.float32(c["eps"])))
  inv = (rs * (np.asarray(c["gamma"], np.float64) if c["scale"] else 1.0)).astype(np.float32)
  k = c["kernel"].reshape(-1).copy()
  cin, cm = c["cin"], c["cm"]
  for t in range(k.size):
    if rng.random() > 0.34:
      continue
    ch = (t % cm) if c["cls"] == "conv" else ((t // cm) % cin) * cm + t % cm
    if inv[ch] == 0 or not np.isfinite(inv[ch]):
      continue
    code = int(rng.integers(lo - 1, hi + 1))
    v = np.float32(np.float32((code + 0.5) * step) / inv[ch])
    for _ in range(int(rng.integers(0, 3))):
      v = np.nextafter(v, np.float32(np.inf if rng.random() < 0.5 else -np.inf), dtype=np.float32)
    k[t] = v
  c["kernel"] = k.reshape(c["kernel"].shape)


def lean_layer_line(tf, c, run):
  co = cout_of(c)
  tab, ex, n = rs_table(tf, c["var"], c["eps"])
  run.count("rsqrt:bit-exact", ex)
  run.count("rsqrt:oracle-only", n - ex)
  line = {"op": "layer", "mode": c["mode"], "kernel": enc(c["kernel"]),
          "bias": enc(c["bias"]) if c["use_bias"] else None,
          "gamma": enc(c["gamma"]) if c["scale"] else None,
          "beta": enc(c["beta"]) if c["center"] else None,
          "mean": enc(c["mean"]), "var": enc(c["var"]), "eps": core.rj(float(np.float32(c["eps"]))),
          "rs": tab, "qk": c["qk"], "qb": c["qb"], "act": c["act"], "x": enc(c["x"]),
          "df": c["df_req"], "global_cf": bool(c["global_cf"])}
  line.update(geom_fields(c))
  assert len(line["mean"]) == co
  return line


def qobj(qkeras, q):
  if q is None:
    return None
  return qkeras.quantized_bits(q["bits"], q["integer"], 1 if q["symmetric"] else 0,
                               keep_negative=q["keep_negative"], alpha=1)


def make_layer(qkeras, c, name=None):
  """the real folded layer object of a case (not built yet).  c["form"] = 1: the same values in other
  argument forms (ints / lists instead of tuples, upper-case padding, numpy epsilon, quantizer objects
  instead of strings)"""
  pad = "same" if c["same"] else "valid"
  ks, st, dl = (c["kh"], c["kw"]), (c["sh"], c["sw"]), (c["dh"], c["dw"])
  eps, qk, qb = c["eps"], qstr(c["qk"]), qstr(c["qb"])
  if c.get("form", 0) == 1:
    pad = pad.upper()
    ks = c["kh"] if c["kh"] == c["kw"] else [c["kh"], c["kw"]]
    st = c["sh"] if c["sh"] == c["sw"] else [c["sh"], c["sw"]]
    dl = c["dh"] if c["dh"] == c["dw"] else [c["dh"], c["dw"]]
    eps = np.float32(eps)
    qk, qb = qobj(qkeras, c["qk"]), qobj(qkeras, c["qb"])
  common = dict(strides=st, padding=pad, dilation_rate=dl,
                use_bias=c["use_bias"], epsilon=eps, center=c["center"], scale=c["scale"],
                folding_mode=c["mode"], bias_quantizer=qb, ema_freeze_delay=c.get("efd"),
                activation=(None if c["act"] == "linear" else c["act"]))
  if name is not None:
    common["name"] = name
  if c.get("df_req") is not None:
    common["data_format"] = c["df_req"]   # else: left to the process-level default
  if c.get("cf"):
    common["axis"] = 1
  if c["cls"] == "conv":
    return qkeras.QConv2DBatchnorm(c["cm"], ks, kernel_quantizer=qk, **common)
  return qkeras.QDepthwiseConv2DBatchnorm(ks, depth_multiplier=c["cm"], depthwise_quantizer=qk, **common)


class global_format:
  """`K.set_image_data_format(...)` for the duration of a block (restored afterwards)"""

  def __init__(self, tf, cf):
    self.K, self.cf = tf.keras.backend, cf

  def __enter__(self):
    self.old = self.K.image_data_format()
    self.K.set_image_data_format("channels_first" if self.cf else "channels_last")

  def __exit__(self, *a):
    self.K.set_image_data_format(self.old)
    return False


def build_real_layer(tf, qkeras, c):
  """the real folded layer with the case's parameters; constructed under the case's process-wide
  image data format (the caller keeps it for the first call too when `global_hold`)"""
  with global_format(tf, c.get("global_cf", False)):
    layer = make_layer(qkeras, c)
  try:   # first call creates the variables (the inner BatchNormalization is built by the call)
    layer(tf.zeros(x_shape(c, n=1)), training=False)
  except Exception:  # pylint: disable=broad-except
    pass            # (before fix d42f1d8 center=False raised here, after the variables exist)
  set_folded_params(c, layer)
  return layer


def call_layer(tf, layer, x, route):
  """inference by one of the routes that all mean `training=False`"""
  if route == "default":            # no training argument, no learning phase set: inference
    return layer(x).numpy()
  if route == "training=0":
    return layer(x, training=0).numpy()
  if route == "tf.function":
    return tf.function(lambda t: layer(t, training=False))(tf.constant(x)).numpy()
  if route == "tensor-input":
    return layer(tf.constant(x), training=False).numpy()
  if route == "image_data_format=channels_first":   # process-level default switched AFTER construction
    K = tf.keras.backend
    old = K.image_data_format()
    K.set_image_data_format("channels_first")
    try:
      return layer(x, training=False).numpy()
    finally:
      K.set_image_data_format(old)
  if route == "learning_phase=1":   # process-level switch; an explicit training=False wins
    K = tf.keras.backend
    K.set_learning_phase(1)
    try:
      return layer(x, training=False).numpy()
    finally:
      K.set_learning_phase(0)
  return layer(x, training=False).numpy()


def set_folded_params(c, layer, p=None):
  p = p or c
  (layer.kernel if c["cls"] == "conv" else layer.depthwise_kernel).assign(p["kernel"])
  if c["use_bias"]:
    layer.bias.assign(p["bias"])
  bn = layer.batchnorm
  if c["scale"]:
    bn.gamma.assign(p["gamma"])
  if c["center"]:
    bn.beta.assign(p["beta"])
  bn.moving_mean.assign(p["mean"])
  bn.moving_variance.assign(p["var"])


def build_reference(tf, c):
  """stock Keras conv -> BatchNormalization with the same parameters (data_format included)"""
  L = tf.keras.layers
  pad = "same" if c["same"] else "valid"
  df = "channels_first" if c.get("cf") else "channels_last"
  if c["cls"] == "conv":
    conv = L.Conv2D(c["cm"], (c["kh"], c["kw"]), strides=(c["sh"], c["sw"]), padding=pad,
                    dilation_rate=(c["dh"], c["dw"]), use_bias=c["use_bias"], data_format=df)
  else:
    conv = L.DepthwiseConv2D((c["kh"], c["kw"]), strides=(c["sh"], c["sw"]), padding=pad,
                             dilation_rate=(c["dh"], c["dw"]), depth_multiplier=c["cm"],
                             use_bias=c["use_bias"], data_format=df)
  bn = L.BatchNormalization(epsilon=c["eps"], center=c["center"], scale=c["scale"], axis=1 if c.get("cf") else -1)
  conv.build((None,) + x_shape(c)[1:])
  co = cout_of(c)
  bn.build((None, co, 1, 1) if c.get("cf") else (None, 1, 1, co))
  (conv.kernel if c["cls"] == "conv" else conv.depthwise_kernel).assign(c["kernel"])
  if c["use_bias"]:
    conv.bias.assign(c["bias"])
  if c["scale"]:
    bn.gamma.assign(c["gamma"])
  if c["center"]:
    bn.beta.assign(c["beta"])
  bn.moving_mean.assign(c["mean"])
  bn.moving_variance.assign(c["var"])
  return conv, bn


CLASSNAME = {"conv": "QConv2DBatchnorm", "dw": "QDepthwiseConv2DBatchnorm"}


def case_key(c):
  k = {"class": CLASSNAME[c["cls"]],
       "mode": c["mode"], "use_bias": c["use_bias"], "scale": c["scale"], "center": c["center"],
       "quantized": c["qk"] is not None or c["qb"] is not None, "regime": c["regime"]}
  if c.get("cf"):
    k["data_format"] = "channels_first"
  if c.get("global_cf"):
    k["global_data_format"] = "channels_first"
    k["requested"] = c.get("df_req") or "omitted"
  return k


def case_desc(c):
  d = {k: c[k] for k in ("cls", "mode", "use_bias", "scale", "center", "qk", "qb", "act", "regime", "n",
                         "h", "w", "cin", "kh", "kw", "sh", "sw", "dh", "dw", "same", "cm", "eps", "cf",
                         "form", "route", "efd")}
  d["data_format_argument"] = c.get("df_req") or "omitted"
  d["global_data_format_at_construction"] = "channels_first" if c.get("global_cf") else "channels_last"
  d["global_data_format_kept_during_use"] = bool(c.get("global_hold"))
  d["eps"] = float(d["eps"])
  for k in ("kernel", "bias", "gamma", "beta", "mean", "var", "x"):
    d[k] = [float(v) for v in np.asarray(c[k]).ravel()[:64]]
  return d


# --------------------------------------------------------------------------- stream: single layers

def stream_layers(run, tf, qkeras, rng, tier):
  geos = geometries(rng, tier)
  cases = []
  # exact regime: both classes x both modes x use_bias x scale x geometry, with / without quantizers
  for gi, geo in enumerate(geos):
    for mode in ("ema_stats_folding", "batch_stats_folding"):
      for use_bias in (True, False):
        for scale in (True, False):
          # rotate the quantizer choices over the grid so that every cell of it is hit
          k = (gi + (mode == "ema_stats_folding") * 3 + use_bias * 5 + scale * 7)
          variants = [(None, None, "linear")]
          q1 = QUANTS[k % len(QUANTS)]
          q2 = QUANTS[(k + 2) % len(QUANTS)]
          variants.append((q1, q2, "linear"))
          if (k % 3) == 0:
            variants.append((q1, None, "relu"))
          if (k % 3) == 1:
            variants.append((None, q2, "linear"))
          for (qk, qb, act) in variants:
            cases.append(layer_case(rng, geo, mode, use_bias, scale, True, qk, qb, act, "exact"))
  # center=False (used to raise; regression of fix d42f1d8): un-quantized and quantized
  for gi, geo in enumerate(geos[:3] + geos[len(geos) // 2:len(geos) // 2 + 3]):
    for mode in ("ema_stats_folding", "batch_stats_folding"):
      cases.append(layer_case(rng, geo, mode, bool(gi % 2), bool((gi + 1) % 3), False, None, None, "linear", "exact"))
      cases.append(layer_case(rng, geo, mode, True, True, False, QUANTS[gi % len(QUANTS)],
                              QUANTS[(gi + 1) % len(QUANTS)], "linear", "exact"))
  for geo in (geos[1], geos[len(geos) // 2 + 1]):
    cases.append(layer_case(rng, geo, "ema_stats_folding", True, True, False, None, None, "linear", "float"))
  # cross-cutting corners (batch 1, extents of 1, kernel >= input, stride > kernel, dilation + SAME,
  # channels_first): per geometry 4 cases rotating mode / use_bias / scale / center / quantizers
  n_plain = len(cases)
  for gi, geo in enumerate(geometries_cross(tier)):
    for v in range(4):
      k = gi + v
      mode = ("ema_stats_folding", "batch_stats_folding")[(gi + v) % 2]
      use_bias, scale, center = bool((k // 2) % 2), bool(k % 3), bool((k + 1) % 5)
      if v % 2 == 0:
        qk = qb = None
        act = "linear"
      else:
        qk = QUANTS[k % len(QUANTS)] if (k % 5) else None
        qb = QUANTS[(k + 3) % len(QUANTS)] if (k % 7) else None
        act = "relu" if (k % 4 == 3) else "linear"
        if qk is None and qb is None:
          qk = QUANTS[0]
      cases.append(layer_case(rng, geo, mode, use_bias, scale, center, qk, qb, act, "exact"))
  # data-format stream (regression of fix 90019a5: QConv2DBatchnorm dropped its data_format argument):
  # both classes x both process-wide formats x {omitted, channels_last, channels_first}; two thirds
  # un-quantized and linear (judged against stock conv -> BatchNormalization in the expected layout),
  # one third quantized (judged against the property's quantized form)
  for gi, geo in enumerate(geometries_data_format()):
    mode = ("ema_stats_folding", "batch_stats_folding")[(gi // 6 + gi) % 2]
    use_bias, scale, center = bool((gi // 3 + gi) % 2), bool((gi + gi // 6) % 3), bool((gi + 1) % 5)
    if gi % 3 == 2 and geo[4] * geo[5] > 1:
      qk, qb = QUANTS[gi % len(QUANTS)], (QUANTS[(gi + 3) % len(QUANTS)] if gi % 2 else None)
      act = "relu" if gi % 4 == 1 else "linear"
    else:
      qk, qb, act = None, None, "linear"
    cases.append(layer_case(rng, geo, mode, use_bias, scale, center, qk, qb, act, "exact"))
  # the same values in other argument forms / by other inference routes
  for ci, c in enumerate(cases):
    c["form"] = 1 if (ci % 3 == 1) else 0
    c["route"] = ROUTES[ci % len(ROUTES)] if (ci % 2 or ci >= n_plain) else "training=False"
    c["efd"] = (None, 0, 3, -1)[ci % 4] if ci % 5 == 0 else None
  # float regime
  nf = 6 if tier == "quick" else 24
  for gi, geo in enumerate(geos):
    for r in range(nf):
      mode = ("ema_stats_folding", "batch_stats_folding")[(gi + r) % 2]
      use_bias = bool((gi + r) % 3)
      scale = bool((gi // 2 + r) % 4)
      if r % 2 == 0:
        qk = qb = None
      else:
        qk = QUANTS[(gi + r) % len(QUANTS)]
        qb = QUANTS[(gi + r + 1) % len(QUANTS)]
      cases.append(layer_case(rng, geo, mode, use_bias, scale, True, qk, qb, "linear", "float"))

  lines = [lean_layer_line(tf, c, run) for c in cases]
  outs = core.run_driver("C15", lines)

  for ci, (c, o) in enumerate(zip(cases, outs)):
    key = case_key(c)
    tag = "%s|%s|%s" % (c["cls"], c["mode"][:3], c["regime"])
    run.case(("layer", ci), nontrivial=True, sample={"stream": "layer", "case": case_desc(c)} if ci % 97 == 0 else None)
    run.count("layer:" + tag)
    run.count("layer:quantized" if key["quantized"] else "layer:unquantized")
    run.count("geom:%s%s%s" % ("same" if c["same"] else "valid", "+stride" if c["sh"] * c["sw"] > 1 else "",
                               "+dilation" if c["dh"] * c["dw"] > 1 else ""))
    if c["n"] == 1:
      run.count("geom:batch=1")
    if c["h"] == 1 or c["w"] == 1:
      run.count("geom:extent=1")
    if c["sh"] > c["kh"] or c["sw"] > c["kw"]:
      run.count("geom:stride>kernel")
    if c["cf"]:
      run.count("geom:channels_first:" + c["cls"])
    if c["global_hold"]:
      run.count("data_format:%s:global=%s:argument=%s" % (c["cls"], "channels_first" if c["global_cf"] else "channels_last",
                                                         c["df_req"] or "omitted"))
    run.count("route:" + c["route"])
    run.count("argform:%d" % c["form"])
    x = c["x"]
    err = None
    layer = None
    try:
      with global_format(tf, c["global_cf"] and c["global_hold"]):
        layer = build_real_layer(tf, qkeras, c)
        y_impl = call_layer(tf, layer, x, c["route"])
        fw = layer.get_folded_weights()
        fk_impl, fb_impl = fw[0].numpy(), fw[1].numpy()
        it_after = int(layer._iteration.numpy())   # pylint: disable=protected-access
    except Exception as e:  # pylint: disable=broad-except
      err = "%s: %s" % (type(e).__name__, str(e)[:200])
    # ---- the layout that was built (model: ctorCfg) and the one that was asked for (the requested
    #      one, or the process-wide one when the argument is omitted) — judged even when the wrongly
    #      built layer cannot run on the input
    if layer is not None:
      built_cf = (layer.data_format == "channels_first")
      run.compared += 1
      if built_cf != bool(o["built_cf"]):
        run.disagree("layer:data_format", case_desc(c), layer.data_format, "channels_first" if o["built_cf"] else "channels_last")
      if built_cf != c["cf"]:
        run.count("clause:data_format_respected:FAILS")
        run.violate("data_format_respected", {"class": CLASSNAME[c["cls"]], "why": "data_format-ignored",
                                              "requested": c["df_req"] or "omitted",
                                              "global": "channels_first" if c["global_cf"] else "channels_last"},
                    {"case": case_desc(c), "layer.data_format": layer.data_format,
                     "expected": "channels_first" if c["cf"] else "channels_last"},
                    mirrored=(built_cf == bool(o["built_cf"])))
      else:
        run.count("clause:data_format_respected:holds")
    x = tf.constant(c["x"])
    y_model = dec(o["y"])
    # ---- center=False (repaired by d42f1d8: beta None -> 0): same checks as every other case
    if not c["center"]:
      run.count("layer:center=False")
    if err is not None:
      run.violate("callable", dict(key, why="raises"), {"case": case_desc(c), "error": err}, mirrored=False)
      continue
    # ---- an inference call is not a training step: the step counter stays at -1
    if it_after != -1:
      run.violate("inference_is_not_a_step", dict(key, route=c["route"]),
                  {"case": case_desc(c), "_iteration": it_after}, mirrored=False)
    if not (np.all(np.isfinite(y_impl)) and np.all(np.isfinite(fk_impl)) and np.all(np.isfinite(fb_impl))):
      run.count("clause:finite:FAILS")
      run.violate("finite", key, {"case": case_desc(c), "what": "non-finite layer output or folded weights"},
                  mirrored=False)
      continue
    yi = fr(y_impl)
    fki, fbi = fr(fk_impl), fr(fb_impl)
    fk_m, fb_m = dec(o["fk"]), dec(o["fb"])
    mag = dec(o["mag"])
    ref_m = dec(o["ref"])
    tolc = F(fan_in(c) + 4, 2 ** 22)
    co = cout_of(c)
    if c["regime"] == "exact":
      # ---- model tie, bit for bit: output, folded kernel, folded bias
      run.compared += 3
      if yi != y_model:
        run.disagree("layer_exact:y", case_desc(c), [float(v) for v in yi[:16]], [float(v) for v in y_model[:16]])
      if fki != fk_m:
        run.disagree("layer_exact:folded_kernel", case_desc(c), [float(v) for v in fki[:16]], [float(v) for v in fk_m[:16]])
      if fbi != fb_m:
        run.disagree("layer_exact:folded_bias", case_desc(c), [float(v) for v in fbi[:16]], [float(v) for v in fb_m[:16]])
      in_band = False
    else:
      # ---- float regime: folded weights within 2 roundings of the exact formula
      run.compared += 2
      badk = [i for i, (a, b) in enumerate(zip(fki, fk_m)) if abs(a - b) > F(1, 2 ** 22) * abs(b)]
      magb = dec(o["magb"])
      badb = [i for i in range(co) if abs(fbi[i] - fb_m[i]) > F(1, 2 ** 22) * magb[i]]
      if badk:
        run.disagree("layer_float:folded_kernel", case_desc(c), [float(fki[i]) for i in badk[:8]], [float(fk_m[i]) for i in badk[:8]])
      if badb:
        run.disagree("layer_float:folded_bias", case_desc(c), [float(fbi[i]) for i in badb[:8]], [float(fb_m[i]) for i in badb[:8]])
      in_band = False
      if key["quantized"]:
        # band device: did the float rounding of the fold move an entry across a breakpoint?
        qfk_m, qfb_m = dec(o["qfk"]), dec(o["qfb"])
        qk_real = layer.kernel_quantizer_internal if c["cls"] == "conv" else layer.depthwise_quantizer_internal
        qfk_i = fr(qk_real(tf.constant(fk_impl)).numpy()) if c["qk"] else fki
        qfb_i = fr(layer.bias_quantizer_internal(tf.constant(fb_impl)).numpy()) if c["qb"] else fbi
        dk = [i for i, (a, b) in enumerate(zip(qfk_i, qfk_m)) if a != b]
        db = [i for i, (a, b) in enumerate(zip(qfb_i, qfb_m)) if a != b]
        if c["qk"] is None and dk:
          dk = []   # unquantized kernel: compared through the tolerance above
        if c["qb"] is None and db:
          db = []
        if dk or db:
          in_band = True
          run.count("band:breakpoint-crossed")
          stepk = F(2) ** (c["qk"]["integer"] - c["qk"]["bits"] + (1 if c["qk"]["keep_negative"] else 0)) if c["qk"] else 0
          stepb = F(2) ** (c["qb"]["integer"] - c["qb"]["bits"] + (1 if c["qb"]["keep_negative"] else 0)) if c["qb"] else 0
          if any(abs(qfk_i[i] - qfk_m[i]) != stepk for i in dk) or any(abs(qfb_i[i] - qfb_m[i]) != stepb for i in db):
            run.disagree("layer_float:band", case_desc(c), {"k": dk[:4], "b": db[:4]}, "not adjacent codes")
        else:
          run.count("band:outside")
      if key["quantized"] and not in_band and c["qk"] is not None and c["qb"] is not None:
        run.compared += 1
        if yi != y_model:
          run.disagree("layer_float:y_quantized", case_desc(c), [float(v) for v in yi[:16]], [float(v) for v in y_model[:16]])

    # ---- clause oracle
    if not key["quantized"] and c["act"] == "linear":
      # (a) folded layer == conv -> BN with the same parameters: exact-rational reference and the
      #     real stock Keras layers, within 2 ulp x fan-in of the magnitude
      conv, bn = build_reference(tf, c)
      y_ref = fr(bn(conv(x), training=False).numpy())
      worst = 0
      bad = None
      if not (len(yi) == len(ref_m) == len(y_ref)):
        # another output geometry than conv -> BN with the same parameters
        run.count("clause:fold_equals_conv_bn:FAILS")
        run.violate("fold_equals_conv_bn", dict(key, why="output-size"),
                    {"case": case_desc(c), "layer_shape": list(np.shape(y_impl)), "layer_elements": len(yi),
                     "conv_bn_elements": len(y_ref), "expected_elements": len(ref_m)}, mirrored=False)
        continue
      for t in range(len(yi)):
        tol = tolc * mag[t]
        if abs(yi[t] - ref_m[t]) > tol or abs(y_ref[t] - ref_m[t]) > tol:
          bad = t
          break
      bit = (yi == y_ref)
      run.count("clause:fold_equals_conv_bn:" + ("bit-equal" if bit else "within-tolerance"))
      if bad is not None:
        run.violate("fold_equals_conv_bn", key,
                    {"case": case_desc(c), "index": bad, "layer": float(yi[bad]), "keras_conv_bn": float(y_ref[bad]),
                     "exact_conv_bn": float(ref_m[bad]), "tolerance": float(tolc * mag[bad])},
                    mirrored=(yi == y_model))
    else:
      # (b) quantized form: conv(x, Qk(folded kernel)) + Qb(folded bias), computed exactly by Lean
      #     from the property's formula (C15_quantized_form / C15_folded_weights_spec)
      if not in_band:
        run.count("clause:quantized_form:checked")
        if c["regime"] == "exact" or (c["qk"] is not None and c["qb"] is not None):
          okq = (yi == y_model)
        else:
          okq = all(abs(a - b) <= tolc * m for a, b, m in zip(yi, y_model, mag))
        if not okq:
          t = next((i for i, (a, b) in enumerate(zip(yi, y_model)) if a != b), None)
          if t is None:   # same prefix, different number of output elements (wrong output geometry)
            run.violate("quantized_form", dict(key, why="output-size"),
                        {"case": case_desc(c), "layer_elements": len(yi), "expected_elements": len(y_model)},
                        mirrored=False)
          else:
            run.violate("quantized_form", key, {"case": case_desc(c), "index": t, "layer": float(yi[t]),
                                                "expected": float(y_model[t])}, mirrored=False)
    # (c) unfolded layer with the transferred weights == folded layer (model side: C15_unfold)
    if dec(o["uy"]) != y_model or dec(o["uk"]) != fk_m or dec(o["ub"]) != fb_m:
      run.disagree("layer:unfold_model_side", case_desc(c), "uy/uk/ub", "y/fk/fb")


# --------------------------------------------------------------------------- model streams

SMALLQ = [
    {"bits": 3, "integer": 0, "symmetric": True, "keep_negative": True},
    {"bits": 4, "integer": 1, "symmetric": False, "keep_negative": True},
    {"bits": 2, "integer": 0, "symmetric": True, "keep_negative": True},
]


# layer types of a spec that own a kernel (Dense / QDense are applied to the 4-d tensor: a 1x1 convolution)
CONVLIKE = ("conv", "dw", "qconv", "fconv", "fdw", "dense", "qdense")
VARKEY = {"kernel": "kernel", "depthwise_kernel": "kernel", "bias": "bias", "gamma": "gamma", "beta": "beta",
          "moving_mean": "mean", "moving_variance": "var"}


def var_short_name(w):
  return w.name.split("/")[-1].split(":")[0]


def named_weight_list(lay, nd, iteration=-1):
  """the arrays of a spec node in the order of THIS layer object's `weights` — the order depends on
  `trainable`: a frozen folded layer lists `iteration` before the batch-norm variables"""
  out = []
  for w in lay.weights:
    nm = var_short_name(w)
    if nm == "iteration":
      out.append(np.array(iteration, np.int64))
    else:
      out.append(np.asarray(nd[VARKEY[nm]]).reshape(tuple(w.shape)))
  return out


def conv_params(rng, cls, kh, kw, cm, same=False, sh=1, sw=1, use_bias=True, act="linear", qk=None, qb=None):
  return {"cls": cls, "kh": kh, "kw": kw, "sh": sh, "sw": sw, "dh": 1, "dw": 1, "same": same, "cm": cm,
          "use_bias": use_bias, "act": act, "qk": qk, "qb": qb}


def bn_params(rng, eps=EPS_EXACT, scale=True, center=True):
  return {"eps": eps, "scale": scale, "center": center}


def fill_weights(rng, node, cin):
  """exact-regime parameters with a small bit budget (two layers deep stays exact in float32)"""
  t = node["type"]
  if t in CONVLIKE:
    node["cin"] = cin
    co = node["cm"] if node["cls"] == "conv" else cin * node["cm"]
    node["kernel"] = dy(rng, (node["kh"], node["kw"], cin, node["cm"]), node.get("kbits", 2), -2)
    node["bias"] = dy(rng, (co,), 2, -1)
    node["cout"] = co
  if t in ("bn", "fconv", "fdw"):
    co = node["cout"] if t != "bn" else cin
    node["cout"] = co
    j = rng.integers(-1, 2, size=co)
    node["var"] = (np.float32(4.0) ** j.astype(np.float32) - np.float32(node["eps"])).astype(np.float32)
    node["gamma"] = rng.choice(np.array([-2, -1, -0.5, 0.5, 1, 2, 0], np.float32), size=co,
                               p=[.15, .15, .15, .15, .15, .15, .1]).astype(np.float32)
    node["beta"] = dy(rng, (co,), 2, -1)
    node["mean"] = dy(rng, (co,), 2, -1)
  return node.get("cout", cin)


def templates_unfold(rng):
  """specs of models made of folded layers"""
  def F(name, cls, inp, **kw):
    mode = ("ema_stats_folding", "batch_stats_folding")[int(rng.integers(2))]
    if "q" in kw:
      q = list(kw.pop("q"))
    else:
      r = rng.random()
      qa, qb_ = SMALLQ[int(rng.integers(len(SMALLQ)))], SMALLQ[int(rng.integers(len(SMALLQ)))]
      q = [None, None] if r < 0.3 else [qa, qb_] if r < 0.6 else [qa, None] if r < 0.8 else [None, qb_]
    d = {"name": name, "type": "f" + cls, "inputs": [inp], "mode": mode,
         "eps": EPS_EXACT, "scale": bool(rng.random() < 0.8), "center": bool(rng.random() < 0.7)}
    d.update(conv_params(rng, cls, kw.pop("kh", 2), kw.pop("kw", 2), kw.pop("cm", 2),
                         use_bias=bool(rng.random() < 0.6), qk=q[0], qb=q[1], **kw))
    return d
  out = []
  out.append(("unf-seq", (5, 5, 2), [
      F("f1", "conv", "in", cm=3), {"name": "r1", "type": "relu", "inputs": ["f1"]}, F("f2", "dw", "r1", cm=1)]))
  out.append(("unf-branch", (5, 5, 2), [
      F("fa", "conv", "in", cm=2), F("fb", "conv", "in", cm=2),
      {"name": "add", "type": "add", "inputs": ["fa", "fb"]},
      {"name": "r1", "type": "relu", "inputs": ["add"]}, F("f3", "dw", "r1", cm=2, sh=2, sw=2)]))
  out.append(("unf-residual", (4, 4, 2), [
      F("fd", "dw", "in", cm=1, same=True, kh=3, kw=3),
      {"name": "add", "type": "add", "inputs": ["fd", "in"]}, F("fc", "conv", "add", cm=3, act="relu")]))
  # several folded layers of the SAME class with DIFFERENT quantizer options (None included), the
  # quantized one first: anything shared between the conversions of two layers (config templates,
  # caches keyed by class) shows up in the later, un-quantized layers
  qa, qb_ = SMALLQ[int(rng.integers(len(SMALLQ)))], SMALLQ[int(rng.integers(len(SMALLQ)))]
  for cls, cm in (("conv", 2), ("dw", 1)):
    out.append(("unf-mixq-" + cls, (4, 4, 2), [
        F("g1", cls, "in", cm=cm, q=(qa, qb_)), F("g2", cls, "g1", cm=cm, kh=1, kw=1, q=(None, None)),
        F("g3", cls, "g2", cm=cm, kh=1, kw=1, q=(qb_, None))]))
    out.append(("unf-mixq2-" + cls, (4, 4, 2), [
        F("g1", cls, "in", cm=cm, kh=1, kw=1, q=(None, qa)), F("g2", cls, "g1", cm=cm, q=(qa, qa)),
        F("g3", cls, "g2", cm=cm, kh=1, kw=1, q=(None, None))]))
  return out


def folded_node(rng, name, cls, inp, **kw):
  """a folded layer with random folding mode / quantizers / scale / center / use_bias"""
  mode = ("ema_stats_folding", "batch_stats_folding")[int(rng.integers(2))]
  r = rng.random()
  qa, qb_ = SMALLQ[int(rng.integers(len(SMALLQ)))], SMALLQ[int(rng.integers(len(SMALLQ)))]
  q = [None, None] if r < 0.3 else [qa, qb_] if r < 0.6 else [qa, None] if r < 0.8 else [None, qb_]
  d = {"name": name, "type": "f" + cls, "inputs": [inp], "mode": mode, "kbits": 1,
       "eps": EPS_EXACT, "scale": bool(rng.random() < 0.8), "center": bool(rng.random() < 0.7)}
  d.update(conv_params(rng, cls, kw.pop("kh", 2), kw.pop("kw", 2), kw.pop("cm", 2),
                       use_bias=bool(rng.random() < 0.6), qk=q[0], qb=q[1], **kw))
  return d


def templates_frozen(rng):
  """models that MIX folded layers with plain weighted layers — stock Conv2D / DepthwiseConv2D / Dense /
  BatchNormalization (with and without affine variables: center=False, scale=False owns non-trainable
  variables only), QConv2D, QDense.  Every variable of every layer gets a random value (a fresh
  initialisation differs); 1-bit kernels keep chains of four weighted layers exact in float32."""
  F = lambda *a, **kw: folded_node(rng, *a, **kw)   # noqa: E731

  def P(name, t, inp, **kw):   # plain weighted layer
    cls = "dw" if t == "dw" else "conv"
    d = {"name": name, "type": t, "inputs": [inp], "kbits": 1}
    q = SMALLQ[int(rng.integers(len(SMALLQ)))] if t in ("qconv", "qdense") else None
    d.update(conv_params(rng, cls, kw.pop("kh", 1), kw.pop("kw", 1), kw.pop("cm", 2),
                         use_bias=kw.pop("use_bias", bool(rng.random() < 0.7)), qk=q,
                         qb=(q if rng.random() < 0.5 else None), **kw))
    return d

  def B(name, inp, scale, center):
    return {"name": name, "type": "bn", "inputs": [inp], "eps": EPS_EXACT, "scale": scale, "center": center}

  def R(name, inp):
    return {"name": name, "type": "relu", "inputs": [inp]}
  rb = lambda: bool(rng.random() < 0.5)   # noqa: E731
  out = []
  out.append(("frz-seq", (5, 5, 2), [
      F("f1", "conv", "in", cm=3), B("bn0", "f1", False, False), P("dn", "dense", "bn0", cm=3), R("r1", "dn"),
      F("f2", "dw", "r1", cm=1)]))
  out.append(("frz-branch", (5, 5, 2), [
      F("fa", "conv", "in", cm=2), P("cb", "conv", "in", kh=2, kw=2, cm=2),
      {"name": "add", "type": "add", "inputs": ["fa", "cb"]}, B("bn1", "add", rb(), rb()),
      F("f3", "dw", "bn1", cm=2, sh=2, sw=2)]))
  out.append(("frz-residual", (4, 4, 2), [
      F("fd", "dw", "in", cm=1, same=True, kh=3, kw=3), {"name": "add", "type": "add", "inputs": ["fd", "in"]},
      P("qc", "qconv", "add", cm=3), B("bnA", "qc", False, rb()), P("qd", "qdense", "bnA", cm=2)]))
  out.append(("frz-plain-ends", (4, 4, 2), [
      P("c0", "dw", "in", kh=2, kw=2, cm=1), F("f1", "conv", "c0", cm=2, kh=1, kw=1, act="relu"),
      B("bn0", "f1", False, False), P("c2", "conv", "bn0", cm=2)]))
  out.append(("frz-folded-only", (4, 4, 2), [
      F("g1", "conv", "in", cm=2), F("g2", "conv", "g1", cm=2, kh=1, kw=1), F("g3", "dw", "g2", cm=1, kh=1, kw=1)]))
  out.append(("frz-bn-around", (4, 4, 2), [
      B("bnA", "in", False, False), F("f1", "dw", "bnA", cm=2), B("bnB", "f1", True, False),
      F("f2", "conv", "bnB", cm=2, kh=1, kw=1)]))
  return out


FREEZE_PLANS = ("layers", "model", "layers-at-construction", "model-but-one", "none", "layers")


def plan_freeze(rng, spec, plan):
  """sets nd["trainable"] (what `layer.trainable` is when unfold_model runs) and nd["ctor_frozen"]"""
  weighted = [nd for nd in spec if nd["type"] in CONVLIKE or nd["type"] == "bn"]
  for nd in spec:
    nd["trainable"] = True
    nd["ctor_frozen"] = False
    nd["init"] = [dy(rng, (3,), 3, 0) for _ in range(4)]
  if plan in ("layers", "layers-at-construction"):
    pick = [nd for nd in weighted if rng.random() < 0.5] or [weighted[int(rng.integers(len(weighted)))]]
    for nd in pick:
      nd["trainable"] = False
      nd["ctor_frozen"] = plan == "layers-at-construction"
  elif plan == "model":
    for nd in spec:
      nd["trainable"] = False
  elif plan == "model-but-one":
    keep = weighted[int(rng.integers(len(weighted)))]
    for nd in spec:
      nd["trainable"] = nd is keep


def apply_freeze(m, spec, plan):
  """the public routes: `model.trainable = ...` (recursive) and `layer.trainable = ...`"""
  want = plan not in ("model", "model-but-one")
  if m.trainable != want:
    m.trainable = want
  for nd in spec:
    lay = m.get_layer(nd["name"])
    if lay.trainable != nd["trainable"]:
      lay.trainable = nd["trainable"]


CANON = ("kernel", "bias", "gamma", "beta", "mean", "var")


def judge_unfolded_layers(m, um, by):
  """EVERY variable (trainable or not) of EVERY layer of the unfolded model against what the property
  asks for: a folded layer -> the plain class with use_bias=True holding exactly [folded kernel, folded
  bias] of the layer's CURRENT parameters (exact rationals, and get_folded_weights() bit for bit); any
  other layer -> the same class with all its variables equal to the source's (spec values and the
  source's get_weights()).  Returns (ok, why, config differences, canonical weights per layer, flags)."""
  ok, why, cfg_bad, canon, flags = True, "", [], [], []

  def fail(msg):
    nonlocal ok, why
    if ok:
      ok, why = False, msg
  if len(m.layers) != len(um.layers):
    fail("number of layers %d -> %d" % (len(m.layers), len(um.layers)))
  for l, ul in zip(m.layers, um.layers):
    cn = l.__class__.__name__
    nd = by.get(l.name)
    uvars = {}
    for w in ul.weights:
      uvars[VARKEY.get(var_short_name(w), var_short_name(w))] = w.numpy()
    canon.append([fr(uvars[k]) for k in CANON if k in uvars])
    flags.append(bool(ul.trainable))
    if cn in ("QConv2DBatchnorm", "QDepthwiseConv2DBatchnorm"):
      want = "QConv2D" if cn == "QConv2DBatchnorm" else "QDepthwiseConv2D"
      fw = [w.numpy() for w in l.get_folded_weights()]
      cc = {"cls": nd["cls"], "cin": nd["cin"], "cm": nd["cm"], "eps": nd["eps"], "scale": nd["scale"],
            "center": nd["center"], "use_bias": nd["use_bias"]}
      exp = expected_folded(cc, nd)
      if ul.__class__.__name__ != want or not ul.use_bias or sorted(uvars) != ["bias", "kernel"] or \
         not (np.array_equal(uvars["kernel"], fw[0]) and np.array_equal(uvars["bias"], fw[1])):
        fail("layer %s -> %s, weights differ from get_folded_weights()" % (l.name, ul.__class__.__name__))
      elif exp is not None and (fr(uvars["kernel"]), fr(uvars["bias"])) != exp[:2]:
        fail("layer %s: unfolded weights are not the fold of the layer's CURRENT parameters" % l.name)
      bad, diff = check_unfolded_config(l, ul)
      if bad:
        cfg_bad.append((l.name, diff))
    else:
      if ul.__class__.__name__ != cn:
        fail("layer %s changed class" % l.name)
        continue
      sw, uw = l.get_weights(), ul.get_weights()
      if len(sw) != len(uw) or not all(np.array_equal(a, b) for a, b in zip(sw, uw)):
        t = [i for i, (a, b) in enumerate(zip(sw, uw)) if not np.array_equal(a, b)]
        fail("layer %s (%s, trainable=%s, %d trainable / %d non-trainable variables): variables %s of the unfolded "
             "model's layer differ from the source layer's" % (
                 l.name, cn, l.trainable, len(l.trainable_weights), len(l.non_trainable_weights),
                 [var_short_name(ul.weights[i]) for i in t] or "count"))
      elif nd is not None:
        for k, v in uvars.items():
          if k in nd and fr(v) != fr(nd[k]):
            fail("layer %s: variable %s of the unfolded model is not the value the source layer was given" % (l.name, k))
      if cn != "InputLayer" and ul.get_config() != l.get_config():
        cfg_bad.append((l.name, "get_config() of a non-folded layer changed"))
    # (unfold_model builds a NEW Input: name and flag of the input layer are not carried over)
    if cn != "InputLayer" and bool(ul.trainable) != bool(l.trainable):
      cfg_bad.append((l.name, {"trainable": (bool(l.trainable), bool(ul.trainable))}))
  return ok, why, cfg_bad, canon, flags


def node_weight_list(nd, iteration=-1):
  """get_weights() order of one layer of a spec"""
  if nd["type"] not in ("fconv", "fdw"):
    return []
  ws = [nd["kernel"]]
  if nd["use_bias"]:
    ws.append(nd["bias"])
  if nd["scale"]:
    ws.append(nd["gamma"])
  if nd["center"]:
    ws.append(nd["beta"])
  return ws + [np.array(iteration, np.int64), nd["mean"], nd["var"]]


def templates_stock(rng):
  """specs of stock conv + BatchNormalization models; what the selection rule must do with each"""
  def C(name, cls, inp, **kw):
    d = {"name": name, "type": cls, "inputs": [inp]}
    d.update(conv_params(rng, cls, kw.pop("kh", 2), kw.pop("kw", 2), kw.pop("cm", 2),
                         use_bias=kw.pop("use_bias", bool(rng.random() < 0.6)), **kw))
    return d

  def B(name, inp):
    d = {"name": name, "type": "bn", "inputs": [inp]}
    d.update(bn_params(rng, scale=bool(rng.random() < 0.8)))
    return d

  def R(name, inp):
    return {"name": name, "type": "relu", "inputs": [inp]}

  def A(name, a, b):
    return {"name": name, "type": "add", "inputs": [a, b]}
  out = []
  out.append(("seq", (5, 5, 2), True, [C("c1", "conv", "in", cm=3), B("b1", "c1"), R("r1", "b1"),
                                        C("d1", "dw", "r1", cm=1), B("b2", "d1")]))
  out.append(("branch", (5, 5, 2), True, [C("ca", "conv", "in"), B("ba", "ca"), C("cb", "conv", "in"), B("bb", "cb"),
                                           A("add", "ba", "bb"), C("d1", "dw", "add", cm=2, sh=2, sw=2), B("b3", "d1")]))
  out.append(("shared-conv", (4, 4, 2), True, [C("c1", "conv", "in", same=True), B("b1", "c1"), A("add", "b1", "c1"),
                                                C("c2", "conv", "add", cm=3), B("b2", "c2")]))
  out.append(("relu-between", (5, 5, 2), True, [C("c1", "conv", "in"), R("r1", "c1"), B("b1", "r1"),
                                                 C("d1", "dw", "b1", cm=1)]))
  out.append(("bn-first", (5, 5, 2), True, [B("b0", "in"), C("c1", "conv", "b0", cm=3), B("b1", "c1")]))
  out.append(("residual-dw", (4, 4, 2), True, [C("d1", "dw", "in", cm=1, same=True, kh=3, kw=3), B("b1", "d1"),
                                                A("add", "b1", "in"), R("r", "add")]))
  qc = C("q1", "conv", "in", cm=2)
  qc["type"] = "qconv"
  qc["qk"] = qc["qb"] = SMALLQ[1]
  # (model_quantize is not run on this one: with a qkeras layer first it raises UnboundLocalError
  #  `q_name` in utils.py — a C12 matter, see notes)
  out.append(("qconv-bn", (5, 5, 2), False, [qc, B("b1", "q1"), C("c2", "conv", "b1"), B("b2", "c2")]))
  # Conv2D(activation=relu) -> BN: selected by the code although act(BN(.)) != BN(act(.))
  out.append(("conv-act-bn", (5, 5, 2), False, [C("c1", "conv", "in", act="relu", cm=3), B("b1", "c1")]))
  # ---- fix round Q: fold sites feeding ORDER-SENSITIVE multi-input layers (Subtract, Concatenate);
  # the removed batch norm is the first / the second / both / one of several inputs, with and without
  # a conv that is shared (read by its batch norm AND by the merge: not a site)
  def M(name, kind, *inputs):
    return {"name": name, "type": kind, "inputs": list(inputs)}
  S = dict(same=True)
  out.append(("sub-bn-first", (4, 4, 2), True, [C("ca", "conv", "in", **S), B("ba", "ca"), C("cb", "conv", "in", **S),
                                                 M("sub", "sub", "ba", "cb")]))
  out.append(("sub-bn-second", (4, 4, 2), True, [C("ca", "conv", "in", **S), C("cb", "conv", "in", **S), B("bb", "cb"),
                                                  M("sub", "sub", "ca", "bb"), R("r", "sub")]))
  out.append(("sub-bn-both", (4, 4, 2), True, [C("ca", "dw", "in", cm=1, **S), B("ba", "ca"),
                                                C("cb", "dw", "in", cm=1, **S), B("bb", "cb"),
                                                M("sub", "sub", "ba", "bb"), C("c3", "conv", "sub", cm=2), B("b3", "c3")]))
  out.append(("cat-bn-first", (4, 4, 2), True, [C("ca", "conv", "in", cm=1, **S), B("ba", "ca"),
                                                 C("cb", "conv", "in", cm=3, **S), M("cat", "concat", "ba", "cb"),
                                                 C("c3", "conv", "cat", cm=2), B("b3", "c3")]))
  out.append(("cat-bn-second", (4, 4, 2), True, [C("ca", "conv", "in", cm=1, **S), C("cb", "dw", "in", cm=1, **S),
                                                  B("bb", "cb"), M("cat", "concat", "ca", "bb")]))
  out.append(("cat4-mixed", (4, 4, 2), True, [C("ca", "conv", "in", cm=1, **S), B("ba", "ca"),
                                               C("cb", "conv", "in", cm=2, **S),
                                               C("cc", "dw", "in", cm=1, **S), B("bc", "cc"),
                                               M("cat", "concat", "ba", "cb", "in", "bc"), R("r", "cat")]))
  out.append(("sub-shared-conv", (4, 4, 2), True, [C("cs", "conv", "in", **S), B("bs", "cs"), M("sub", "sub", "bs", "cs"),
                                                    C("ca", "conv", "in", **S), B("ba", "ca"),
                                                    M("cat", "concat", "ba", "sub", "cs")]))
  out.append(("sub-no-bn", (4, 4, 2), True, [C("ca", "conv", "in", **S), C("cb", "conv", "in", **S),
                                              M("sub", "sub", "ca", "cb")]))
  return out


ORDER_FAMILY = ("sub-bn-first", "sub-bn-second", "sub-bn-both", "cat-bn-first", "cat-bn-second", "cat4-mixed",
                "sub-shared-conv", "sub-no-bn")


def inbound_names(model):
  """name -> names of the inbound layers IN THE ORDER the layer is fed in THIS model (public config)"""
  out = {}
  for lc in model.get_config()["layers"]:
    nodes = lc.get("inbound_nodes") or []
    out[lc["name"]] = [e[0] for e in nodes[0]] if nodes else []
  return out


def build_keras(tf, qkeras, in_shape, spec, rng):
  """build the real model of a spec, fill its parameters; returns (model, spec with shapes)"""
  L = tf.keras.layers
  inp = L.Input(in_shape, name="in")
  tens = {"in": inp}
  made = {}
  for nd in spec:
    t = nd["type"]
    xs = [tens[i] for i in nd["inputs"]]
    ish = tuple(xs[0].shape[1:])
    nd["h"], nd["w"] = int(ish[0]), int(ish[1])
    fill_weights(rng, nd, int(ish[2]))
    ctor_kw = {"trainable": False} if nd.get("ctor_frozen") else {}
    if t in ("dense", "qdense"):
      kw = dict(use_bias=nd["use_bias"], name=nd["name"], activation=(None if nd["act"] == "linear" else nd["act"]),
                **ctor_kw)
      if t == "dense":
        lay = L.Dense(nd["cm"], **kw)
      else:
        lay = qkeras.QDense(nd["cm"], kernel_quantizer=qstr(nd["qk"]), bias_quantizer=qstr(nd["qb"]), **kw)
      y = lay(xs[0])
    elif t in CONVLIKE:
      pad = "same" if nd["same"] else "valid"
      kw = dict(strides=(nd["sh"], nd["sw"]), padding=pad, use_bias=nd["use_bias"], name=nd["name"],
                activation=(None if nd["act"] == "linear" else nd["act"]), **ctor_kw)
      if t == "conv":
        lay = L.Conv2D(nd["cm"], (nd["kh"], nd["kw"]), **kw)
      elif t == "dw":
        lay = L.DepthwiseConv2D((nd["kh"], nd["kw"]), depth_multiplier=nd["cm"], **kw)
      elif t == "qconv":
        lay = qkeras.QConv2D(nd["cm"], (nd["kh"], nd["kw"]), kernel_quantizer=qstr(nd["qk"]),
                             bias_quantizer=qstr(nd["qb"]), **kw)
      else:
        bnkw = dict(epsilon=nd["eps"], scale=nd["scale"], center=nd["center"], folding_mode=nd["mode"],
                    bias_quantizer=qstr(nd["qb"]))
        if t == "fconv":
          lay = qkeras.QConv2DBatchnorm(nd["cm"], (nd["kh"], nd["kw"]), kernel_quantizer=qstr(nd["qk"]), **kw, **bnkw)
        else:
          lay = qkeras.QDepthwiseConv2DBatchnorm((nd["kh"], nd["kw"]), depth_multiplier=nd["cm"],
                                                 depthwise_quantizer=qstr(nd["qk"]), **kw, **bnkw)
      y = lay(xs[0])
    elif t == "bn":
      lay = L.BatchNormalization(epsilon=nd["eps"], scale=nd["scale"], center=nd["center"], name=nd["name"], **ctor_kw)
      y = lay(xs[0])
    elif t == "relu":
      lay = L.ReLU(name=nd["name"])
      y = lay(xs[0])
    elif t == "add":
      lay = L.Add(name=nd["name"])
      y = lay(xs)
    elif t == "sub":
      lay = L.Subtract(name=nd["name"])
      y = lay(xs)
    elif t == "concat":
      nd["chans"] = [int(v.shape[-1]) for v in xs]
      lay = L.Concatenate(name=nd["name"])
      y = lay(xs)
    else:
      raise core.InfraError("bad spec type " + t)
    tens[nd["name"]] = y
    made[nd["name"]] = lay
  model = tf.keras.Model(inp, tens[spec[-1]["name"]])
  for nd in spec:
    assign_node(nd, made[nd["name"]])
  return model


def assign_node(nd, lay):
  t = nd["type"]
  if t in ("conv", "qconv", "fconv"):
    lay.kernel.assign(nd["kernel"])
  if t in ("dense", "qdense"):
    lay.kernel.assign(nd["kernel"].reshape(tuple(lay.kernel.shape)))
  if t in ("dw", "fdw"):
    lay.depthwise_kernel.assign(nd["kernel"])
  if t in CONVLIKE and nd["use_bias"]:
    lay.bias.assign(nd["bias"])
  if t in ("bn", "fconv", "fdw"):
    bn = lay if t == "bn" else lay.batchnorm
    if nd["scale"]:
      bn.gamma.assign(nd["gamma"])
    if nd["center"]:
      bn.beta.assign(nd["beta"])
    bn.moving_mean.assign(nd["mean"])
    bn.moving_variance.assign(nd["var"])


def lean_graph_line(tf, model, spec, x, run, mode="ema_stats_folding", hasq=()):
  """the layer DAG in model.layers order, with every layer's parameters"""
  by = {nd["name"]: nd for nd in spec}
  names = [l.name for l in model.layers]
  idx = {n: i for i, n in enumerate(names)}
  nodes, tab = [], []
  for n in names:
    if n == "in":
      nodes.append({"kind": "input", "preds": [], "op": "input"})
      continue
    nd = by[n]
    t = nd["type"]
    o = {"preds": [idx[i] for i in nd["inputs"]]}
    if "trainable" in nd:
      o["trainable"] = bool(nd["trainable"])
    if "init" in nd:
      o["init"] = [enc(a) for a in nd["init"]]
    if t in CONVLIKE:
      o.update({"cls": nd["cls"], "n": int(x.shape[0]), "h": nd["h"], "w": nd["w"], "cin": nd["cin"],
                "kh": nd["kh"], "kw": nd["kw"], "sh": nd["sh"], "sw": nd["sw"], "dh": 1, "dw": 1,
                "same": nd["same"], "cm": nd["cm"], "kernel": enc(nd["kernel"]),
                "bias": enc(nd["bias"]) if nd["use_bias"] else None, "qk": nd["qk"], "qb": nd["qb"],
                "act": nd["act"]})
    if t in ("bn", "fconv", "fdw"):
      o.update({"gamma": enc(nd["gamma"]) if nd["scale"] else None,
                "beta": enc(nd["beta"]) if nd["center"] else None, "mean": enc(nd["mean"]),
                "var": enc(nd["var"]), "eps": core.rj(float(np.float32(nd["eps"]))), "cout": nd["cout"]})
      tb, ex, nn = rs_table(tf, nd["var"], nd["eps"])
      tab += tb
      run.count("rsqrt:bit-exact", ex)
      run.count("rsqrt:oracle-only", nn - ex)
    if t == "conv":
      o.update({"kind": "conv2d", "op": "conv"})
    elif t == "dw":
      o.update({"kind": "dwconv2d", "op": "conv"})
    elif t in ("qconv", "dense", "qdense"):
      o.update({"kind": "other", "op": "conv"})
    elif t in ("fconv", "fdw"):
      o.update({"kind": "other", "op": "folded", "mode": nd["mode"]})
    elif t == "bn":
      o.update({"kind": "bn", "op": "bn"})
    elif t == "relu":
      o.update({"kind": "other", "op": "relu"})
    elif t == "add":
      o.update({"kind": "other", "op": "add"})
    elif t == "sub":
      o.update({"kind": "other", "op": "sub"})
    elif t == "concat":
      o.update({"kind": "other", "op": "concat", "chans": [int(c) for c in nd["chans"]]})
    nodes.append(o)
  return {"op": "graph", "nodes": nodes, "rs": tab, "x": enc(x), "out": idx[spec[-1]["name"]],
          "mode": mode, "hasq": [idx[n] for n in hasq]}, names


def spec_desc(tname, spec):
  out = []
  for nd in spec:
    d = {k: v for k, v in nd.items() if not isinstance(v, np.ndarray) and k != "init"}
    for k in ("kernel", "bias", "gamma", "beta", "mean", "var"):
      if k in nd:
        d[k] = [float(v) for v in np.asarray(nd[k]).ravel()[:32]]
    out.append(d)
  return {"template": tname, "layers": out}


def stream_unfold(run, tf, qkeras, rng, tier, family="folded"):
  """models of folded layers; every model object is unfolded TWICE: as built, and again after all its
  parameters have been replaced through set_weights (layer-wise or model-wise, `iteration` unchanged) —
  successive unfold_model calls on different models and on the same model in one process.

  family "frozen": models mixing folded layers with plain weighted layers, with layers / the whole model
  frozen (`layer.trainable = False`, `trainable=False` at construction, `model.trainable = False`, one
  layer re-enabled) or owning non-trainable variables only; between the two rounds the freeze state is
  CHANGED on the same model object and every variable of every layer is replaced.  In both families
  every variable of every layer of the unfolded model is judged (`unfold_weights`)."""
  from qkeras import bn_folding_utils
  frozen = family == "frozen"
  if frozen:
    reps = 1 if tier == "quick" else 4
  else:
    reps = 2 if tier == "quick" else 8
  jobs = []
  for r in range(reps):
    shift = int(rng.integers(len(FREEZE_PLANS))) if frozen else 0
    for ti, (tname, ish, spec) in enumerate(templates_frozen(rng) if frozen else templates_unfold(rng)):
      tf.keras.backend.clear_session()
      x = dy(rng, (2,) + ish, 2, -1)
      plan = FREEZE_PLANS[(ti + shift) % len(FREEZE_PLANS)] if frozen else "none"
      if frozen:
        plan_freeze(rng, spec, plan)
      try:
        m = build_keras(tf, qkeras, ish, spec, rng)
        if frozen:
          apply_freeze(m, spec, plan)
      except Exception as e:  # pylint: disable=broad-except
        run.case(("unfold-build-raises", family, len(jobs), tname))
        run.count("clause:callable:FAILS")
        run.violate("callable", {"stream": "unfold", "template": tname, "why": "raises"},
                    {"model": spec_desc(tname, spec), "error": "%s: %s" % (type(e).__name__, str(e)[:300])},
                    mirrored=False)
        continue
      for rnd in (1, 2):
        if rnd == 2:
          # replace every parameter without a training step, then unfold the SAME model object again
          spec = [dict(nd) for nd in spec]
          if frozen:
            # a different freeze state on the same objects, then EVERY variable of every layer replaced
            plan = FREEZE_PLANS[(ti + shift + 1 + int(rng.integers(len(FREEZE_PLANS) - 1))) % len(FREEZE_PLANS)]
            if plan == "layers-at-construction":
              plan = "layers"
            plan_freeze(rng, spec, plan)
            apply_freeze(m, spec, plan)
            route = ("layer.set_weights", "model.set_weights", "variable.assign")[(len(jobs) + r) % 3]
            allw = []
            for nd in spec:
              fill_weights(rng, nd, nd.get("cin", nd.get("cout", 0)))
            by = {nd["name"]: nd for nd in spec}
            for l in m.layers:
              if l.name not in by:
                continue
              if route == "variable.assign":
                assign_node(by[l.name], l)
              elif route == "layer.set_weights" and l.weights:
                l.set_weights(named_weight_list(l, by[l.name]))
              else:
                allw += named_weight_list(l, by[l.name])
            if route == "model.set_weights":
              m.set_weights(allw)
          else:
            route = ("layer.set_weights", "model.set_weights")[(len(jobs) + r) % 2]
            allw = []
            for nd in spec:
              fill_weights(rng, nd, nd.get("cin", 0))
              if route == "layer.set_weights" and node_weight_list(nd):
                m.get_layer(nd["name"]).set_weights(node_weight_list(nd))
            if route == "model.set_weights":
              by = {nd["name"]: nd for nd in spec}
              for l in m.layers:
                allw += node_weight_list(by[l.name]) if l.name in by else []
              m.set_weights(allw)
          x = dy(rng, (2,) + ish, 2, -1)
        try:
          y = m.predict(x, verbose=0)
        except Exception as e:  # pylint: disable=broad-except
          run.case(("unfold-predict-raises", family, len(jobs), tname))
          run.violate("callable", {"stream": "unfold", "template": tname, "why": "raises"},
                      {"model": spec_desc(tname, spec), "error": "%s: %s" % (type(e).__name__, str(e)[:300])},
                      mirrored=False)
          break
        try:
          um = bn_folding_utils.unfold_model(m)
          yu = um.predict(x, verbose=0)
        except Exception as e:  # pylint: disable=broad-except
          run.case(("unfold-raises", family, len(jobs), tname))
          run.count("clause:conversion_runs:FAILS")
          run.violate("conversion_runs", {"stream": "unfold", "api": "unfold_model", "template": tname},
                      {"model": spec_desc(tname, spec), "error": "%s: %s" % (type(e).__name__, str(e)[:300])},
                      mirrored=False)
          break
        line, names = lean_graph_line(tf, m, spec, x, run)
        # structure of the unfolded model: classes, use_bias, ALL variables of ALL layers, configuration
        by = {nd["name"]: nd for nd in spec}
        struct_ok, why, cfg_bad, canon, flags = judge_unfolded_layers(m, um, by)
        src_flags = [bool(l.trainable) for l in m.layers]
        nvars = [(len(l.trainable_weights), len(l.non_trainable_weights)) for l in m.layers]
        jobs.append((tname, spec, x, y, yu, line, struct_ok, why, rnd, cfg_bad, canon, flags, src_flags, nvars, plan, names))
  outs = core.run_driver("C15", [j[5] for j in jobs])
  for ji, ((tname, spec, x, y, yu, line, struct_ok, why, rnd, cfg_bad, canon, flags, src_flags, nvars, plan, names), o) in \
      enumerate(zip(jobs, outs)):
    run.case(("unfold", family, ji), sample={"stream": "unfold", "model": spec_desc(tname, spec)} if ji == 0 else None)
    run.count("unfold:%s:round%d" % (tname, rnd))
    if frozen:
      run.count("unfold:freeze-plan:%s" % plan)
    for nd in spec:
      if nd["type"] in ("fconv", "fdw"):
        run.count("unfold:layer-quantizers:kernel=%s,bias=%s" % ("q" if nd["qk"] else "None", "q" if nd["qb"] else "None"))
    for (nt, nn), fl in zip(nvars, src_flags):
      if nt + nn:
        run.count("unfold:layer-variables:%s" % ("trainable-only" if nn == 0 else "mixed" if nt else
                                                 "non-trainable-only(frozen)" if not fl else "non-trainable-only(own)"))
    y0, yunf = dec(o["y0"]), dec(o["y_unf"])
    run.compared += 4
    if fr(y) != y0:
      run.disagree("unfold:predict", spec_desc(tname, spec), [float(v) for v in y.ravel()[:16]], [float(v) for v in (y0 or [])[:16]])
    if yunf != y0 or dec(o["y_unf_layers"]) != y0:
      run.disagree("unfold:model_side", spec_desc(tname, spec), "y_unf / y_unf_layers", "y0")
    # the model's unfold_model over model.layers (clone + transfer, trainable flags, arbitrary fresh
    # variables): every variable of every layer, and the flags
    mw = [[dec(w) for w in lw] for lw in o["unf_weights"]] if o.get("unf_weights") is not None else None
    if mw != canon:
      bad = [i for i in range(len(canon))] if mw is None or len(mw) != len(canon) else \
            [i for i in range(len(canon)) if mw[i] != canon[i]]
      run.disagree("unfold:layer_weights", spec_desc(tname, spec), {"layers whose variables differ": bad}, "unf_weights")
    mt = o.get("unf_trainable") or []
    if len(mt) != len(src_flags) or any(a != b for a, b, n in zip(mt, src_flags, names) if n != "in"):
      run.disagree("unfold:trainable_flags", spec_desc(tname, spec), src_flags, o.get("unf_trainable"))
    key = {"stream": "unfold", "template": tname, "round": "as-built" if rnd == 1 else "after-set_weights"}
    if frozen:
      key["freeze"] = plan
    if not np.array_equal(y, yu):
      t = worst_index(y, yu)
      run.violate("unfold_preserves", key, {"model": spec_desc(tname, spec), "x": [float(v) for v in x.ravel()],
                                            "index": t, "folded_model": float(y.ravel()[t]), "unfolded_model": float(yu.ravel()[t])},
                  mirrored=False)
    else:
      run.count("clause:unfold_preserves:bit-equal")
    if not struct_ok:
      run.violate("unfold_weights", key, {"model": spec_desc(tname, spec), "why": why}, mirrored=False)
    else:
      run.count("clause:unfold_weights:all-variables-equal")
    if cfg_bad:
      run.violate("unfold_config", key, {"model": spec_desc(tname, spec),
                                         "layers (entry: folded value, unfolded value)": cfg_bad}, mirrored=False)
    else:
      run.count("clause:unfold_config:holds")


# --------------------------------------------------------------------------- stream: histories on one object

SLOTS = ("kernel", "bias", "gamma", "beta", "mean", "var")
PKEYS = ("kernel", "bias", "gamma", "beta", "mean", "var")


def exact_rsqrt(arg):
  """1/sqrt of a rational that is a perfect square (the exact regime: var + eps = 4^j), else None"""
  n, d = arg.numerator, arg.denominator
  if n <= 0:
    return None
  rn, rd = math.isqrt(n), math.isqrt(d)
  if rn * rn == n and rd * rd == d:
    return F(rd, rn)
  return None


def kernel_channel(c, t):
  """output channel scaled into flat kernel element t ([kh, kw, cin, cm] layout)"""
  cm, cin = c["cm"], c["cin"]
  return (t % cm) if c["cls"] == "conv" else ((t // cm) % cin) * cm + t % cm


def same_or_close(real, exp, exact, mag=None):
  """bit-equal in the exact regime (short dyadic parameters, rsqrt bit-exact on the variance vector), else
  within 2^-21 of the magnitude of the terms (`mag`; default: of the value itself) — a few float32 roundings"""
  if exact:
    return real == exp
  if real is None or exp is None or len(real) != len(exp):
    return False
  mag = mag or [abs(b) for b in exp]
  return all(abs(a - b) <= F(1, 2 ** 21) * max(m, F(1, 2 ** 30)) for a, b, m in zip(real, exp, mag))


def expected_folded(c, p, rsmap=None):
  """the property's formula in exact rationals on the parameters p:
     folded kernel = kernel*gamma/sqrt(var+eps), folded bias = (bias-mean)*gamma/sqrt(var+eps)+beta
     (gamma = 1 / bias = 0 / beta = 0 when the layer has no such variable).  Independent of the Lean model."""
  co = cout_of(c)
  eps = F(float(np.float32(c["eps"])))
  inv = []
  for ch in range(co):
    r = exact_rsqrt(F(float(p["var"][ch])) + eps)
    if r is None and rsmap is not None:      # not a perfect square: rsqrt as measured (oracle input);
      r = rsmap.get(F(float(p["var"][ch])) + eps)   # the caller then compares within the stated tolerance
    if r is None:
      return None
    inv.append(r * (F(float(p["gamma"][ch])) if c["scale"] else 1))
  k = fr(p["kernel"])
  fk = [k[t] * inv[kernel_channel(c, t)] for t in range(len(k))]
  fb = [inv[ch] * ((F(float(p["bias"][ch])) if c["use_bias"] else 0) - F(float(p["mean"][ch])))
        + (F(float(p["beta"][ch])) if c["center"] else 0) for ch in range(co)]
  magb = [abs(inv[ch]) * ((abs(F(float(p["bias"][ch]))) if c["use_bias"] else 0) + abs(F(float(p["mean"][ch]))))
          + (abs(F(float(p["beta"][ch]))) if c["center"] else 0) for ch in range(co)]
  return fk, fb, magb


def weight_list(c, p, iteration):
  """layer.get_weights() order: kernel, [bias], [gamma], [beta], iteration, moving_mean, moving_variance"""
  ws = [p["kernel"]]
  if c["use_bias"]:
    ws.append(p["bias"])
  if c["scale"]:
    ws.append(p["gamma"])
  if c["center"]:
    ws.append(p["beta"])
  ws += [np.array(iteration, np.int64), p["mean"], p["var"]]
  return ws


def slot_var(c, lay, slot):
  if slot == "kernel":
    return lay.kernel if c["cls"] == "conv" else lay.depthwise_kernel
  if slot == "bias":
    return lay.bias
  bn = lay.batchnorm
  return {"gamma": bn.gamma, "beta": bn.beta, "mean": bn.moving_mean, "var": bn.moving_variance}[slot]


def slot_exists(c, slot):
  return {"kernel": True, "bias": c["use_bias"], "gamma": c["scale"], "beta": c["center"], "mean": True, "var": True}[slot]


HIST_GEOS = [
    ("conv", 5, 5, 2, 2, 2, 1, 1, 1, 1, False, 3, {}),
    ("conv", 6, 5, 2, 3, 2, 2, 2, 1, 1, True, 2, {"n": 1}),
    ("conv", 4, 5, 2, 2, 2, 1, 1, 2, 2, True, 3, {"cf": True}),
    ("conv", 3, 3, 3, 1, 1, 1, 1, 1, 1, False, 2, {}),
    ("dw", 5, 5, 2, 2, 2, 1, 1, 1, 1, False, 1, {}),
    ("dw", 6, 5, 2, 3, 2, 2, 2, 1, 1, True, 2, {"n": 1}),
    ("dw", 5, 4, 2, 2, 2, 1, 1, 1, 1, True, 2, {"cf": True}),
    ("dw", 4, 4, 3, 2, 2, 1, 1, 2, 2, False, 2, {}),
]
# (fewer than 8 output channels everywhere in the exact regime: Eigen's rsqrt is exact on the scalar path
#  and approximate on full AVX packets, i.e. position-dependent for vectors of 8 or more entries)


def plan_history(rng, c, length):
  """a random history: observers {get, unfold, predict} and mutators {assign, set_weights (layer / model
  route, iteration kept or changed, rarely a wrong number of arrays), save ... load (h5 / tf format),
  set_iteration}; an observer first most of the time (so that anything memoised is memoised BEFORE the
  parameters change), every mutator followed by observers, all three observers at the end"""
  plan = []
  saved = False
  last_mut = False
  for step in range(length):
    if step == 0:
      observe = rng.random() < 0.8
    elif last_mut:
      observe = rng.random() < 0.85
    else:
      observe = rng.random() < 0.4
    if observe:
      k = ("get", "unfold", "predict")[int(rng.integers(3))]
      plan.append({"k": k})
      last_mut = False
    else:
      r = rng.random()
      if r < 0.38:
        slot = SLOTS[int(rng.integers(len(SLOTS)))]
        if not slot_exists(c, slot) and rng.random() < 0.6:
          slot = ("kernel", "mean", "var")[int(rng.integers(3))]
        plan.append({"k": "assign", "slot": slot})
      elif r < 0.72:
        plan.append({"k": "set_weights", "route": ("layer", "model")[int(rng.integers(2))],
                     "keep_iteration": bool(rng.random() < 0.6), "wrong_count": bool(rng.random() < 0.08)})
      elif r < 0.84 and not saved:
        plan.append({"k": "save", "fmt": ("h5", "tf")[int(rng.integers(2))]})
        saved = True
        last_mut = False
        continue
      elif r < 0.92 and saved:
        plan.append({"k": "load"})
      elif r < 0.95:
        plan.append({"k": "set_iteration", "i": int(rng.choice([-1, 0, 1, 7, 1000]))})
      elif r < 0.975:
        plan.append({"k": "train"})
      else:
        plan.append({"k": "reconfigure", "qk": QUANTS[int(rng.integers(len(QUANTS)))],
                     "qb": QUANTS[int(rng.integers(len(QUANTS)))]})
      last_mut = True
  if saved and not any(o["k"] == "load" for o in plan):
    plan.append({"k": "load"})
  perm = rng.permutation(3)
  plan += [{"k": ("get", "unfold", "predict")[int(j)]} for j in perm]
  return plan


def fixed_histories():
  """the shortest histories of each family, always present for BOTH classes (random plans come on top):
  observer -> replacement(s) that are not training steps -> the same observer"""
  out = []
  for obs in ("get", "unfold"):
    out.append([{"k": obs}, {"k": "set_weights", "route": "layer", "keep_iteration": True, "wrong_count": False}, {"k": obs}])
    out.append([{"k": obs}, {"k": "assign", "slot": "kernel"}, {"k": obs}, {"k": "assign", "slot": "mean"},
                {"k": "assign", "slot": "var"}, {"k": obs}])
  out.append([{"k": "save", "fmt": "h5"}, {"k": "assign", "slot": "kernel"}, {"k": "assign", "slot": "var"},
              {"k": "get"}, {"k": "load"}, {"k": "get"}, {"k": "unfold"}])
  out.append([{"k": "get"}, {"k": "set_weights", "route": "model", "keep_iteration": False, "wrong_count": False},
              {"k": "unfold"}, {"k": "predict"}, {"k": "set_iteration", "i": -1}, {"k": "get"}])
  # a real training step (batch-norm statistics and `_iteration` move; parameters are read back)
  out.append([{"k": "get"}, {"k": "unfold"}, {"k": "train"}, {"k": "get"}, {"k": "unfold"}, {"k": "train"}, {"k": "get"}])
  # the quantizer attributes replaced on the live layer (populate_bias_quantizer_from_accumulator does this)
  out.append([{"k": "unfold"}, {"k": "predict"}, {"k": "reconfigure", "qk": QUANTS[0], "qb": QUANTS[1]}, {"k": "unfold"},
              {"k": "predict"}, {"k": "reconfigure", "qk": QUANTS[3], "qb": QUANTS[4]}, {"k": "predict"}, {"k": "unfold"},
              {"k": "reconfigure", "qk": QUANTS[2], "qb": QUANTS[5]}, {"k": "get"}])
  return out


def layer_obs_config(ul):
  cfg = ul.get_config()
  return {k: cfg.get(k) for k in ("kernel_quantizer", "depthwise_quantizer", "bias_quantizer", "strides", "padding",
                                  "dilation_rate", "data_format", "activation", "use_bias", "kernel_size",
                                  "filters", "depth_multiplier") if k in cfg}


def check_unfolded_config(lay, ul):
  """every configuration entry the folded layer shares with its unfolded replacement is carried over
  unchanged (None stays None) — except use_bias, which becomes True"""
  a, b = layer_obs_config(lay), layer_obs_config(ul)
  bad = [k for k in b if k in a and k != "use_bias" and a[k] != b[k]]
  if not b.get("use_bias"):
    bad.append("use_bias")
  return bad, {k: (a.get(k), b.get(k)) for k in bad}


def stream_history(run, tf, qkeras, rng, tier):
  from qkeras import bn_folding_utils
  K = tf.keras.backend
  L = tf.keras.layers
  tmpdir = tempfile.mkdtemp(prefix="qkv-c15-")
  reps = 2 if tier == "quick" else 6
  length = 7 if tier == "quick" else 10
  fixed = fixed_histories()
  hists = []
  hi = 0
  nfixed = {"conv": 0, "dw": 0}
  try:
    for rep in range(reps):
      for gi, geo in enumerate(HIST_GEOS):
        for mi, mode in enumerate(("ema_stats_folding", "batch_stats_folding")):
          k = hi
          hi += 1
          is_fixed = (gi + mi + rep) % 2 == 0     # per class: every fixed history, modes alternating
          # options rotate independently of the mode and of fixed / random
          use_bias, scale, center = bool((gi + rep) % 2), bool((gi + 2 * rep + mi) % 3), bool((gi + rep + 2 * mi + 1) % 4)
          qsel = (gi + mi + 2 * rep) % 4
          qk = QUANTS[k % len(QUANTS)] if qsel in (1, 2) else None
          qb = QUANTS[(k + 2) % len(QUANTS)] if qsel in (1, 3) else None
          c = layer_case(rng, geo, mode, use_bias, scale, center, qk, qb,
                         "relu" if (gi + mi + rep) % 5 == 4 else "linear", "exact")
          c["form"] = (gi + rep) % 2
          c["efd"] = (None, 0, 3, -1)[(gi + 2 * mi + rep) % 4]
          # channels_first histories: explicit argument under the default process-wide format, or the
          # argument omitted under a process-wide channels_first (restored before the layer is used)
          c["global_cf"] = bool(c["cf"] and (mi + rep) % 2)
          c["df_req"] = None if c["global_cf"] else ("channels_first" if c["cf"] else (None, "channels_last")[(gi + mi) % 2])
          if is_fixed:
            plan = [dict(o) for o in fixed[nfixed[c["cls"]] % len(fixed)]] + plan_history(rng, c, 3)
            nfixed[c["cls"]] += 1
          else:
            plan = plan_history(rng, c, length)
          hists.append(run_history(run, tf, qkeras, bn_folding_utils, rng, c, plan, tmpdir, k))
  finally:
    K.set_image_data_format("channels_last")
    shutil.rmtree(tmpdir, ignore_errors=True)
  outs = core.run_driver("C15", [h["line"] for h in hists])
  for h, o in zip(hists, outs):
    c = h["c"]
    base = {"stream": "history", "class": CLASSNAME[c["cls"]]}
    mobs = o["obs"]
    if len(mobs) != len(h["obs"]):
      raise core.InfraError("history: %d model observations for %d steps" % (len(mobs), len(h["obs"])))
    agree = []
    for oi, (ro, mo) in enumerate(zip(h["obs"], mobs)):
      ok = True
      ex = not ro.get("inexact", False)
      if not ex:
        run.count("history:float-regime-observation")
      if ro["k"] == "weights":
        run.compared += 2
        ok = (same_or_close(ro["fk"], dec(mo["fk"]), ex) and same_or_close(ro["fb"], dec(mo["fb"]), ex, ro.get("magb")))
      elif ro["k"] == "unfolded":
        run.compared += 3 if ex else 2
        ok = (same_or_close(ro["uk"], dec(mo["uk"]), ex) and ro["ub"] is not None and
              same_or_close(ro["ub"], dec(mo["ub"]), ex, ro.get("magb")) and (not ex or ro["uy"] == dec(mo["uy"])))
      elif ro["k"] == "out":
        run.compared += 1 if ex else 0
        ok = (not ex) or (ro["y"] == dec(mo["y"]))
      elif ro["k"] == "done":
        run.compared += 1
        ok = (bool(ro["ok"]) == bool(mo["ok"]))
      agree.append(ok)
      if not ok:
        run.disagree("history:" + ro["k"], {"history": h["desc"], "step": oi, "op": h["ops_desc"][oi]},
                     {kk: ([float(v) for v in vv[:12]] if isinstance(vv, list) else vv) for kk, vv in ro.items()},
                     {kk: ([float(F(int(a), int(b))) for a, b in vv[:12]] if isinstance(vv, list) else vv) for kk, vv in mo.items()})
    run.compared += 2
    if int(o["iteration"]) != h["iteration"]:
      run.disagree("history:iteration", h["desc"], h["iteration"], int(o["iteration"]))
    if h["built_cf"] is not None and h["built_cf"] != bool(o["built_cf"]):
      run.disagree("history:data_format", h["desc"], "channels_first" if h["built_cf"] else "channels_last",
                   "channels_first" if o["built_cf"] else "channels_last")
    for (clause, key, detail, oi) in h["pending"]:
      run.violate(clause, dict(base, **key),
                  dict(detail, history=h["desc"], step=oi,
                       op=(h["ops_desc"][oi] if oi is not None and oi < len(h["ops_desc"]) else None)),
                  mirrored=(bool(oi is not None and oi < len(agree) and agree[oi]) or
                            (clause == "data_format_respected" and h["built_cf"] == bool(o["built_cf"]))))


def run_history(run, tf, qkeras, bn_folding_utils, rng, c, plan, tmpdir, hid):
  """execute one history on ONE real layer object inside ONE model object"""
  K = tf.keras.backend
  L = tf.keras.layers
  K.clear_session()
  pending = []
  train_raised = False
  cur = {k: np.array(c[k]) for k in PKEYS}
  lay = None
  try:
    with global_format(tf, c.get("global_cf", False)):   # resolved at construction time, restored before use
      lay = make_layer(qkeras, c, name="fold")
    inp = L.Input(x_shape(c)[1:], name="in")
    m = tf.keras.Model(inp, lay(inp))
    set_folded_params(c, lay, cur)
    setup_error = None
  except Exception as e:  # pylint: disable=broad-except
    setup_error = "%s: %s" % (type(e).__name__, str(e)[:300])
  built_cf = None if lay is None else (lay.data_format == "channels_first")
  if built_cf is not None and built_cf != c["cf"]:
    run.count("clause:data_format_respected:FAILS")
    pending.append(("data_format_respected", {"why": "data_format-ignored", "requested": c["df_req"] or "omitted",
                                              "global": "channels_first" if c.get("global_cf") else "channels_last"},
                    {"layer.data_format": lay.data_format, "expected": "channels_first" if c["cf"] else "channels_last"}, None))
  if setup_error is not None:
    # the layer cannot even be put into a model on an input of the expected layout
    pending.append(("callable", {"observer": "construction", "why": "raises"}, {"error": setup_error}, None))
    line = {"op": "history", "mode": c["mode"], "kernel": enc(c["kernel"]),
            "bias": enc(c["bias"]) if c["use_bias"] else None, "gamma": enc(c["gamma"]) if c["scale"] else None,
            "beta": enc(c["beta"]) if c["center"] else None, "mean": enc(c["mean"]), "var": enc(c["var"]),
            "eps": core.rj(float(np.float32(c["eps"]))), "rs": rs_table(tf, c["var"], c["eps"])[0], "qk": c["qk"], "qb": c["qb"],
            "act": c["act"], "iteration": -1, "ops": [], "df": c["df_req"], "global_cf": bool(c.get("global_cf"))}
    line.update(geom_fields(c))
    return {"c": c, "line": line, "obs": [], "pending": pending, "ops_desc": [], "iteration": -1, "built_cf": built_cf,
            "desc": {"layer": case_desc(c), "plan": [o["k"] for o in plan]}}
  iteration = -1
  snap = None
  obs, ops_json, ops_desc = [], [], []
  last_mut, seen_obs = "none", False
  rstab = []
  rsmap = {}
  rs_exact = [True]
  qcur = {"qk": c["qk"], "qb": c["qb"]}
  inexact = [False]           # parameters read back after a real training step: float regime
  last_um = [None]

  def note_var(v):
    """the rsqrt oracle is measured on every variance VECTOR the history goes through"""
    tab, ex, nn = rs_table(tf, v, c["eps"])
    run.count("rsqrt:bit-exact", ex)
    run.count("rsqrt:oracle-only", nn - ex)
    for e in tab:
      if e not in rstab:
        rstab.append(e)
        rsmap[F(int(e[0][0]), int(e[0][1]))] = F(int(e[1][0]), int(e[1][1]))
    rs_exact[0] = (ex == nn)
  note_var(cur["var"])
  run.count("history:%s:%s%s" % (c["cls"], c["mode"][:3], ":channels_first" if c["cf"] else ""))
  if c["cf"] or c["df_req"]:
    run.count("history:data_format:%s:global=%s:argument=%s" % (c["cls"], "channels_first" if c.get("global_cf") else "channels_last",
                                                                c["df_req"] or "omitted"))

  def key(observer):
    # one line per (class, observer, kind of the last replacement); the rest goes into the detail
    return {"observer": observer, "after": last_mut.split(":")[0]}

  def ctx():
    return {"last_replacement": last_mut, "observed_before_replacement": seen_obs, "mode": c["mode"]}

  def twin():
    """a FRESH object of the same configuration holding the current parameters"""
    c2 = dict(c, global_cf=False, df_req="channels_first" if c["cf"] else "channels_last", qk=qcur["qk"], qb=qcur["qb"])
    t = make_layer(qkeras, c2)
    t(tf.zeros(x_shape(c, n=1)), training=False)
    set_folded_params(c, t, cur)
    return t

  def pend(clause, k, detail, oi):
    pending.append((clause, k, dict(detail, **ctx()), oi))

  def exact_now():
    return rs_exact[0] and not inexact[0]

  def mutated():
    """after every replacement: a model unfolded EARLIER must not have changed with its source"""
    if last_um[0] is not None:
      um0, x0, y0 = last_um[0]
      if not np.array_equal(um0(x0, training=False).numpy(), y0):
        pend("unfolded_model_independent", {"observer": "unfold_model", "after": last_mut.split(":")[0]},
             {"what": "a model returned by an earlier unfold_model call changed when its source was modified"}, len(obs))

  for op in plan:
    kd = op["k"]
    desc = {kk: vv for kk, vv in op.items()}
    try:
      if kd == "get":
        run.case(("history", hid, len(obs)))
        fw = [w.numpy() for w in lay.get_folded_weights()]
        ro = {"k": "weights", "fk": fr(fw[0]), "fb": fr(fw[1]), "inexact": inexact[0]}
        ops_json.append({"k": "get"})
        exp = expected_folded(c, cur, rsmap)
        run.count("history:get_folded_weights:after=" + last_mut)
        ro["magb"] = exp[2] if exp is not None else None
        if exp is not None and not (same_or_close(ro["fk"], exp[0], exact_now()) and
                                    same_or_close(ro["fb"], exp[1], exact_now(), exp[2])):
          bad = "kernel" if not same_or_close(ro["fk"], exp[0], exact_now()) else "bias"
          pend("folded_weights_current", key("get_folded_weights"),
                          {"what": "get_folded_weights() is not the fold of the CURRENT parameters (folded %s)" % bad,
                           "folded_kernel": [float(v) for v in ro["fk"][:12]], "expected_kernel": [float(v) for v in exp[0][:12]],
                           "folded_bias": [float(v) for v in ro["fb"][:12]], "expected_bias": [float(v) for v in exp[1][:12]]},
                          len(obs))
        else:
          run.count("clause:folded_weights_current:holds")
        tw = [w.numpy() for w in twin().get_folded_weights()]
        if not (np.array_equal(tw[0], fw[0]) and np.array_equal(tw[1], fw[1])):
          pend("fresh_twin", key("get_folded_weights"),
                          {"what": "a fresh layer with the same parameters returns other folded weights",
                           "this_object": [float(v) for v in fw[1].ravel()[:8]], "fresh_twin": [float(v) for v in tw[1].ravel()[:8]]},
                          len(obs))
        seen_obs = True
      elif kd == "unfold":
        run.case(("history", hid, len(obs)))
        nb = int(rng.integers(1, 4))
        x = dy(rng, x_shape(c, n=nb), 3, -2)
        um = bn_folding_utils.unfold_model(m)
        ul = um.layers[1]
        uw = ul.get_weights()
        by_predict = bool(rng.random() < 0.5)
        yu = um.predict(x, verbose=0) if by_predict else um(x, training=False).numpy()
        ym = m.predict(x, verbose=0) if by_predict else m(x, training=False).numpy()
        ro = {"k": "unfolded", "uk": fr(uw[0]), "ub": fr(uw[1]) if len(uw) > 1 else None, "uy": fr(yu),
              "inexact": inexact[0]}
        last_um[0] = (um, x, um(x, training=False).numpy())
        ops_json.append({"k": "unfold", "n": nb, "h": c["h"], "w": c["w"], "x": enc(x)})
        desc["x"] = [float(v) for v in x.ravel()[:32]]
        run.count("history:unfold_model:after=" + last_mut)
        exp = expected_folded(c, cur, rsmap)
        ro["magb"] = exp[2] if exp is not None else None
        want = "QConv2D" if c["cls"] == "conv" else "QDepthwiseConv2D"
        if ul.__class__.__name__ != want or len(uw) != 2 or (exp is not None and not (
            same_or_close(ro["uk"], exp[0], exact_now()) and same_or_close(ro["ub"], exp[1], exact_now(), exp[2]))):
          pend("unfold_weights", key("unfold_model"),
                          {"what": "the unfolded %s does not hold the fold of the CURRENT parameters" % ul.__class__.__name__,
                           "unfolded_kernel": [float(v) for v in ro["uk"][:12]],
                           "expected_kernel": [float(v) for v in (exp[0] if exp else [])[:12]],
                           "unfolded_bias": [float(v) for v in (ro["ub"] or [])[:12]],
                           "expected_bias": [float(v) for v in (exp[1] if exp else [])[:12]]}, len(obs))
        else:
          run.count("clause:unfold_weights:holds")
        if not np.array_equal(yu, ym):
          t = worst_index(yu, ym)
          pend("unfold_preserves", key("unfold_model"),
                          {"what": "unfold_model(m) and m predict differently", "index": t,
                           "folded_model": float(ym.ravel()[t]), "unfolded_model": float(yu.ravel()[t]),
                           "route": "predict" if by_predict else "__call__"}, len(obs))
        else:
          run.count("clause:unfold_preserves:bit-equal")
        bad, diff = check_unfolded_config(lay, ul)
        if bad:
          pend("unfold_config", key("unfold_model"),
                          {"what": "configuration of the unfolded layer differs from the folded layer", "entries": diff}, len(obs))
        seen_obs = True
      elif kd == "predict":
        run.case(("history", hid, len(obs)))
        route = ("model.predict", "model()", "training=False", "default", "training=0", "tf.function",
                 "learning_phase=1", "other-shape", "image_data_format=channels_first")[int(rng.integers(9))]
        nb, hh, ww = int(rng.integers(1, 4)), c["h"], c["w"]
        if route == "other-shape":     # the same layer object on a tensor of another spatial extent
          hh, ww = c["h"] + int(rng.integers(1, 3)), c["w"] + int(rng.integers(0, 3))
        x = dy(rng, x_shape(c, n=nb, h=hh, w=ww), 3, -2)
        if route == "model.predict":
          y = m.predict(x, verbose=0)
        elif route == "model()":
          y = m(x, training=False).numpy()
        elif route == "other-shape":
          y = lay(x, training=False).numpy()
        else:
          y = call_layer(tf, lay, x, route)
        ro = {"k": "out", "y": fr(y), "inexact": inexact[0]}
        ops_json.append({"k": "predict", "n": nb, "h": hh, "w": ww, "x": enc(x)})
        desc.update(route=route, x=[float(v) for v in x.ravel()[:32]])
        run.count("history:predict:" + route)
        yt = twin()(x, training=False).numpy()
        if not np.array_equal(yt, y):
          t = worst_index(yt, y)
          pend("fresh_twin", dict(key("inference"), route=route),
                          {"what": "a fresh layer with the same parameters computes another output", "index": t,
                           "this_object": float(y.ravel()[t]), "fresh_twin": float(yt.ravel()[t])}, len(obs))
        seen_obs = True
      elif kd == "assign":
        slot = op["slot"]
        co = cout_of(c)
        fresh = dict(c)
        fill_params(rng, fresh, "exact")
        v = fresh[slot]
        ops_json.append({"k": "assign", "slot": slot, "v": enc(v)})
        try:
          slot_var(c, lay, slot).assign(v)
          ok = True
        except AttributeError:       # the layer has no such variable (None.assign)
          ok = False
        if ok != slot_exists(c, slot):
          pend("callable", {"observer": "assign", "slot": slot}, {"what": "assign outcome", "ok": ok}, len(obs))
        if ok:
          cur[slot] = np.array(v)
          last_mut = "assign:" + slot
          if slot == "var":
            note_var(v)
          mutated()
        ro = {"k": "done", "ok": ok}
        run.count("history:assign:" + slot + ("" if ok else ":no-such-variable"))
      elif kd == "set_weights":
        fresh = dict(c)
        fill_params(rng, fresh, "exact")
        newp = {kk: np.array(fresh[kk]) for kk in PKEYS}
        it_new = iteration if op["keep_iteration"] else int(rng.choice([-1, 0, 5, 1000]))
        ws = weight_list(c, newp, it_new)
        if op["wrong_count"]:
          ws = ws[:-1]
        ops_json.append({"k": "set_weights", "ws": [enc(w) for w in ws]})
        try:
          (lay if op["route"] == "layer" else m).set_weights(ws)
          ok = True
        except ValueError:
          ok = False
        if ok == op["wrong_count"]:
          pend("callable", {"observer": "set_weights"}, {"what": "set_weights outcome", "ok": ok}, len(obs))
        if ok:
          cur = newp
          iteration = it_new
          note_var(newp["var"])
          inexact[0] = False
          last_mut = "set_weights:" + op["route"] + (":same-iteration" if op["keep_iteration"] else ":other-iteration")
          mutated()
        ro = {"k": "done", "ok": ok}
        run.count("history:set_weights:%s%s" % (op["route"], "" if ok else ":wrong-count"))
      elif kd == "save":
        path = os.path.join(tmpdir, "h%d.%s" % (hid, "h5" if op["fmt"] == "h5" else "ckpt"))
        m.save_weights(path)
        snap = (path, {kk: np.array(vv) for kk, vv in cur.items()}, iteration, op["fmt"], inexact[0])
        ops_desc.append(desc)
        ops_json.append({"k": "set_iteration", "i": iteration})     # a no-op for the model
        obs.append({"k": "done", "ok": True})
        run.count("history:save_weights:" + op["fmt"])
        continue
      elif kd == "load":
        path, p_s, it_s, fmt, inex_s = snap
        m.load_weights(path)
        cur = {kk: np.array(vv) for kk, vv in p_s.items()}
        iteration = it_s
        note_var(cur["var"])
        ops_json.append({"k": "set_weights", "ws": [enc(w) for w in weight_list(c, cur, iteration)]})
        last_mut = "load_weights:" + fmt
        inexact[0] = inex_s
        mutated()
        ro = {"k": "done", "ok": True}
        run.count("history:load_weights:" + fmt)
      elif kd == "train":
        # ONE real training step: the batch-norm statistics and `_iteration` move.  The training path is
        # not modelled: the parameters are read back from the layer and given to the model as they are
        x = dy(rng, x_shape(c, n=int(rng.integers(2, 4))), 3, -2)
        lay(x, training=True)
        for slot in SLOTS:
          if slot_exists(c, slot):
            cur[slot] = np.array(slot_var(c, lay, slot).numpy())
        iteration = int(lay._iteration.numpy())   # pylint: disable=protected-access
        note_var(cur["var"])
        inexact[0] = True
        ops_json.append({"k": "set_weights", "ws": [enc(w) for w in weight_list(c, cur, iteration)]})
        last_mut = "train"
        mutated()
        ro = {"k": "done", "ok": True}
        run.count("history:training-step")
      elif kd == "reconfigure":
        # what populate_bias_quantizer_from_accumulator does to the bias quantizer (None -> quantizer, or
        # another quantizer); the kernel quantizer only from one quantizer to another (a layer built
        # without one has a plain initializer in its config: Keras cannot re-create it with a quantizer
        # swapped in or out — not a qkeras route)
        op = dict(op, qk=(op["qk"] if qcur["qk"] is not None else None))
        desc = dict(op)
        nk, nb = qobj(qkeras, op["qk"]), qobj(qkeras, op["qb"])
        if c["cls"] == "conv":
          lay.kernel_quantizer = nk
          lay.kernel_quantizer_internal = nk
        else:
          lay.depthwise_quantizer = nk
          lay.depthwise_quantizer_internal = nk
        lay.bias_quantizer = nb
        lay.bias_quantizer_internal = nb
        lay.quantizers = [nk, nb]
        m.predict_function = None      # Keras keeps the traced graph of the old attribute values
        qcur["qk"], qcur["qb"] = op["qk"], op["qb"]
        ops_json.append({"k": "reconfigure", "qk": op["qk"], "qb": op["qb"]})
        last_mut = "reconfigure"
        mutated()
        ro = {"k": "done", "ok": True}
        run.count("history:reconfigure:kernel=%s,bias=%s" % ("q" if op["qk"] else "None", "q" if op["qb"] else "None"))
      elif kd == "set_iteration":
        lay._iteration.assign(op["i"])   # pylint: disable=protected-access
        iteration = int(op["i"])
        ops_json.append({"k": "set_iteration", "i": iteration})
        ro = {"k": "done", "ok": True}
        run.count("history:set_iteration")
      else:
        raise core.InfraError("bad history op " + kd)
    except core.InfraError:
      raise
    except Exception as e:  # pylint: disable=broad-except
      if kd == "train":
        # the training step is only a means of moving the layer's state between two INFERENCE observations; the
        # property says nothing about training-mode calls, and on the unchanged tree a channels_first
        # QConv2DBatchnorm raises in its training path (InvalidArgumentError: the batch statistics are broadcast
        # along the last axis).  The history ends here, unjudged from this step on (counted in the evidence).
        run.count("history:training-step-raises:%s" % type(e).__name__)
        ops_desc.append(desc)
        train_raised = True
        break
      pend("callable", {"observer": kd, "why": "raises"},
                      {"error": "%s: %s" % (type(e).__name__, str(e)[:300])}, None)
      ops_desc.append(desc)
      break
    ops_desc.append(desc)
    obs.append(ro)
  # the step counter after the history: only set_weights / load_weights / explicit assignment moved it
  it_real = int(lay._iteration.numpy())   # pylint: disable=protected-access
  # (a training call that raised may have advanced the counter before it failed: nothing after it is judged)
  if it_real != iteration and not train_raised:
    pending.append(("inference_is_not_a_step", {"observer": "history"},
                    {"what": "_iteration moved without a training step", "expected": iteration, "observed": it_real}, None))
  ops_json = ops_json[:len(obs)]
  tab = rstab
  line = {"op": "history", "mode": c["mode"], "kernel": enc(c["kernel"]),
          "bias": enc(c["bias"]) if c["use_bias"] else None,
          "gamma": enc(c["gamma"]) if c["scale"] else None,
          "beta": enc(c["beta"]) if c["center"] else None,
          "mean": enc(c["mean"]), "var": enc(c["var"]), "eps": core.rj(float(np.float32(c["eps"]))),
          "rs": tab, "qk": c["qk"], "qb": c["qb"], "act": c["act"], "iteration": -1, "ops": ops_json,
          "df": c["df_req"], "global_cf": bool(c.get("global_cf"))}
  line.update(geom_fields(c))
  d = case_desc(c)
  return {"c": c, "line": line, "obs": obs, "pending": pending, "ops_desc": ops_desc, "iteration": iteration, "built_cf": built_cf,
          "desc": {"layer": d, "plan": [o["k"] for o in plan]}}


QCLASS = {1: "QConv2DBatchnorm", 2: "QDepthwiseConv2DBatchnorm", 3: "QConv2D", 4: "QDepthwiseConv2D"}


def stream_to_folded(run, tf, qkeras, rng, tier):
  from qkeras import utils as qutils
  W = qstr(WIDE)
  reps = 1 if tier == "quick" else 4
  jobs = []
  for r in range(reps):
    for (tname, ish, do_quantize, spec) in templates_stock(rng):
      for variant in (("A", "B", "C") if do_quantize else ("-",)):
        if variant in ("B", "C") and tname not in ("seq", "shared-conv", "relu-between"):
          continue
        tf.keras.backend.clear_session()
        spec = [dict(nd) for nd in spec]
        m = build_keras(tf, qkeras, ish, spec, rng)
        x = dy(rng, (2,) + ish, 2, -1)
        y = m.predict(x, verbose=0)
        try:
          fm, ltf = qutils.convert_to_folded_model(m)
          yfm = fm.predict(x, verbose=0)
        except Exception as e:  # pylint: disable=broad-except
          run.case(("to_folded-raises", len(jobs), tname, variant))
          run.count("clause:conversion_runs:FAILS")
          run.violate("conversion_runs", {"stream": "to_folded", "api": "convert_to_folded_model", "template": tname},
                      {"model": spec_desc(tname, spec), "error": "%s: %s" % (type(e).__name__, str(e)[:300])},
                      mirrored=False)
          continue
        rec = {"tname": tname, "variant": variant, "spec": spec, "x": x, "y": y, "ltf": list(ltf),
               "fm_layers": [l.name for l in fm.layers], "yfm": yfm, "fm_in": inbound_names(fm)}
        by = {nd["name"]: nd for nd in spec}
        convs = [nd["name"] for nd in spec if nd["type"] in ("conv", "dw")]
        if variant == "A":
          qcfg = {"QConv2D": {"kernel_quantizer": W, "bias_quantizer": W},
                  "QDepthwiseConv2D": {"depthwise_quantizer": W, "bias_quantizer": W},
                  "QConv2DBatchnorm": {"kernel_quantizer": W, "bias_quantizer": W},
                  "QDepthwiseConv2DBatchnorm": {"depthwise_quantizer": W, "bias_quantizer": W}}
          hasq = convs
        elif variant == "B":   # folded classes found through the plain-class fallback
          qcfg = {"QConv2D": {"kernel_quantizer": W, "bias_quantizer": W},
                  "QDepthwiseConv2D": {"depthwise_quantizer": W, "bias_quantizer": W}}
          hasq = convs
        elif variant == "C":   # only the folded classes named: layers that are not fold sites are left alone
          qcfg = {"QConv2DBatchnorm": {"kernel_quantizer": W, "bias_quantizer": W},
                  "QDepthwiseConv2DBatchnorm": {"depthwise_quantizer": W, "bias_quantizer": W}}
          hasq = [n for n in convs if n in ltf]
        else:
          qcfg, hasq = None, []
        line, names = lean_graph_line(tf, m, spec, x, run, hasq=hasq)
        rec["line"], rec["names"] = line, names
        if qcfg is not None:
          try:
            qm = qutils.model_quantize(m, qcfg, 4, transfer_weights=True, enable_bn_folding=True)
          except Exception as e:  # pylint: disable=broad-except
            run.case(("model_quantize-raises", len(jobs), tname, variant))
            run.count("clause:conversion_runs:FAILS")
            run.violate("conversion_runs", {"stream": "to_folded", "api": "model_quantize", "template": tname,
                                            "variant": variant},
                        {"model": spec_desc(tname, spec), "error": "%s: %s" % (type(e).__name__, str(e)[:300])},
                        mirrored=False)
            continue
          rec["q_classes"] = {l.name: l.__class__.__name__ for l in qm.layers}
          rec["qm_in"] = inbound_names(qm)
          rec["src_classes"] = {l.name: l.__class__.__name__ for l in m.layers}
          rec["yq"] = qm.predict(x, verbose=0)
          fresh = True
          for l in qm.layers:
            if hasattr(l, "batchnorm"):
              bn = l.batchnorm
              fresh = fresh and abs(bn.epsilon - 1e-3) < 1e-12 and np.all(bn.gamma.numpy() == 1) and \
                  np.all(bn.beta.numpy() == 0) and np.all(bn.moving_mean.numpy() == 0) and \
                  np.all(bn.moving_variance.numpy() == 1)
          rec["fresh"] = bool(fresh)
          if variant in ("A", "B"):
            # the harness does the transfer the code never does: conv weights and the parameters
            # (and epsilon) of the deleted batch norm into the folded layer; other layers verbatim
            succ_bn = {}
            for nd in spec:
              if nd["type"] == "bn" and nd["inputs"][0] in ltf:
                succ_bn[nd["inputs"][0]] = nd
            for l in qm.layers:
              if l.name == "in":
                continue
              nd = by.get(l.name)
              if nd is None:
                continue
              if hasattr(l, "batchnorm"):
                b = succ_bn[l.name]
                l.batchnorm.epsilon = b["eps"]
                (l.kernel if nd["cls"] == "conv" else l.depthwise_kernel).assign(nd["kernel"])
                l.bias.assign(nd["bias"] if nd["use_bias"] else np.zeros_like(nd["bias"]))
                l.batchnorm.gamma.assign(b["gamma"] if b["scale"] else np.ones_like(b["gamma"]))
                l.batchnorm.beta.assign(b["beta"])
                l.batchnorm.moving_mean.assign(b["mean"])
                l.batchnorm.moving_variance.assign(b["var"])
              else:
                src = m.get_layer(l.name)
                if src.get_weights():
                  l.set_weights(src.get_weights())
            qm2 = tf.keras.models.clone_model(qm) if False else qm
            qm2.predict_function = None   # retrace with the transferred epsilon
            rec["yq2"] = qm2.predict(x, verbose=0)
        jobs.append(rec)
  # every job goes to the ORDERED-DAG model (`ograph`: n-ary nodes, ordered input lists); the templates
  # whose merges are binary Adds also go to the expression model (`graph`) and the two must agree
  legacy = [ji for ji, j in enumerate(jobs) if j["tname"] not in ORDER_FAMILY]
  outs = core.run_driver("C15", [dict(j["line"], op="ograph") for j in jobs] + [jobs[ji]["line"] for ji in legacy])
  legacy_out = {ji: outs[len(jobs) + n] for n, ji in enumerate(legacy)}
  for ji, (rec, o) in enumerate(zip(jobs, outs)):
    tname, variant, spec, names = rec["tname"], rec["variant"], rec["spec"], rec["names"]
    desc = spec_desc(tname, spec)
    run.case(("to_folded", ji), sample={"stream": "to_folded", "model": desc} if ji == 0 else None)
    run.count("to_folded:%s:%s" % (tname, variant))
    y0, ydrop, yfold = dec(o["y0"]), dec(o["y_drop"]), dec(o["y_fold"])
    sites = [names[i] for i in o["sites"]]
    kept = [names[i] for i in o["kept"]]
    run.count("to_folded:sites=%d" % len(sites))
    if ji in legacy_out:
      lo = legacy_out[ji]
      run.compared += 1
      for k in ("y0", "y_drop", "y_fold", "sites", "kept", "qclass"):
        if lo[k] != o[k]:
          run.disagree("to_folded:expression_vs_ordered_dag:" + k, desc, lo[k], o[k])
    # ---- INPUT ORDER of every layer of the returned model(s)
    by = {nd["name"]: nd for nd in spec}
    removed = {nd["name"]: nd["inputs"][0] for nd in spec if nd["type"] == "bn" and nd["inputs"][0] in rec["ltf"]}
    want_in = {nd["name"]: [removed.get(i, i) for i in nd["inputs"]] for nd in spec if nd["name"] not in removed}
    multi = any(len(v) > 1 for v in want_in.values())
    for api, got_in, model_ins in (("convert_to_folded_model", rec["fm_in"], o["ins_rewire"]),
                                   ("model_quantize", rec.get("qm_in"), o["ins_convert"])):
      if got_in is None:
        continue
      got = {n: got_in.get(n) for n in want_in}
      mod = {names[i]: [names[p] for p in model_ins[i]] for i in o["kept"] if names[i] != "in"}
      run.compared += 1
      if got != mod:
        run.disagree("to_folded:input_order:" + api, desc, got, mod)
      if got == want_in:
        run.count("clause:to_folded_input_order:%s:%s" % (api, "multi-input:holds" if multi else "single-input:holds"))
      else:
        bad = sorted(n for n in want_in if got.get(n) != want_in[n])
        run.count("clause:to_folded_input_order:FAILS")
        run.violate("to_folded_input_order", {"stream": "to_folded", "api": api, "template": tname},
                    {"model": desc, "layers_to_fold": rec["ltf"], "layer": bad[0],
                     "inputs_in_source_model": by[bad[0]]["inputs"], "expected_inputs": want_in[bad[0]],
                     "inputs_in_returned_model": got.get(bad[0]),
                     "note": "a removed BatchNormalization is replaced by the conv in front of it AT ITS POSITION"},
                    mirrored=False)
    # ---- model tie: source predictions, fold-site selection, surviving layers, as-coded function
    run.compared += 4
    if fr(rec["y"]) != y0:
      run.disagree("to_folded:source_predict", desc, [float(v) for v in rec["y"].ravel()[:16]], [float(v) for v in (y0 or [])[:16]])
    if sorted(rec["ltf"]) != sorted(sites):
      run.disagree("to_folded:layers_to_fold", desc, rec["ltf"], sites)
    if sorted(rec["fm_layers"]) != sorted(kept):
      run.disagree("to_folded:kept_layers", desc, rec["fm_layers"], kept)
    if fr(rec["yfm"]) != ydrop:
      run.disagree("to_folded:as_coded_function", desc, [float(v) for v in rec["yfm"].ravel()[:16]], [float(v) for v in (ydrop or [])[:16]])
    # ---- clause: conversion preserves predictions
    key = {"stream": "to_folded", "api": "convert_to_folded_model", "has_sites": bool(sites)}
    if np.array_equal(rec["yfm"], rec["y"]):
      run.count("clause:to_folded_preserves:convert:holds")
    else:
      t = worst_index(rec["y"], rec["yfm"])
      run.count("clause:to_folded_preserves:convert:FAILS")
      run.violate("to_folded_preserves", dict(key, why="bn-dropped"),
                  {"model": desc, "x": [float(v) for v in rec["x"].ravel()], "index": t, "layers_to_fold": rec["ltf"],
                   "source_model": float(rec["y"].ravel()[t]), "converted_model": float(rec["yfm"].ravel()[t])},
                  mirrored=(fr(rec["yfm"]) == ydrop and sorted(rec["ltf"]) == sorted(sites)))
    if "q_classes" not in rec:
      # Conv2D(activation) -> BN: the INTENDED fold of a selected site changes the function
      if yfold != y0:
        run.count("clause:fold_site_valid:FAILS")
        run.violate("fold_site_valid", {"stream": "to_folded", "why": "activation-before-bn"},
                    {"model": desc, "layers_to_fold": rec["ltf"],
                     "note": "selected although act(BN(conv)) != BN(act(conv))"},
                    mirrored=(sorted(rec["ltf"]) == sorted(sites)))
      continue
    # ---- model_quantize(enable_bn_folding=True): classes
    run.compared += 1
    want = {}
    for i, n in enumerate(names):
      c = o["qclass"][i]
      want[n] = QCLASS[c] if c else rec["src_classes"][n]
    want = {n: want[n] for n in kept}
    if want != rec["q_classes"]:
      run.disagree("to_folded:model_quantize_classes", desc, rec["q_classes"], want)
    keyq = {"stream": "to_folded", "api": "model_quantize", "has_sites": bool(sites)}
    if np.array_equal(rec["yq"], rec["y"]):
      run.count("clause:to_folded_preserves:model_quantize:holds")
    else:
      t = worst_index(rec["y"], rec["yq"])
      run.count("clause:to_folded_preserves:model_quantize:FAILS")
      run.violate("to_folded_preserves", dict(keyq, why="parameters-not-transferred"),
                  {"model": desc, "variant": variant, "index": t, "source_model": float(rec["y"].ravel()[t]),
                   "quantized_folded_model": float(rec["yq"].ravel()[t]),
                   "note": "transfer_weights=True is ignored when enable_bn_folding=True; folded layers hold "
                           "initialiser weights and a fresh batch norm with default epsilon"},
                  mirrored=rec["fresh"])
    if "yq2" in rec:
      # with the parameters carried over (by the harness) the folded architecture is the same function
      run.compared += 1
      if fr(rec["yq2"]) != yfold:
        run.disagree("to_folded:after_transfer", desc, [float(v) for v in rec["yq2"].ravel()[:16]], [float(v) for v in (yfold or [])[:16]])
      if np.array_equal(rec["yq2"], rec["y"]):
        run.count("clause:to_folded_after_transfer:bit-equal")
      else:
        t = worst_index(rec["y"], rec["yq2"])
        run.violate("to_folded_after_transfer", keyq,
                    {"model": desc, "variant": variant, "index": t, "source_model": float(rec["y"].ravel()[t]),
                     "folded_model_with_same_parameters": float(rec["yq2"].ravel()[t])}, mirrored=False)


# --------------------------------------------------------------------------- entry

def run(run: core.Run, tier: str):
  core.assert_repo_import()
  import tensorflow as tf
  import qkeras
  rng = np.random.default_rng(run.seed)
  run.extra["rule"] = (
      "layer stream (code with fixes d42f1d8, 90019a5): {QConv2DBatchnorm, QDepthwiseConv2DBatchnorm} x {ema,batch}_stats_folding x use_bias x "
      "scale x center x geometry {valid,same} x {plain, strided, dilated, rectangular, 1x1, depth multiplier} x "
      "{no quantizer, kernel+bias quantized_bits, kernel only, bias only} x {linear, relu}, plus the corner geometries "
      "(batch 1, extents of 1, kernel >= input, stride > kernel, dilation with SAME, channels_first for both classes), the "
      "data-format stream (both classes x process-wide image data format {channels_last, channels_first} x data_format "
      "argument {omitted, channels_last, channels_first} x 4 / 2 geometries: layer.data_format must be the requested layout, "
      "or the process-wide one when omitted, and the layer must equal stock conv -> BatchNormalization in that layout), "
      "other argument forms and five inference routes; exact regime (eps=2^-10, var=4^j-eps, short dyadic gamma incl. 0 and negative) "
      "compared bit for bit with the Lean model, float regime (log-uniform variances 1e-7..20 incl. 0, zero gammas) within "
      "the stated tolerance / outside the breakpoint band.  unfold stream: 7 templates incl. same-class chains with "
      "different quantizer options per layer, each model object unfolded as built and again after set_weights; plus the "
      "'frozen' family: 6 templates mixing folded layers with Conv2D / DepthwiseConv2D / Dense / QConv2D / QDense / "
      "BatchNormalization (affine-free included), every variable random, x freeze plan {layers, layers at construction, "
      "model, model but one layer, none}, the plan CHANGED and all variables replaced (layer.set_weights / model.set_weights / "
      "variable.assign) before the second unfolding; every variable of every layer of the unfolded model compared with the "
      "expectation, the source layer and the Lean layer-list model (unfoldLayers).  "
      "to_folded stream (code with fix 41c6274): 8 stock templates (sequential, branched Add, shared conv, relu between, "
      "bn first, residual depthwise, QConv2D, conv with activation) + 8 templates whose fold sites feed order-sensitive "
      "merges (Subtract / Concatenate with the removed batch norm as first / second / both / two of four inputs, a conv "
      "shared by its batch norm and the merge, no batch norm at all); convert_to_folded_model and "
      "model_quantize(enable_bn_folding=True) x quantizer-config variants; layers_to_fold, surviving layers, classes, the "
      "ORDERED inbound layers of every layer of both returned models, the as-coded function and the function after the "
      "harness copied all parameters, against the ordered-DAG Lean model and the property.  "
      "history stream: one layer object in one model object, random and fixed sequences of {get_folded_weights, "
      "unfold_model, inference by 9 routes} and {assign per variable, set_weights layer/model route with same/other "
      "iteration, save->load_weights h5/tf, _iteration set, a real training step, quantizer attributes replaced}, every "
      "observation judged against the CURRENT parameters (Lean Obj.run, exact-rational formula, fresh twin object).  "
      "non-trivial = every case (each has its own random parameters)")
  run.assumptions.append(
      "float32 rounding of the fold is outside the theorems (over Q): without quantizers the real layer and the "
      "real conv->BN are compared with the exact-rational conv->BN within 2^-22*(fan_in+4)*(sum of |terms|); "
      "with quantizers cases where the rounded folded weight lands on the other side of a quantizer breakpoint "
      "are counted (band) and only required to be adjacent codes")
  run.assumptions.append("rsqrt is an oracle input: the model receives tf.math.rsqrt(var+eps) as measured, per variance "
                         "vector; the exact regime keeps fewer than 8 output channels (Eigen's packet rsqrt is approximate)")
  run.assumptions.append("a training step inside a history is executed on the real layer only; the parameters it leaves are "
                         "read back and handed to the model (training path not modelled)")
  stream_layers(run, tf, qkeras, rng, tier)
  stream_unfold(run, tf, qkeras, rng, tier)
  stream_unfold(run, tf, qkeras, np.random.default_rng([run.seed, 158]), tier, family="frozen")
  stream_to_folded(run, tf, qkeras, rng, tier)
  stream_history(run, tf, qkeras, np.random.default_rng([run.seed, 15]), tier)
