"""C06 — quantizers stay trainable: gradients are those of the straight-through surrogate."""
from fractions import Fraction as F

import numpy as np

from .. import core, fixedq


def short_dyadics(rng, n, lo, hi, bits=10):
  """floats with few significant bits so that mixing with qnoise factors stays exact in float32"""
  v = rng.uniform(lo, hi, size=n)
  e = np.floor(np.log2(np.maximum(np.abs(v), 1e-30)))
  q = np.exp2(e - bits)
  return (np.round(v / q) * q).astype(np.float32)


def grad_of(q, xs):
  import tensorflow as tf
  x = tf.constant(xs)
  with tf.GradientTape() as tape:
    tape.watch(x)
    y = q(x)
  g = tape.gradient(y, x)
  if g is None:
    g = tf.zeros_like(x)
  return np.asarray(y, dtype=np.float32), np.asarray(g, dtype=np.float32)


def run(run: core.Run, tier: str):
  core.assert_repo_import()
  import tensorflow as tf
  from qkeras import quantizers as Q
  rng = np.random.default_rng(run.seed)
  run.extra["rule"] = (
      "every differentiable-by-design quantizer class x option combinations (use_ste, qnoise_factor in "
      "{0,1/4,1}, slopes, relu_upper_bound / is_quantized_clip, max_value, constant / auto scales) x inputs: "
      "each linear piece's interior, every kink and clip bound +-1,2 ulp, clipped regions, short-dyadic random "
      "points; tf.GradientTape (value, gradient) compared exactly with the Lean dual-number model; the clause "
      "oracle checks gradient == surrogate' on the real code; non-trivial = distinct (configuration, input)")
  F32 = lambda v: F(float(np.float32(v)))
  lines, meta = [], []

  def pts(edges, span, exact_only=False):
    base = []
    for e in edges:
      base.append(np.float32(e))
      if not exact_only:
        base += fixedq.ulps(np.float32(e))
    span = float(2.0 ** np.ceil(np.log2(span)))       # dyadic span: the extra points stay short dyadics
    base += list(short_dyadics(rng, 10, -span, span))
    base += [np.float32(0.0), np.float32(0.5 * span), np.float32(-0.5 * span), np.float32(1.5 * span),
             np.float32(-1.5 * span)]
    a = np.array(base, dtype=np.float32)
    # TF's CPU kernels treat subnormals as zero: they are not distinct inputs for the real code
    a = a[(a == 0) | (np.abs(a) >= np.float32(1.1754944e-38))]
    return np.unique(a)

  def add(op, cfg, q, xs, extra=None, label=None, surrogate=None, key=None):
    ys, gs = grad_of(q, xs)
    line = {"op": op, "cfg": cfg, "xs": core.enc_list(xs)}
    if extra:
      line.update(extra)
    lines.append(line)
    meta.append(dict(op=op, label=label, xs=xs, ys=ys, gs=gs, surrogate=surrogate, key=key or {}))

  qfs = [F(1), F(0), F(1, 4)]
  nb = 3 if tier == "quick" else 6
  # ---- quantized_bits, constant / no scale
  for bits, integer, sym, kn, alpha in [(4, 0, 0, 1, None), (3, 1, 1, 1, None), (5, 2, 0, 0, None),
                                        (4, 0, 0, 1, 0.5), (1, 0, 0, 1, None), (8, 3, 1, 1, 2.0)][:nb + 3]:
    for ste in (True, False):
      for qf in qfs:
        q = Q.quantized_bits(bits, integer, sym, keep_negative=kn, alpha=alpha, use_ste=ste, qnoise_factor=float(qf))
        ub = bits - kn
        step = 2.0 ** (integer - ub)
        hi = (2 ** ub - 1) * step
        lo = (-(2 ** ub) + sym) * step if kn else 0.0
        xs = pts([lo, hi, 0.0, 0.5 * step, 1.5 * step], 2.0 ** integer * 1.2, exact_only=(qf not in (0, 1)))
        cfg = dict(bits=bits, integer=integer, symmetric=sym, keep_negative=kn,
                   alpha=None if alpha is None else core.rj(alpha))
        add("bits", cfg, q, xs, dict(use_ste=ste, qf=core.rj(qf)),
            label="quantized_bits(%d,%d,%d,keep_negative=%d,alpha=%s,use_ste=%s,qnoise_factor=%s)"
            % (bits, integer, sym, kn, alpha, ste, qf),
            surrogate=("scaled_identity", (F(1) if ste else 1 - qf)),
            key=dict(cls="quantized_bits", use_ste=ste, qf_is_1=(qf == 1)))
  # ---- quantized_bits with data-dependent scale: gradient must not leak through the scale
  for alpha in ("auto", "auto_po2"):
    for ste in (True, False):
      q = Q.quantized_bits(4, 0, 1, alpha=alpha, use_ste=ste)
      xs = short_dyadics(rng, 24, -2, 2)
      ys, gs = grad_of(q, xs)
      want = 1.0 if ste else 0.0
      for x, g in zip(xs, gs):
        run.case(("bits_auto", alpha, ste, float(x)))
        run.compared += 1
        if float(g) != want:
          run.violate("grad_ste", dict(cls="quantized_bits", alpha=alpha, use_ste=ste, qf_is_1=True),
                      {"config": "quantized_bits(4,0,1,alpha=%s,use_ste=%s)" % (alpha, ste), "x": float(x),
                       "grad": float(g), "expected": want}, mirrored=False)
      if not ste:
        run.violate("nonzero", dict(cls="quantized_bits", use_ste=False, qf_is_1=True),
                    {"config": "quantized_bits(4,0,1,alpha=%s,use_ste=False)" % alpha,
                     "note": "gradient identically zero"}, mirrored=True)
  # ---- quantized_linear
  for bits, integer, sym, kn, alpha in [(4, 0, 1, 1, None), (3, 1, 0, 1, None), (4, 1, 1, 0, 0.5), (1, 0, 1, 1, None)]:
    for qf in qfs:
      q = Q.quantized_linear(bits, integer, sym, keep_negative=kn, alpha=alpha, qnoise_factor=float(qf))
      ub = bits - kn
      qs = (1.0 if alpha is None else alpha) * 2.0 ** (integer - ub)
      if bits == 1 and kn:
        lo, hi = -0.5 * qs, 0.5 * qs
      else:
        hi = (2 ** ub - 1) * qs
        lo = (-(2 ** ub) + sym) * qs if kn else 0.0
      xs = pts([lo, hi, 0.5 * qs, 1.5 * qs], max(abs(lo), abs(hi)) * 1.5 + qs, exact_only=(qf not in (0, 1)))
      cfg = dict(bits=bits, integer=integer, symmetric=sym, keep_negative=kn,
                 alpha=None if alpha is None else core.rj(alpha))
      add("linear", cfg, q, xs, dict(qf=core.rj(qf)),
          label="quantized_linear(%d,%d,%d,keep_negative=%d,alpha=%s,qnoise_factor=%s)" % (bits, integer, sym, kn, alpha, qf),
          surrogate=("linear_clip", (F32(lo), F32(hi), qf)), key=dict(cls="quantized_linear"))
  # ---- quantized_linear with a data-dependent scale: the scale must be a constant for the gradient.
  # 2-D input, per-column scale; column maxima are 7*2^k so that scale = max/7 = 2^k is exact; the other
  # entries have non-zero rounding residues (a scale that leaks into the gradient contributes
  # (round(x/s) - x/s) * ds/dx, so residues are what exposes it).  Expected gradient: identity everywhere.
  for alpha in ("auto", "auto_po2"):
    q = Q.quantized_linear(4, 0, 1, keep_negative=True, alpha=alpha)
    ks = [0, -2, 3]
    cols = []
    for k in ks:
      codes = np.array([7, -7, 2.5, -1.25, 0.5, 5.25, -6.75, 2.25], dtype=np.float32)
      rng.shuffle(codes)
      cols.append(codes * np.float32(2.0 ** k))
    x2 = np.stack(cols, axis=1).astype(np.float32)
    xt = tf.constant(x2)
    with tf.GradientTape() as tape:
      tape.watch(xt)
      y = q(xt)
    g = np.asarray(tape.gradient(y, xt), dtype=np.float32)
    yv = np.asarray(y, dtype=np.float32)
    for idx in np.ndindex(x2.shape):
      run.case(("linear_auto", alpha, idx, float(x2[idx])))
      run.compared += 1
      if float(g[idx]) != 1.0:
        run.violate("grad_ste", dict(cls="quantized_linear", alpha=alpha, what="auto-scale leak"),
                    {"config": "quantized_linear(4,0,1,alpha=%s) on a 2-D tensor with exact column scales" % alpha,
                     "x": float(x2[idx]), "y": float(yv[idx]), "grad": float(g[idx]), "expected_grad": 1.0},
                    mirrored=False)
        break
    run.count("op_linear_auto", x2.size)
  # ---- quantized_relu
  for bits, integer, sl, iqc, upper in [(4, 1, None, True, None), (4, 1, 2, True, None), (4, 1, None, False, 1.5),
                                        (3, 0, 1, False, None), (4, 2, 3, False, 3.0), (6, 2, None, True, None)]:
    for ste in (True, False):
      for qf in qfs:
        slope = 0.0 if sl is None else 2.0 ** -sl
        kw = dict(negative_slope=slope, relu_upper_bound=upper, is_quantized_clip=iqc)
        q = Q.quantized_relu(bits, integer, use_ste=ste, qnoise_factor=float(qf), **kw)
        q1 = Q.quantized_relu(bits, integer, use_ste=True, qnoise_factor=1.0, **kw)
        nsb = bits - (sl is not None)
        bound = 2.0 ** integer - 2.0 ** (integer - nsb)
        edges = [0.0, bound, 2.0 ** (integer - nsb) * 0.5] + ([upper] if upper else [])
        xs = pts(edges, 2.0 ** integer * 1.5, exact_only=(qf not in (0, 1)))
        xqs = np.asarray(q1(tf.constant(xs)), dtype=np.float32)
        cfg = dict(bits=bits, integer=integer, slope_log=sl, is_quantized_clip=iqc,
                   upper=None if upper is None else core.rj(upper))
        b_eff = bound if iqc else (upper if upper is not None else None)
        add("relu", cfg, q, xs, dict(use_ste=ste, qf=core.rj(qf), xqs=core.enc_list(xqs)),
            label="quantized_relu(%d,%d,negative_slope=%s,relu_upper_bound=%s,is_quantized_clip=%s,use_ste=%s,qnoise_factor=%s)"
            % (bits, integer, slope, upper, iqc, ste, qf),
            surrogate=("relu", (F(slope), None if b_eff is None else F32(b_eff), (F(1) if ste else 1 - qf))),
            key=dict(cls="quantized_relu", use_ste=ste, qf_is_1=(qf == 1)))
  # ---- quantized_tanh / quantized_sigmoid (hard and real surrogates)
  for bits, sym in [(4, 0), (3, 1)]:
    for cls, opn in (("quantized_tanh", "tanh"), ("quantized_sigmoid", "sigmoid")):
      m = 2.0 ** (bits - 1) if opn == "tanh" else 2.0 ** bits
      edges = [-1.0, 1.0, 0.0, (1 - 1 / m), -(1 - 1 / m), 1 - 0.5 / m, 2 * (1 - 1 / m) - 1, 0.5 / m]
      xs = pts(edges, 2.0)
      qh = getattr(Q, cls)(bits, symmetric=sym)
      # exact model of the hard surrogate: only where float32 computes 0.5*x+0.5 exactly (short dyadics)
      xs_exact = pts(edges, 2.0, exact_only=True)
      add(opn + "_hard", dict(bits=bits, symmetric=sym), qh, xs_exact, label="%s(%d,symmetric=%d)" % (cls, bits, sym),
          surrogate=("hard_" + opn, (bits, sym)), key=dict(cls=cls, real=False))
      qr = getattr(Q, cls)(bits, symmetric=sym, **({"use_real_tanh": True} if opn == "tanh" else {"use_real_sigmoid": True}))
      for real, qq in ((True, qr), (False, qh)):
        # oracle-input device: surrogate value p and derivative p' as TensorFlow computes them
        xt = tf.constant(xs)
        with tf.GradientTape() as tape:
          tape.watch(xt)
          if real:
            p = tf.tanh(xt) if opn == "tanh" else tf.sigmoid(xt)
          else:
            p = 2.0 * Q._sigmoid(xt) - 1.0 if opn == "tanh" else Q._sigmoid(xt)
        dp = tape.gradient(p, xt)
        add(opn + "_real", dict(bits=bits, symmetric=sym), qq, xs,
            dict(ps=core.enc_list(np.asarray(p)), dps=core.enc_list(np.asarray(dp))),
            label="%s(%d,symmetric=%d,%s surrogate as oracle)" % (cls, bits, sym, "real" if real else "hard"),
            key=dict(cls=cls, real=real))
  # ---- quantized_po2 / quantized_relu_po2
  for bits, mv in [(4, None), (4, 2.0), (5, 0.5)]:
    for ste in (True, False):
      for qf in qfs:
        q = Q.quantized_po2(bits, mv, use_ste=ste, qnoise_factor=float(qf))
        q1 = Q.quantized_po2(bits, mv)
        xs = pts([0.0, 1.0, mv or 4.0], 4.0, exact_only=True)
        xqs = np.asarray(q1(tf.constant(xs)), dtype=np.float32)
        add("po2", dict(), q, xs, dict(use_ste=ste, qf=core.rj(qf), xqs=core.enc_list(xqs)),
            label="quantized_po2(%d,%s,use_ste=%s,qnoise_factor=%s)" % (bits, mv, ste, qf),
            surrogate=("scaled_identity", (F(1) if ste else 1 - qf)),
            key=dict(cls="quantized_po2", use_ste=ste, qf_is_1=(qf == 1)))
  for bits, mv, slope in [(4, None, 0.0), (4, 2.0, 0.25), (4, None, 0.125), (3, 1.0, 0.0)]:
    for ste in (True, False):
      for qf in qfs:
        q = Q.quantized_relu_po2(bits, mv, slope, use_ste=ste, qnoise_factor=float(qf))
        q1 = Q.quantized_relu_po2(bits, mv, slope)
        xs = pts([0.0, 1.0, mv or 4.0], 4.0, exact_only=(qf not in (0, 1)))
        xqs = np.asarray(q1(tf.constant(xs)), dtype=np.float32)
        add("relu_po2", dict(slope=core.rj(slope), max_value=None if mv is None else core.rj(mv)), q, xs,
            dict(use_ste=ste, qf=core.rj(qf), xqs=core.enc_list(xqs)),
            label="quantized_relu_po2(%d,%s,%s,use_ste=%s,qnoise_factor=%s)" % (bits, mv, slope, ste, qf),
            surrogate=("relu", (F(slope), None if mv is None else F32(mv), (F(1) if ste else 1 - qf))),
            key=dict(cls="quantized_relu_po2", use_ste=ste, qf_is_1=(qf == 1)))
  # ---- binary / ternary
  for cls in ("binary", "ternary"):
    for alpha in (None, 1.0, 0.5, "auto", "auto_po2"):
      q = getattr(Q, cls)(alpha=alpha)
      xs = pts([0.0, 0.33, -0.33, 1.0], 2.0, exact_only=True)
      xs = xs[xs != 0.0] if alpha in ("auto", "auto_po2") else xs
      xt = tf.constant(xs)
      with tf.GradientTape() as tape:
        tape.watch(xt)
        th = tf.tanh(xt)
      dth = tape.gradient(th, xt)
      ys, _ = grad_of(q, xs)
      # xq (value of scale*code) is whatever the implementation emitted: the forward value IS xq
      add("binter", dict(alpha_none=alpha is None), q, xs,
          dict(xqs=core.enc_list(ys), ths=core.enc_list(np.asarray(th)), dths=core.enc_list(np.asarray(dth))),
          label="%s(alpha=%s)" % (cls, alpha),
          surrogate=("tanh" if alpha is None else "scaled_identity", F(1)), key=dict(cls=cls, alpha=str(alpha)))

  outs = core.run_driver("C06", lines)
  for m, o in zip(meta, outs):
    xs, ys, gs = m["xs"], m["ys"], m["gs"]
    mirrored = True
    bad = []
    for i, (x, y, g, d) in enumerate(zip(xs, ys, gs, o["out"])):
      run.case((m["label"], float(x)))
      run.compared += 1
      mv, mt = core.unrj(d[0]), core.unrj(d[1])
      fy, fg = F(float(y)), F(float(g))
      okv = (fy == mv)
      okt = (fg == mt)
      if m["op"].endswith("_real") or m["op"] == "binter":
        # oracle-input device: tanh' / sigmoid' products are float32 roundings of the exact product
        okt = okt or abs(fg - mt) <= abs(mt) * F(1, 2 ** 21) + F(1, 2 ** 40)
        okv = okv or m["op"] == "binter" and abs(fy - mv) <= abs(mv) * F(1, 2 ** 22)
      if not (okv and okt):
        bad.append((float(x), [float(y), float(g)], [float(mv), float(mt)]))
    if bad:
      mirrored = False
      run.disagree("grad:" + m["op"], {"config": m["label"], "n_bad": len(bad), "first": bad[:3]}, "first", "first")
    run.count("op_" + m["op"], len(xs))
    # ---- clause oracle on the real code: gradient equals the surrogate's gradient
    sur = m["surrogate"]
    if sur is None:
      continue
    kind, par = sur
    all_zero = not any(float(g) != 0.0 for g in gs)
    for x, g in zip(xs, gs):
      fx, fg = F(float(x)), F(float(g))
      exp = None
      if kind == "scaled_identity":
        exp = par
      elif kind == "relu":
        slope, bound, fac = par
        if bound is not None and fx > bound:
          exp = F(0)
        else:
          exp = fac * (F(1) if fx > 0 else slope)
      elif kind == "linear_clip":
        lo, hi, qf = par
        exp = F(1) if lo <= fx <= hi else 1 - qf
        if fx in (lo, hi):
          exp = None   # gradient of clip AT the bound is a TF convention, pinned by the tie only
      elif kind == "tanh":
        exp = None
      elif kind in ("hard_tanh", "hard_sigmoid"):
        exp = None     # piecewise: covered by the model tie (clip masks at kinks are conventions)
      if exp is not None and fg != exp:
        run.violate("grad_ste", dict(m["key"], kind=kind),
                    {"config": m["label"], "x": float(x), "grad": float(g), "expected": str(exp)}, mirrored=mirrored)
        break
    if all_zero and kind in ("scaled_identity", "relu"):
      run.violate("nonzero", dict(m["key"]), {"config": m["label"], "note": "gradient identically zero"},
                  mirrored=mirrored)
  run.assumptions.append("TF autodiff conventions (clip inclusive, leaky-relu slope at 0, zero gradient of "
                         "round/sign, stop_gradient) are definitions of the dual-number calculus, validated by the tie")
