"""C06 — quantizers stay trainable: gradients are those of the straight-through surrogate."""
from fractions import Fraction as F

import numpy as np

from .. import core, fixedq


def short_dyadics(rng, n, lo, hi, bits=10):
  """floats with few significant bits so that mixing with qnoise factors stays exact in float32"""
  v = rng.uniform(lo, hi, size=n)
  e = np.floor(np.log2(np.maximum(np.abs(v), 1e-30)))
  q = np.exp2(e - bits)
  return (np.round(v / q) * q).astype(np.float32)


def grad_of(q, xs, w=None, variable=False):
  """(value, d sum(w*y) / dx / w).  `w`: upstream gradient, powers of two (division exact); with a
  non-constant upstream gradient a leak through a reduction (K.max of an auto scale) cannot cancel."""
  import tensorflow as tf
  x = tf.Variable(xs) if variable else tf.constant(xs)
  with tf.GradientTape() as tape:
    tape.watch(x)
    y = q(x)
    loss = y if w is None else tf.reduce_sum(y * tf.constant(w))
  g = tape.gradient(loss, x)
  if g is None:
    g = tf.zeros_like(x)
  g = np.asarray(g, dtype=np.float32)
  if w is not None:
    g = (g / w).astype(np.float32)
  return np.asarray(y, dtype=np.float32), g


class FixedUniform:
  """stand-in for `tf.random.uniform` while installed: every call returns the SAME fixed unit draws `U`
  (tiled to the requested shape), scaled as random_ops.random_uniform does for minval / maxval; the
  (value, gradient) of the training branches becomes a deterministic function of (x, U)"""

  def __init__(self, tf, mods):
    self.tf = tf
    self.U = None
    self.calls = 0
    self.saved = [(m, m.uniform) for m in mods]
    for m in mods:
      m.uniform = self.fake

  def restore(self):
    for m, f in self.saved:
      m.uniform = f
    self.saved = []

  def fake(self, shape, minval=0, maxval=None, dtype=None, seed=None, name=None):
    tf = self.tf
    self.calls += 1
    shp = [int(v) for v in np.asarray(shape).reshape(-1)]
    n = int(np.prod(shp)) if shp else 1
    U = self.U if self.U is not None else np.zeros(1, dtype=np.float32)
    u = tf.constant(np.resize(np.asarray(U, dtype=np.float32).ravel(), n).reshape(shp))
    if maxval is None and isinstance(minval, (int, float)) and minval == 0:
      return u
    if maxval is None:
      maxval = 1.0
    return u * (maxval - minval) + minval


def is_po2(v):
  m, _ = np.frexp(np.asarray(v, dtype=np.float64))
  return bool(np.all(m == 0.5))


def run(run: core.Run, tier: str):
  core.assert_repo_import()
  import tensorflow as tf
  from qkeras import quantizers as Q
  rng = np.random.default_rng(run.seed)
  run.extra["rule"] = (
      "every differentiable-by-design quantizer class x option combinations (use_ste, qnoise_factor in "
      "{0,1/4,1}, slopes, relu_upper_bound / is_quantized_clip, max_value, constant / auto scales) x inputs: "
      "each linear piece's interior, every kink and clip bound +-1,2 ulp, clipped regions, short-dyadic random "
      "points; data-dependent scales (quantized_bits 'auto' / 'auto_po2' / post_training_scale x integer in "
      "{-1,0,1,2,3} x keep_negative x use_ste x qnoise_factor; quantized_linear 'auto' / 'auto_po2' incl. 1 bit and "
      "unsigned; binary / ternary) on 1-D, per-channel 2-D and 4-D tensors whose column extremes make the scale an "
      "exact power of two, with a non-constant power-of-two upstream gradient; "
      "tf.GradientTape (value, gradient) compared exactly with the Lean dual-number model (the implementation's "
      "scale is an oracle input of the auto-scaled transcriptions); the clause oracle checks on the real code "
      "gradient == surrogate' and value == x_u + qnoise_factor * (q(x) - x_u); "
      "round 2 streams, all through the same tie and oracle: use_stochastic_rounding=True for every class that has "
      "the flag (+ stochastic_binary / stochastic_ternary / bernoulli / quantized_hswish) in learning phase 0 AND 1 "
      "(tf.random.uniform patched to fixed draws: odd/128, 0, 1-2^-23, random k/2^23); every legal negative_slope "
      "{0, 1/8, 1/2, 1, 2, 4} x max_value / bounds (incl. relu_upper_bound=0.0) x use_ste x qnoise_factor {1, 0, 1/2} "
      "for quantized_relu_po2 and quantized_relu, slope as int / numpy, use_sigmoid, quadratic_approximation, "
      "log2_rounding='floor' together with the flag; histories on ONE object (used on another rank, then "
      "update_qnoise_factor via attribute / tf.Variable / tf.Variable argument / assignment / use_ste flip / second "
      "call) compared with a fresh twin; tensors of rank 0..5 with unit dimensions, tf.Variable inputs; numeric options "
      "as numpy scalars / 0-d arrays / tf.constant / tf.Variable; set_internal_sigmoid modes in both orders, "
      "learning phase 1 without the flag, channels_first; "
      "round 3: histories that CHANGE the option a __call__ reads — binary / ternary / stochastic_* x 24 alpha histories "
      "(_set_trainable_parameter, assignments in both directions, deepcopy / from_config afterwards, the real layer route "
      "for QDense / QConv1D / QConv2D / QDepthwiseConv2D / QSeparableConv2D incl. shared and string-given quantizers) tied "
      "to the Lean OBJECT model (driver op binter_hist), judged by the surrogate of the alpha now in force and against a "
      "fresh twin; the sampling routes after the hook; quantized_bits / quantized_linear alpha None -> hook; every other "
      "option of every class assigned after construction with another value (attr_history); "
      "non-trivial = distinct (configuration, input)")
  F32 = lambda v: F(float(np.float32(v)))
  lines, meta = [], []

  def pts(edges, span, exact_only=False):
    base = []
    for e in edges:
      base.append(np.float32(e))
      if not exact_only:
        base += fixedq.ulps(np.float32(e))
    span = float(2.0 ** np.ceil(np.log2(span)))       # dyadic span: the extra points stay short dyadics
    base += list(short_dyadics(rng, 10, -span, span))
    base += [np.float32(0.0), np.float32(0.5 * span), np.float32(-0.5 * span), np.float32(1.5 * span),
             np.float32(-1.5 * span)]
    a = np.array(base, dtype=np.float32)
    # TF's CPU kernels treat subnormals as zero: they are not distinct inputs for the real code
    a = a[(a == 0) | (np.abs(a) >= np.float32(1.1754944e-38))]
    return np.unique(a)

  def add(op, cfg, q, xs, extra=None, label=None, surrogate=None, key=None, pre=None, mix=None):
    """pre = (ys, gs) already measured (tensors of rank > 1 are flattened by the caller);
    mix = (qf, y1, xu): y1 = output of the SAME configuration on the same tensor at qnoise_factor 1
    (straight-through form), xu = surrogate kind -> clause  y == x_u + qf * (y1 - x_u)"""
    ys, gs = pre if pre is not None else grad_of(q, xs)
    line = {"op": op, "cfg": cfg, "xs": core.enc_list(xs)}
    if extra:
      line.update(extra)
    lines.append(line)
    meta.append(dict(op=op, label=label, xs=xs, ys=ys, gs=gs, surrogate=surrogate, key=key or {}, mix=mix))

  def po2w(shape):
    return np.exp2(rng.integers(-1, 3, size=shape)).astype(np.float32)

  def crafted(ncol, nrow, top, ks, lim=None, signed_max=None):
    """tensor (nrow, ncol) of c * 2^k, c multiples of 1/8: per column the extreme element is exactly
    `top` * 2^k (so that the 'auto' scale is a power of two and every float32 operation of the
    branch is exact), plus zero, rounding ties (k + 1/2), near-extreme values and random residues"""
    lim = top if lim is None else lim
    cols = []
    for j in range(ncol):
      c = rng.integers(-int(8 * lim), int(8 * lim) + 1, size=nrow) / 8.0
      c[1] = 0.0
      c[2] = np.floor(lim) - 0.5
      c[3] = -(np.floor(lim / 2) + 0.5)
      c[4] = -(lim - 0.125)
      c[5] = 0.375
      c = np.clip(c, -lim, lim)
      if lim == top:
        c[np.abs(c) == top] = top - 1       # a single extreme element
      c[0] = top if (signed_max or j % 2 == 0) else -top
      cols.append(c * 2.0 ** ks[j % len(ks)])
    return np.stack(cols, axis=1).astype(np.float32)

  qfs = [F(1), F(0), F(1, 4)]
  nb = 3 if tier == "quick" else 6
  # ---- quantized_bits, constant / no scale
  for bits, integer, sym, kn, alpha in [(4, 0, 0, 1, None), (3, 1, 1, 1, None), (5, 2, 0, 0, None),
                                        (4, 0, 0, 1, 0.5), (1, 0, 0, 1, None), (8, 3, 1, 1, 2.0)][:nb + 3]:
    for ste in (True, False):
      for qf in qfs:
        q = Q.quantized_bits(bits, integer, sym, keep_negative=kn, alpha=alpha, use_ste=ste, qnoise_factor=float(qf))
        ub = bits - kn
        step = 2.0 ** (integer - ub)
        hi = (2 ** ub - 1) * step
        lo = (-(2 ** ub) + sym) * step if kn else 0.0
        xs = pts([lo, hi, 0.0, 0.5 * step, 1.5 * step], 2.0 ** integer * 1.2, exact_only=(qf not in (0, 1)))
        cfg = dict(bits=bits, integer=integer, symmetric=sym, keep_negative=kn,
                   alpha=None if alpha is None else core.rj(alpha))
        q1 = Q.quantized_bits(bits, integer, sym, keep_negative=kn, alpha=alpha)
        add("bits", cfg, q, xs, dict(use_ste=ste, qf=core.rj(qf)),
            label="quantized_bits(%d,%d,%d,keep_negative=%d,alpha=%s,use_ste=%s,qnoise_factor=%s)"
            % (bits, integer, sym, kn, alpha, ste, qf),
            surrogate=("scaled_identity", (F(1) if ste else 1 - qf)),
            key=dict(cls="quantized_bits", use_ste=ste, qf_is_1=(qf == 1)),
            mix=(qf, np.asarray(q1(tf.constant(xs)), dtype=np.float32), "identity"))
  # ---- quantized_bits with a data-dependent scale (alpha 'auto' / 'auto_po2' / post_training_scale):
  # the branch normalises x / m_i and restores m_i * x, so every `integer` is generated; per-channel
  # (2-D) and single (1-D) scales; both return forms; all three noise factors; (value, gradient) tied to
  # qbitsAutoD with the implementation's scale as an oracle input, and judged by the clauses directly.
  shapes_bk = [(4, 1), (3, 1), (6, 0), (2, 1), (5, 0), (8, 1), (3, 0)]
  ci = 0
  for alpha in ("auto", "auto_po2", "post_training_scale"):
    for integer in (0, 1, 2, 3, -1):
      for kn_pick in (0, 1):
        cand = [bk for bk in shapes_bk if bk[1] == kn_pick]
        bits, kn = cand[(ci // 2) % len(cand)]
        ci += 1
        L = 2 ** (bits - 1) - 1
        ub = bits - kn
        rank2 = (ci % 3 != 0)
        ks = [int(k) for k in rng.integers(-3, 4, size=3)]
        if alpha == "post_training_scale":
          # frozen scale: elements beyond the largest code saturate
          x2 = crafted(3 if rank2 else 1, 12, L, ks, lim=2 * L)
          pts_scale = np.array([[2.0 ** (k - integer + ub) for k in (ks if rank2 else ks[:1])]], dtype=np.float32)
          kw = dict(alpha="auto_po2", post_training_scale=pts_scale if rank2 else pts_scale[0])
        else:
          x2 = crafted(3 if rank2 else 1, 12, L, ks)
          kw = dict(alpha=alpha)
        if not rank2:
          x2 = x2[:, 0]
        w = po2w(x2.shape)
        q1 = Q.quantized_bits(bits, integer, 1, keep_negative=kn, **kw)
        y1 = np.asarray(q1(tf.constant(x2)), dtype=np.float32)
        for ste in (True, False):
          for qf in qfs:
            q = Q.quantized_bits(bits, integer, 1, keep_negative=kn, use_ste=ste, qnoise_factor=float(qf), **kw)
            ys, gs = grad_of(q, x2, w)
            S = np.broadcast_to(np.asarray(q.scale, dtype=np.float32), x2.shape if rank2 else (1,) + x2.shape)
            S = S.reshape(x2.shape)
            label = ("quantized_bits(%d,%d,1,keep_negative=%d,alpha=%s,use_ste=%s,qnoise_factor=%s) on a %s tensor"
                     % (bits, integer, kn, alpha, ste, qf, "x".join(map(str, x2.shape))))
            if not is_po2(S):
              run.count("bits_auto_scale_not_po2")
            add("bits_auto", dict(bits=bits, integer=integer, keep_negative=bool(kn)), q, x2.ravel(),
                dict(use_ste=ste, qf=core.rj(qf), ss=core.enc_list(S.ravel())), label=label,
                surrogate=("scaled_identity", (F(1) if ste else 1 - qf)),
                key=dict(cls="quantized_bits", alpha=alpha, use_ste=ste, qf_is_1=(qf == 1)),
                pre=(ys.ravel(), gs.ravel()), mix=(qf, y1.ravel(), "identity"))
            run.count("bits_auto_integer_%d" % integer, x2.size)
  # gradient-only (clause oracle, no model): generic data (the 'auto' scale is not a power of two), conv-kernel
  # rank, scale_axis, elements_per_scale
  for alpha, shape, kw in [("auto", (5, 4), {}), ("auto_po2", (2, 2, 3, 4), {}), ("auto", (2, 2, 3, 4), {}),
                           ("auto_po2", (6, 4), dict(scale_axis=0)), ("auto", (24,), {}),
                           ("auto_po2", (8, 4), dict(scale_axis=1, elements_per_scale=2))]:
    for integer in (0, 2, 3):
      for ste in (True, False):
        for qf in (F(1), F(1, 4)):
          q = Q.quantized_bits(5, integer, 1, alpha=alpha, use_ste=ste, qnoise_factor=float(qf), **kw)
          xs = short_dyadics(rng, int(np.prod(shape)), -2.0 ** integer, 2.0 ** integer).reshape(shape)
          w = po2w(shape)
          ys, gs = grad_of(q, xs, w)
          want = F(1) if ste else 1 - qf
          label = "quantized_bits(5,%d,1,alpha=%s,use_ste=%s,qnoise_factor=%s%s) on a %s tensor" % (
              integer, alpha, ste, qf, "".join(",%s=%s" % kv for kv in kw.items()), "x".join(map(str, shape)))
          key = dict(cls="quantized_bits", alpha=alpha, use_ste=ste, qf_is_1=(qf == 1))
          for x, g in zip(xs.ravel(), gs.ravel()):
            run.case((label, float(x)))
            run.compared += 1
            if F(float(g)) != want:
              run.violate("grad_ste", dict(key, kind="scaled_identity"),
                          {"config": label, "x": float(x), "grad": float(g), "expected": str(want)}, mirrored=False)
              break
          if not np.any(gs != 0):
            run.violate("nonzero", dict(cls="quantized_bits", use_ste=ste, qf_is_1=(qf == 1)),
                        {"config": label, "note": "gradient identically zero"}, mirrored=True)
          run.count("op_bits_auto_generic", xs.size)
  # ---- quantized_linear
  for bits, integer, sym, kn, alpha in [(4, 0, 1, 1, None), (3, 1, 0, 1, None), (4, 1, 1, 0, 0.5), (1, 0, 1, 1, None)]:
    for qf in qfs:
      q = Q.quantized_linear(bits, integer, sym, keep_negative=kn, alpha=alpha, qnoise_factor=float(qf))
      ub = bits - kn
      qs = (1.0 if alpha is None else alpha) * 2.0 ** (integer - ub)
      if bits == 1 and kn:
        lo, hi = -0.5 * qs, 0.5 * qs
      else:
        hi = (2 ** ub - 1) * qs
        lo = (-(2 ** ub) + sym) * qs if kn else 0.0
      xs = pts([lo, hi, 0.5 * qs, 1.5 * qs], max(abs(lo), abs(hi)) * 1.5 + qs, exact_only=(qf not in (0, 1)))
      cfg = dict(bits=bits, integer=integer, symmetric=sym, keep_negative=kn,
                 alpha=None if alpha is None else core.rj(alpha))
      q1 = Q.quantized_linear(bits, integer, sym, keep_negative=kn, alpha=alpha)
      add("linear", cfg, q, xs, dict(qf=core.rj(qf)),
          label="quantized_linear(%d,%d,%d,keep_negative=%d,alpha=%s,qnoise_factor=%s)" % (bits, integer, sym, kn, alpha, qf),
          surrogate=("linear_clip", (F32(lo), F32(hi), qf)), key=dict(cls="quantized_linear"),
          mix=(qf, np.asarray(q1(tf.constant(xs)), dtype=np.float32), "identity"))
  # ---- quantized_linear with a data-dependent scale ('auto' / 'auto_po2'): the scale enters under
  # stop_gradient.  Per-column extreme = clip_range/2 * 2^k (keep_negative) or clip_max * 2^k, so that the
  # scale 2^k is exact; non-symmetric / unsigned configurations then have elements OUTSIDE the clip range
  # (the half step above clip_max, negative inputs of an unsigned quantizer): gradient 1 - qnoise_factor there.
  for alpha in ("auto", "auto_po2"):
    for bits, sym, kn in [(4, 1, 1), (4, 0, 1), (3, 0, 0), (5, 1, 0), (1, 1, 1), (2, 0, 1)]:
      for integer in (0, 2):
        ub = bits - kn
        if bits == 1 and kn:
          cmin, cmax = F(-1, 2), F(1, 2)
        else:
          cmax = F(2 ** ub - 1)
          cmin = F(-(2 ** ub) + sym) if kn else F(0)
        top = float((cmax - cmin) / 2) if kn else float(cmax)
        ks = [int(k) for k in rng.integers(-3, 4, size=3)]
        x2 = crafted(3, 12, top, ks, signed_max=not kn)
        w = po2w(x2.shape)
        q1 = Q.quantized_linear(bits, integer, sym, keep_negative=kn, alpha=alpha)
        y1 = np.asarray(q1(tf.constant(x2)), dtype=np.float32)
        for qf in qfs:
          q = Q.quantized_linear(bits, integer, sym, keep_negative=kn, alpha=alpha, qnoise_factor=float(qf))
          ys, gs = grad_of(q, x2, w)
          qs = np.broadcast_to(np.asarray(q.quantization_scale, dtype=np.float32), x2.shape)
          label = ("quantized_linear(%d,%d,%d,keep_negative=%d,alpha=%s,qnoise_factor=%s) on a %s tensor"
                   % (bits, integer, sym, kn, alpha, qf, "x".join(map(str, x2.shape))))
          if not is_po2(qs):
            run.count("linear_auto_scale_not_po2")
          add("linear_s", dict(bits=bits, integer=integer, symmetric=bool(sym), keep_negative=bool(kn)), q, x2.ravel(),
              dict(qf=core.rj(qf), qss=core.enc_list(qs.ravel())), label=label,
              surrogate=("linear_clip_s", (cmin, cmax, qf, qs.ravel())),
              key=dict(cls="quantized_linear", alpha=alpha),
              pre=(ys.ravel(), gs.ravel()), mix=(qf, y1.ravel(), "identity"))
  # ---- quantized_relu
  for bits, integer, sl, iqc, upper in [(4, 1, None, True, None), (4, 1, 2, True, None), (4, 1, None, False, 1.5),
                                        (3, 0, 1, False, None), (4, 2, 3, False, 3.0), (6, 2, None, True, None)]:
    for ste in (True, False):
      for qf in qfs:
        slope = 0.0 if sl is None else 2.0 ** -sl
        kw = dict(negative_slope=slope, relu_upper_bound=upper, is_quantized_clip=iqc)
        q = Q.quantized_relu(bits, integer, use_ste=ste, qnoise_factor=float(qf), **kw)
        q1 = Q.quantized_relu(bits, integer, use_ste=True, qnoise_factor=1.0, **kw)
        nsb = bits - (sl is not None)
        bound = 2.0 ** integer - 2.0 ** (integer - nsb)
        edges = [0.0, bound, 2.0 ** (integer - nsb) * 0.5] + ([upper] if upper else [])
        xs = pts(edges, 2.0 ** integer * 1.5, exact_only=(qf not in (0, 1)))
        xqs = np.asarray(q1(tf.constant(xs)), dtype=np.float32)
        cfg = dict(bits=bits, integer=integer, slope_log=sl, is_quantized_clip=iqc,
                   upper=None if upper is None else core.rj(upper))
        b_eff = bound if iqc else (upper if upper is not None else None)
        add("relu", cfg, q, xs, dict(use_ste=ste, qf=core.rj(qf), xqs=core.enc_list(xqs)),
            label="quantized_relu(%d,%d,negative_slope=%s,relu_upper_bound=%s,is_quantized_clip=%s,use_ste=%s,qnoise_factor=%s)"
            % (bits, integer, slope, upper, iqc, ste, qf),
            surrogate=("relu", (F(slope), None if b_eff is None else F32(b_eff), (F(1) if ste else 1 - qf))),
            key=dict(cls="quantized_relu", use_ste=ste, qf_is_1=(qf == 1)),
            mix=(qf, xqs, (F(slope), None if b_eff is None else F32(b_eff))))
  # ---- quantized_tanh / quantized_sigmoid (hard and real surrogates)
  for bits, sym in [(4, 0), (3, 1)]:
    for cls, opn in (("quantized_tanh", "tanh"), ("quantized_sigmoid", "sigmoid")):
      m = 2.0 ** (bits - 1) if opn == "tanh" else 2.0 ** bits
      edges = [-1.0, 1.0, 0.0, (1 - 1 / m), -(1 - 1 / m), 1 - 0.5 / m, 2 * (1 - 1 / m) - 1, 0.5 / m]
      xs = pts(edges, 2.0)
      qh = getattr(Q, cls)(bits, symmetric=sym)
      # exact model of the hard surrogate: only where float32 computes 0.5*x+0.5 exactly (short dyadics)
      xs_exact = pts(edges, 2.0, exact_only=True)
      add(opn + "_hard", dict(bits=bits, symmetric=sym), qh, xs_exact, label="%s(%d,symmetric=%d)" % (cls, bits, sym),
          surrogate=("hard_" + opn, (bits, sym)), key=dict(cls=cls, real=False))
      qr = getattr(Q, cls)(bits, symmetric=sym, **({"use_real_tanh": True} if opn == "tanh" else {"use_real_sigmoid": True}))
      for real, qq in ((True, qr), (False, qh)):
        # oracle-input device: surrogate value p and derivative p' as TensorFlow computes them
        xt = tf.constant(xs)
        with tf.GradientTape() as tape:
          tape.watch(xt)
          if real:
            p = tf.tanh(xt) if opn == "tanh" else tf.sigmoid(xt)
          else:
            p = 2.0 * Q._sigmoid(xt) - 1.0 if opn == "tanh" else Q._sigmoid(xt)
        dp = tape.gradient(p, xt)
        add(opn + "_real", dict(bits=bits, symmetric=sym), qq, xs,
            dict(ps=core.enc_list(np.asarray(p)), dps=core.enc_list(np.asarray(dp))),
            label="%s(%d,symmetric=%d,%s surrogate as oracle)" % (cls, bits, sym, "real" if real else "hard"),
            key=dict(cls=cls, real=real))
  # ---- quantized_po2 / quantized_relu_po2
  for bits, mv in [(4, None), (4, 2.0), (5, 0.5)]:
    for ste in (True, False):
      for qf in qfs:
        q = Q.quantized_po2(bits, mv, use_ste=ste, qnoise_factor=float(qf))
        q1 = Q.quantized_po2(bits, mv)
        xs = pts([0.0, 1.0, mv or 4.0], 4.0, exact_only=True)
        xqs = np.asarray(q1(tf.constant(xs)), dtype=np.float32)
        add("po2", dict(), q, xs, dict(use_ste=ste, qf=core.rj(qf), xqs=core.enc_list(xqs)),
            label="quantized_po2(%d,%s,use_ste=%s,qnoise_factor=%s)" % (bits, mv, ste, qf),
            surrogate=("scaled_identity", (F(1) if ste else 1 - qf)),
            key=dict(cls="quantized_po2", use_ste=ste, qf_is_1=(qf == 1)), mix=(qf, xqs, "identity"))
  for bits, mv, slope in [(4, None, 0.0), (4, 2.0, 0.25), (4, None, 0.125), (3, 1.0, 0.0)]:
    for ste in (True, False):
      for qf in qfs:
        q = Q.quantized_relu_po2(bits, mv, slope, use_ste=ste, qnoise_factor=float(qf))
        q1 = Q.quantized_relu_po2(bits, mv, slope)
        xs = pts([0.0, 1.0, mv or 4.0], 4.0, exact_only=(qf not in (0, 1)))
        xqs = np.asarray(q1(tf.constant(xs)), dtype=np.float32)
        add("relu_po2", dict(slope=core.rj(slope), max_value=None if mv is None else core.rj(mv)), q, xs,
            dict(use_ste=ste, qf=core.rj(qf), xqs=core.enc_list(xqs)),
            label="quantized_relu_po2(%d,%s,%s,use_ste=%s,qnoise_factor=%s)" % (bits, mv, slope, ste, qf),
            surrogate=("relu", (F(slope), None if mv is None else F32(mv), (F(1) if ste else 1 - qf))),
            key=dict(cls="quantized_relu_po2", use_ste=ste, qf_is_1=(qf == 1)),
            mix=(qf, xqs, (F(slope), None if mv is None else F32(mv))))
  # ---- binary / ternary
  for cls in ("binary", "ternary"):
    for alpha in (None, 1.0, 0.5, "auto", "auto_po2"):
      q = getattr(Q, cls)(alpha=alpha)
      xs = pts([0.0, 0.33, -0.33, 1.0], 2.0, exact_only=True)
      xs = xs[xs != 0.0] if alpha in ("auto", "auto_po2") else xs
      xt = tf.constant(xs)
      with tf.GradientTape() as tape:
        tape.watch(xt)
        th = tf.tanh(xt)
      dth = tape.gradient(th, xt)
      ys, _ = grad_of(q, xs)
      # xq (value of scale*code) is whatever the implementation emitted: the forward value IS xq
      add("binter", dict(alpha_none=alpha is None), q, xs,
          dict(xqs=core.enc_list(ys), ths=core.enc_list(np.asarray(th)), dths=core.enc_list(np.asarray(dth))),
          label="%s(alpha=%s)" % (cls, alpha),
          surrogate=(("tanh", np.asarray(dth, dtype=np.float32)) if alpha is None else ("scaled_identity", F(1))),
          key=dict(cls=cls, alpha=str(alpha)))

  for cls in ("binary", "ternary"):
    for alpha in ("auto", "auto_po2"):
      q = getattr(Q, cls)(alpha=alpha)
      x2 = short_dyadics(rng, 24, -2, 2).reshape(8, 3) * np.array([1.0, 0.25, 4.0], dtype=np.float32)
      x2 = np.where(x2 == 0, np.float32(0.5), x2).astype(np.float32)
      w = po2w(x2.shape)
      ys, gs = grad_of(q, x2, w)
      xt = tf.constant(x2.ravel())
      with tf.GradientTape() as tape:
        tape.watch(xt)
        th = tf.tanh(xt)
      dth = tape.gradient(th, xt)
      add("binter", dict(alpha_none=False), q, x2.ravel(),
          dict(xqs=core.enc_list(ys.ravel()), ths=core.enc_list(np.asarray(th)), dths=core.enc_list(np.asarray(dth))),
          label="%s(alpha=%s) on a 8x3 tensor" % (cls, alpha),
          surrogate=("scaled_identity", F(1)), key=dict(cls=cls, alpha=str(alpha)), pre=(ys.ravel(), gs.ravel()))

  # ====================================================================================================
  # Strengthening round 2 (seeds C06-5, C06-6 + cross-cutting streams): every stream below measures
  # (value, gradient) on the real code through some ROUTE (learning phase x use_stochastic_rounding with the
  # random source patched to fixed draws; every legal negative_slope; a history on one object; tensors of
  # rank 0..5; process-level switches; other argument forms) and hands it to the SAME model tie and the SAME
  # clause oracle as a freshly built quantizer called once.
  # ====================================================================================================
  import tensorflow.keras.backend as K
  mods = [Q.tf.random] + ([tf.random] if tf.random is not Q.tf.random else [])
  fu = FixedUniform(tf, mods)
  HALF = F(1, 2)

  def draws(n):
    """unit draws: odd/128 (never on a rounding edge of `fraction`), 0, the largest float32 below 1, and
    random multiples of 2^-23"""
    k = rng.integers(0, 64, size=n)
    u = (2 * k + 1) / 128.0
    sel = rng.integers(0, 8, size=n)
    u = np.where(sel == 0, 0.0, u)
    u = np.where(sel == 1, 1.0 - 2.0 ** -23, u)
    u = np.where(sel == 2, rng.integers(0, 2 ** 23, size=n) / 2.0 ** 23, u)
    return u.astype(np.float32)

  def measure(q, xs, w=None, phase=0, U=None, variable=False):
    K.set_learning_phase(1 if phase else 0)
    fu.U = U
    try:
      return grad_of(q, xs, w, variable=variable)
    finally:
      K.set_learning_phase(0)
      fu.U = None

  def value_of(q, xs, phase=0, U=None):
    K.set_learning_phase(1 if phase else 0)
    fu.U = U
    try:
      return np.asarray(q(tf.constant(xs)), dtype=np.float32)
    finally:
      K.set_learning_phase(0)
      fu.U = None

  # ---- specifications: one per (class, options); `make(**override)` builds the real quantizer
  def S_bits(bits, integer, sym, kn, alpha, ste, qf, stoch=False):
    ub = bits - kn
    step = 2.0 ** (integer - ub)
    hi = (2 ** ub - 1) * step
    lo = (-(2 ** ub) + sym) * step if kn else 0.0

    def make(**o):
      kw = dict(bits=bits, integer=integer, symmetric=sym, keep_negative=kn, alpha=alpha, use_ste=ste,
                qnoise_factor=float(qf), use_stochastic_rounding=stoch)
      kw.update(o)
      return Q.quantized_bits(**kw)
    return dict(cls="quantized_bits", make=make, one=dict(use_ste=True, qnoise_factor=1.0), op="bits",
                cfg=dict(bits=bits, integer=integer, symmetric=sym, keep_negative=kn,
                         alpha=None if alpha is None else core.rj(alpha)),
                extra=lambda xs, y1: dict(use_ste=ste, qf=core.rj(qf)),
                surrogate=lambda xs, ex: ("scaled_identity", (F(1) if ste else 1 - qf)), mix="identity", qf=qf, stoch=stoch,
                key=dict(cls="quantized_bits", use_ste=ste, qf_is_1=(qf == 1)),
                label="quantized_bits(%d,%d,%d,keep_negative=%d,alpha=%s,use_ste=%s,qnoise_factor=%s)"
                % (bits, integer, sym, kn, alpha, ste, qf),
                edges=[lo, hi, 0.0, 0.5 * step, 1.5 * step], span=2.0 ** integer * 1.2)

  def S_linear(bits, integer, sym, kn, alpha, qf, stoch=False):
    ub = bits - kn
    qs = (1.0 if alpha is None else alpha) * 2.0 ** (integer - ub)
    if bits == 1 and kn:
      lo, hi = -0.5 * qs, 0.5 * qs
    else:
      hi = (2 ** ub - 1) * qs
      lo = (-(2 ** ub) + sym) * qs if kn else 0.0

    def make(**o):
      kw = dict(bits=bits, integer=integer, symmetric=sym, keep_negative=kn, alpha=alpha,
                qnoise_factor=float(qf), use_stochastic_rounding=stoch)
      kw.update(o)
      kw.pop("use_ste", None)
      return Q.quantized_linear(**kw)
    return dict(cls="quantized_linear", make=make, one=dict(qnoise_factor=1.0), op="linear",
                cfg=dict(bits=bits, integer=integer, symmetric=sym, keep_negative=kn,
                         alpha=None if alpha is None else core.rj(alpha)),
                extra=lambda xs, y1: dict(qf=core.rj(qf)),
                surrogate=lambda xs, ex: ("linear_clip", (F32(lo), F32(hi), qf)), mix="identity", qf=qf, stoch=stoch,
                key=dict(cls="quantized_linear"),
                label="quantized_linear(%d,%d,%d,keep_negative=%d,alpha=%s,qnoise_factor=%s)"
                % (bits, integer, sym, kn, alpha, qf),
                edges=[lo, hi, 0.5 * qs, 1.5 * qs], span=max(abs(lo), abs(hi)) * 1.5 + qs,
                # 1-bit sign function: `clipped - 0.5` is a float32 rounding at the ulp neighbours of the kinks,
                # which only the stochastic training branch can see (fraction 0 instead of 2^-25)
                exact=(stoch and bits == 1 and bool(kn)))

  def S_relu(bits, integer, slope, iqc, upper, ste, qf, stoch=False, slope_arg=None, use_sigmoid=0):
    nsb = bits - (slope != 0)
    bound = 2.0 ** integer - 2.0 ** (integer - nsb)
    b_eff = bound if iqc else (upper if upper is not None else None)

    def make(**o):
      kw = dict(bits=bits, integer=integer, negative_slope=slope if slope_arg is None else slope_arg,
                relu_upper_bound=upper, is_quantized_clip=iqc, use_ste=ste, qnoise_factor=float(qf),
                use_stochastic_rounding=stoch, use_sigmoid=use_sigmoid)
      kw.update(o)
      return Q.quantized_relu(**kw)
    fac = F(1) if ste else 1 - qf
    return dict(cls="quantized_relu", make=make, one=dict(use_ste=True, qnoise_factor=1.0), op="relu",
                cfg=dict(bits=bits, integer=integer, slope_log=None, slope=core.rj(slope), is_quantized_clip=iqc,
                         upper=None if upper is None else core.rj(upper)),
                extra=lambda xs, y1: dict(use_ste=ste, qf=core.rj(qf), xqs=core.enc_list(y1)),
                surrogate=lambda xs, ex: ("relu", (F(slope), None if b_eff is None else F32(b_eff), fac)),
                mix=(F(slope), None if b_eff is None else F32(b_eff)), qf=qf, stoch=stoch,
                key=dict(cls="quantized_relu", use_ste=ste, qf_is_1=(qf == 1)),
                label="quantized_relu(%d,%d,%snegative_slope=%s,relu_upper_bound=%s,is_quantized_clip=%s,use_ste=%s,"
                "qnoise_factor=%s)" % (bits, integer, "use_sigmoid=1," if use_sigmoid else "", slope, upper, iqc, ste, qf),
                exact=bool(use_sigmoid),
                edges=[0.0, bound, 2.0 ** (integer - nsb) * 0.5] + ([upper] if upper else []),
                span=2.0 ** integer * 1.5)

  def S_po2(bits, mv, ste, qf, stoch=False, **more):
    def make(**o):
      kw = dict(bits=bits, max_value=mv, use_ste=ste, qnoise_factor=float(qf), use_stochastic_rounding=stoch)
      kw.update(more)
      kw.update(o)
      return Q.quantized_po2(**kw)
    return dict(cls="quantized_po2", make=make, one=dict(use_ste=True, qnoise_factor=1.0), op="po2", cfg=dict(),
                extra=lambda xs, y1: dict(use_ste=ste, qf=core.rj(qf), xqs=core.enc_list(y1)),
                surrogate=lambda xs, ex: ("scaled_identity", (F(1) if ste else 1 - qf)), mix="identity", qf=qf, stoch=stoch,
                key=dict(cls="quantized_po2", use_ste=ste, qf_is_1=(qf == 1)),
                label="quantized_po2(%d,%s,use_ste=%s,qnoise_factor=%s%s)" % (
                    bits, mv, ste, qf, "".join(",%s=%s" % kv for kv in more.items())),
                edges=[0.0, 1.0, mv or 4.0], span=4.0, exact=True)

  def S_relu_po2(bits, mv, slope, ste, qf, stoch=False, slope_arg=None, **more):
    def make(**o):
      kw = dict(bits=bits, max_value=mv, negative_slope=slope if slope_arg is None else slope_arg, use_ste=ste,
                qnoise_factor=float(qf), use_stochastic_rounding=stoch)
      kw.update(more)
      kw.update(o)
      return Q.quantized_relu_po2(**kw)
    fac = F(1) if ste else 1 - qf
    return dict(cls="quantized_relu_po2", make=make, one=dict(use_ste=True, qnoise_factor=1.0), op="relu_po2",
                cfg=dict(slope=core.rj(slope), max_value=None if mv is None else core.rj(mv)),
                extra=lambda xs, y1: dict(use_ste=ste, qf=core.rj(qf), xqs=core.enc_list(y1)),
                surrogate=lambda xs, ex: ("relu", (F(slope), None if mv is None else F32(mv), fac)),
                mix=(F(slope), None if mv is None else F32(mv)), qf=qf, stoch=stoch,
                key=dict(cls="quantized_relu_po2", use_ste=ste, qf_is_1=(qf == 1)),
                label="quantized_relu_po2(%d,%s,negative_slope=%s,use_ste=%s,qnoise_factor=%s%s)" % (
                    bits, mv, slope, ste, qf, "".join(",%s=%s" % kv for kv in more.items())),
                edges=[0.0, 1.0, mv or 4.0], span=4.0)

  def S_act(opn, bits, sym, real, stoch=False):
    """quantized_tanh / quantized_sigmoid, surrogate value p and derivative p' as TensorFlow computes them under
    the CURRENT internal-sigmoid mode (oracle inputs); clip bounds of the output for the mask clause"""
    cls = "quantized_" + opn
    m = 2.0 ** (bits - 1) if opn == "tanh" else 2.0 ** bits
    lo = (-1.0 + sym / m) if opn == "tanh" else sym / m
    hi = 1.0 - 1.0 / m

    def make(**o):
      kw = dict(bits=bits, symmetric=sym, use_stochastic_rounding=stoch)
      if real:
        kw["use_real_" + opn] = True
      kw.update({k: v for k, v in o.items() if k in ("use_stochastic_rounding", "bits", "symmetric", "use_real_" + opn)})
      return getattr(Q, cls)(**kw)

    def extra(xs, y1):
      xt = tf.constant(xs)
      with tf.GradientTape() as tape:
        tape.watch(xt)
        if real:
          p = tf.tanh(xt) if opn == "tanh" else tf.sigmoid(xt)
        else:
          p = 2.0 * Q._sigmoid(xt) - 1.0 if opn == "tanh" else Q._sigmoid(xt)
      dp = tape.gradient(p, xt)
      dp = np.zeros_like(xs) if dp is None else np.asarray(dp, dtype=np.float32)
      return dict(ps=core.enc_list(np.asarray(p, dtype=np.float32)), dps=core.enc_list(dp), _dp=dp)
    return dict(cls=cls, make=make, one=None, op=opn + "_real", cfg=dict(bits=bits, symmetric=sym), extra=extra,
                surrogate=lambda xs, ex: ("surrogate_mask", (ex["_dp"], F32(lo), F32(hi))), mix=None, qf=F(1), stoch=stoch,
                key=dict(cls=cls, real=real),
                label="%s(%d,symmetric=%d,%s surrogate as oracle)" % (cls, bits, sym, "real" if real else "internal"),
                edges=[-1.0, 1.0, 0.0, (1 - 1 / m), -(1 - 1 / m), 1 - 0.5 / m, 2 * (1 - 1 / m) - 1, 0.5 / m], span=2.0,
                any_points=True)

  def spec_pts(spec, n=None):
    exact = spec.get("exact", False) or (not spec.get("any_points") and spec["qf"] not in (0, 1))
    xs = pts(spec["edges"], spec["span"], exact_only=exact)
    if n is not None:
      if len(xs) >= n:
        keep = rng.permutation(len(xs))[:n]
        xs = xs[np.sort(keep)]
      else:
        xs = np.concatenate([xs, xs[rng.integers(0, len(xs), size=n - len(xs))]])
    return xs.astype(np.float32)

  def emit(spec, xs, ys, gs, y1, tag, phase=0, U=None, keyx=None, stream=None):
    xs = np.asarray(xs, dtype=np.float32).ravel()
    ys = np.asarray(ys, dtype=np.float32).ravel()
    gs = np.asarray(gs, dtype=np.float32).ravel()
    y1 = None if y1 is None else np.asarray(y1, dtype=np.float32).ravel()
    ex = spec["extra"](xs, y1)
    sur = spec["surrogate"](xs, ex)
    ex = {k: v for k, v in ex.items() if not k.startswith("_")}
    if spec["stoch"]:
      ex.update(stoch=True, phase=bool(phase),
                us=core.enc_list(np.resize(np.zeros(1, np.float32) if U is None else U, len(xs))))
    key = dict(spec["key"])
    if spec["stoch"]:
      key.update(stoch=True, phase=int(bool(phase)))
    key.update(keyx or {})
    add(spec["op"], spec["cfg"], None, xs, ex, label=spec["label"] + tag, surrogate=sur, key=key, pre=(ys, gs),
        mix=None if spec["mix"] is None else (spec["qf"], y1, spec["mix"]))
    if stream:
      run.count("stream_" + stream, len(xs))

  class guard:
    """the real code raising on a legal route (rank, argument form, history, switch) is reported as a clause
    failure `raises` of that case instead of aborting the run"""

    def __init__(self, spec, route):
      self.spec, self.route = spec, route

    def __enter__(self):
      return self

    def __exit__(self, et, ev, tb):
      if et is None or not issubclass(et, Exception) or issubclass(et, core.InfraError):
        return False
      run.violate("raises", dict(self.spec["key"], route=self.route.split(":")[0]),
                  {"config": self.spec["label"], "route": self.route,
                   "exception": "%s: %s" % (et.__name__, str(ev).replace("\n", " ")[:300])}, mirrored=False)
      return True

  def fresh(spec, xs, phase=0, U=None):
    ys, gs = measure(spec["make"](), xs, phase=phase, U=U)
    y1 = None if spec["one"] is None else value_of(spec["make"](**spec["one"]), xs, phase=phase, U=U)
    return ys, gs, y1

  try:
    # ---------------------------------------------------------------------------------------------------
    # stream `stoch`: use_stochastic_rounding=True in BOTH learning phases (module-level switch).  Phase 0 is the
    # eager default: the inference branch of the smart_cond in _round_through; phase 1: the training branch with
    # the random source patched.  quantized_linear / quantized_tanh / quantized_sigmoid route the gradient THROUGH
    # _round_through; for the others the rounding sits under the outer stop_gradient.
    # ---------------------------------------------------------------------------------------------------
    stoch_specs = []
    for qf in (F(1), F(0), F(1, 4)):
      for a in [(4, 0, 1, 1, None), (3, 1, 0, 1, None), (4, 1, 1, 0, 0.5), (1, 0, 1, 1, None)]:
        stoch_specs.append(S_linear(*a, qf, stoch=True))
    for ste in (True, False):
      for qf in (F(1), F(1, 4)):
        for a in [(4, 0, 0, 1, None), (5, 2, 0, 0, None), (4, 0, 0, 1, 0.5)]:
          stoch_specs.append(S_bits(*a, ste, qf, stoch=True))
        for a in [(4, 1, 0.0, True, None), (4, 1, 0.25, True, None), (4, 2, 2.0, False, 3.0)]:
          stoch_specs.append(S_relu(*a, ste, qf, stoch=True))
        stoch_specs.append(S_po2(4, 2.0, ste, qf, stoch=True))
        stoch_specs.append(S_relu_po2(4, 2.0, 0.25, ste, qf, stoch=True))
        stoch_specs.append(S_relu_po2(4, None, 2.0, ste, qf, stoch=True))
        # option combinations that are individually legal but rarely met together
        stoch_specs.append(S_po2(4, None, ste, qf, stoch=True, log2_rounding="floor"))
        stoch_specs.append(S_relu_po2(4, 2.0, 4.0, ste, qf, stoch=True, log2_rounding="floor", quadratic_approximation=True))
        stoch_specs.append(S_relu(4, 1, 2.0, True, None, ste, qf, stoch=True, use_sigmoid=1))
    for bits, sym in [(4, 0), (3, 1)]:
      for opn in ("tanh", "sigmoid"):
        for real in (False, True):
          stoch_specs.append(S_act(opn, bits, sym, real, stoch=True))
    for phase in (0, 1):
      for spec in stoch_specs:
        with guard(spec, "learning_phase=%d" % phase):
          xs = spec_pts(spec)
          U = draws(len(xs))
          ys, gs, y1 = fresh(spec, xs, phase=phase, U=U)
          emit(spec, xs, ys, gs, y1, " [use_stochastic_rounding=True, learning_phase=%d]" % phase, phase=phase, U=U,
               stream="stoch_phase%d" % phase)
      # exact hard-surrogate model (short dyadic points only), stochastic flag
      for bits, sym in [(4, 0), (3, 1)]:
        for cls, opn in (("quantized_tanh", "tanh"), ("quantized_sigmoid", "sigmoid")):
          m = 2.0 ** (bits - 1) if opn == "tanh" else 2.0 ** bits
          edges = [-1.0, 1.0, 0.0, (1 - 1 / m), -(1 - 1 / m), 1 - 0.5 / m, 2 * (1 - 1 / m) - 1, 0.5 / m]
          xs = pts(edges, 2.0, exact_only=True)
          U = draws(len(xs))
          ys, gs = measure(getattr(Q, cls)(bits, symmetric=sym, use_stochastic_rounding=True), xs, phase=phase, U=U)
          add(opn + "_hard", dict(bits=bits, symmetric=sym), None, xs,
              dict(stoch=True, phase=bool(phase), us=core.enc_list(U)),
              label="%s(%d,symmetric=%d) [use_stochastic_rounding=True, learning_phase=%d]" % (cls, bits, sym, phase),
              surrogate=("hard_" + opn, (bits, sym)), key=dict(cls=cls, real=False, stoch=True, phase=phase),
              pre=(ys, gs))
      # quantized_linear with a data-dependent scale and stochastic rounding
      for alpha in ("auto", "auto_po2"):
        for bits, sym, kn in [(4, 1, 1), (4, 0, 1), (3, 0, 0)]:
          ub = bits - kn
          cmax = F(2 ** ub - 1)
          cmin = F(-(2 ** ub) + sym) if kn else F(0)
          top = float((cmax - cmin) / 2) if kn else float(cmax)
          ks = [int(k) for k in rng.integers(-3, 4, size=3)]
          x2 = crafted(3, 12, top, ks, signed_max=not kn)
          w = po2w(x2.shape)
          U = draws(x2.size)
          for qf in (F(1), F(1, 4)):
            q = Q.quantized_linear(bits, 0, sym, keep_negative=kn, alpha=alpha, qnoise_factor=float(qf),
                                   use_stochastic_rounding=True)
            ys, gs = measure(q, x2, w, phase=phase, U=U)
            qs = np.broadcast_to(np.asarray(q.quantization_scale, dtype=np.float32), x2.shape)
            y1 = value_of(Q.quantized_linear(bits, 0, sym, keep_negative=kn, alpha=alpha, use_stochastic_rounding=True),
                          x2, phase=phase, U=U)
            add("linear_s", dict(bits=bits, integer=0, symmetric=bool(sym), keep_negative=bool(kn)), None, x2.ravel(),
                dict(qf=core.rj(qf), qss=core.enc_list(qs.ravel()), stoch=True, phase=bool(phase),
                     us=core.enc_list(U)),
                label="quantized_linear(%d,0,%d,keep_negative=%d,alpha=%s,qnoise_factor=%s) on a 12x3 tensor "
                "[use_stochastic_rounding=True, learning_phase=%d]" % (bits, sym, kn, alpha, qf, phase),
                surrogate=("linear_clip_s", (cmin, cmax, qf, qs.ravel())),
                key=dict(cls="quantized_linear", alpha=alpha, stoch=True, phase=phase),
                pre=(ys.ravel(), gs.ravel()), mix=(qf, y1.ravel(), "identity"))
      # ternary (data-dependent scale is mandatory with the flag) and the stochastic_* classes: gradient clause
      # through the `binter` transcription (the emitted tensor is the oracle value)
      for cls, kw, sur_none in [("ternary", dict(alpha="auto", use_stochastic_rounding=True), False),
                                ("ternary", dict(alpha="auto_po2", use_stochastic_rounding=True), False),
                                ("stochastic_ternary", dict(alpha="auto"), False),
                                ("stochastic_ternary", dict(alpha="auto_po2"), False),
                                ("stochastic_binary", dict(alpha=1.0), False),
                                ("stochastic_binary", dict(alpha="auto"), False),
                                ("stochastic_binary", dict(alpha="auto_po2"), False),
                                ("stochastic_binary", dict(), True),
                                ("bernoulli", dict(), False), ("bernoulli", dict(alpha=0.5), False),
                                ("bernoulli", dict(alpha="auto"), False), ("bernoulli", dict(alpha="auto_po2"), False)]:
        for shape in ((16,), (8, 3)):
          x2 = short_dyadics(rng, int(np.prod(shape)), -2, 2).reshape(shape)
          x2 = np.where(x2 == 0, np.float32(0.5), x2).astype(np.float32)
          w = po2w(shape)
          U = draws(x2.size)
          q = getattr(Q, cls)(**kw)
          ys, gs = measure(q, x2, w, phase=phase, U=U)
          xt = tf.constant(x2.ravel())
          with tf.GradientTape() as tape:
            tape.watch(xt)
            th = tf.tanh(xt)
          dth = np.asarray(tape.gradient(th, xt), dtype=np.float32)
          # stochastic_binary(alpha=None): tanh surrogate at inference (binary.__call__), identity when sampling
          an = sur_none and phase == 0
          add("binter", dict(alpha_none=an), None, x2.ravel(),
              dict(xqs=core.enc_list(ys.ravel()), ths=core.enc_list(np.asarray(th)), dths=core.enc_list(dth)),
              label="%s(%s) on a %s tensor [learning_phase=%d]" % (
                  cls, ",".join("%s=%s" % kv for kv in kw.items()), "x".join(map(str, shape)), phase),
              surrogate=(("tanh", dth) if an else ("scaled_identity", F(1))),
              key=dict(cls=cls, alpha=str(kw.get("alpha")), phase=phase), pre=(ys.ravel(), gs.ravel()))
      # binary(use_stochastic_rounding=True): in the training phase the carrier is f * round_through(x / f) with
      # f = stop_gradient(2 * min(max|x|, 1)) — one line per scale group (channel of the last axis; the whole
      # tensor for rank 1); the extreme elements are +-2^k so that every float32 operation is exact (k <= 0: 2*m
      # depends on the input; k = 1: clamped to 1).  Every second group has its maximum attained TWICE (TF would
      # split a max-gradient among ties), rank 3 included.  The gradient of EVERY element, the arg-max included,
      # must be exactly 1 (tanh' of the carrier for alpha=None): a normaliser that carries a gradient is a violation.
      # ALL-ZERO groups (a zeros-initialised bias, a dead channel): 2*m = 0, the code falls back to f = 1 (c0623bb) —
      # value and gradient must be finite, the gradient 1.
      for alpha in (None, 1.0, 0.5, "auto", "auto_po2"):
        for shape_kind in ("rank1", "rank1_zero", "rank2", "rank3"):
          ncol = {"rank1": 1, "rank1_zero": 1, "rank2": 4, "rank3": 2}[shape_kind]
          nel = 12 if shape_kind == "rank3" else 10
          kexp = [int(k) for k in rng.permutation([-2, -1, 0, 1])[:ncol]]
          if shape_kind == "rank1" and phase == 1 and alpha in (1.0, None):
            kexp = [-1]
          if shape_kind == "rank2":
            kexp[int(rng.integers(0, 4))] = None
          if shape_kind == "rank1_zero":
            kexp = [None]
          cols = []
          for ci, k in enumerate(kexp):
            if k is None:
              cols.append(np.zeros(nel))
              continue
            mval = 2.0 ** k
            fval = 2.0 * min(mval, 1.0)
            c = rng.integers(-63, 64, size=nel) * (fval / 64.0)
            c = np.clip(c, -mval * 63 / 64, mval * 63 / 64)
            c[1] = 0.0
            c[0] = mval if rng.integers(0, 2) else -mval
            if ci % 2 == 1 or (shape_kind == "rank1" and alpha in (0.5, "auto")):
              c[3] = mval if rng.integers(0, 2) else -mval      # the maximum is attained twice
              run.count("binary_sr_group_with_tied_maximum")
            cols.append(c)
          x2 = np.stack(cols, axis=1).astype(np.float32)
          if shape_kind in ("rank1", "rank1_zero"):
            x2 = x2[:, 0]
          elif shape_kind == "rank3":
            x2 = x2.reshape(3, 4, ncol)
          w = po2w(x2.shape)
          U = draws(x2.size).reshape(x2.shape)
          q = Q.binary(alpha=alpha, use_stochastic_rounding=True)
          ys, gs = measure(q, x2, w, phase=phase, U=U.ravel())
          X = x2.reshape(-1, ncol)
          Y, G, W, UU = (np.asarray(a).reshape(-1, ncol) for a in (ys, gs, w, U))
          for j in range(ncol):
            xc, uc = X[:, j].astype(np.float64), UU[:, j].astype(np.float64)
            mval = float(np.max(np.abs(xc)))
            fval = 2.0 * min(mval, 1.0)
            if phase:
              sx = xc / (fval if fval > 0 else 1.0) * 8.0
              fl = np.floor(sx)
              xr = (np.where(sx - fl < uc, fl, np.ceil(sx)) / 8.0 * fval).astype(np.float32)
            else:
              xr = xc.astype(np.float32)
            # oracle inputs: tanh and tanh' at the CARRIER (the rounded tensor in training — recorded finding
            # C06-binary-sr-train-tanh-at-rounded) for the model; tanh' at the input itself for the clause
            xt = tf.constant(xr)
            with tf.GradientTape() as tape:
              tape.watch(xt)
              th = tf.tanh(xt)
            dth = np.asarray(tape.gradient(th, xt), dtype=np.float32)
            xt0 = tf.constant(X[:, j])
            with tf.GradientTape() as tape:
              tape.watch(xt0)
              th0 = tf.tanh(xt0)
            dth0 = np.asarray(tape.gradient(th0, xt0), dtype=np.float32)
            add("binary_sr", dict(alpha_none=alpha is None), None, X[:, j],
                dict(phase=bool(phase), xqs=core.enc_list(np.nan_to_num(Y[:, j], nan=0.0, posinf=0.0, neginf=0.0)),
                     ths=core.enc_list(np.asarray(th)),
                     dths=core.enc_list(dth), us=core.enc_list(UU[:, j]), ws=core.enc_list(W[:, j]), f=core.rj(fval),
                     imax=(int(np.argmax(np.abs(xc))) if mval <= 1.0 else None)),
                label="binary(alpha=%s,use_stochastic_rounding=True) on a %s tensor, channel %d [learning_phase=%d]"
                % (alpha, "x".join(map(str, x2.shape)), j, phase),
                surrogate=(("tanh", dth0) if alpha is None else ("scaled_identity", F(1))),
                key=dict(cls="binary", alpha_none=alpha is None, stoch=True, phase=phase),
                pre=(Y[:, j], G[:, j]))
            run.count("binary_sr_phase%d_2m_%s" % (phase, "zero_group" if mval == 0 else
                                                   "depends_on_input" if mval <= 1.0 else "clamped"), len(xc))

    # ---------------------------------------------------------------------------------------------------
    # stream `slopes`: every legal negative_slope (0, 2^-k, 1, 2, 4 — the constructors only require a power of
    # two) x max_value / bounds x use_ste x qnoise_factor in {1, 0, 1/2}; slope also given as python int / numpy
    # ---------------------------------------------------------------------------------------------------
    slope_specs = []
    for slope in (0.0, 0.125, 0.5, 1.0, 2.0, 4.0):
      for mv in (None, 2.0, 0.5):
        for ste in (True, False):
          for qf in (F(1), F(0), HALF):
            if tier == "quick" and mv == 0.5 and qf == 0:
              continue
            slope_specs.append(S_relu_po2(4, mv, slope, ste, qf))
    for slope in (1.0, 2.0, 4.0, 0.5):
      for bits, integer, iqc, upper in [(4, 1, True, None), (4, 1, False, 1.5), (5, 2, False, None), (4, 2, False, 0.0)]:
        for ste in (True, False):
          for qf in (F(1), F(0), HALF):
            if tier == "quick" and qf == 0 and not ste:
              continue
            slope_specs.append(S_relu(bits, integer, slope, iqc, upper, ste, qf))
    for ste in (True, False):
      for qf in (F(1), HALF):
        slope_specs.append(S_relu(4, 1, 4.0, False, 1.5, ste, qf, use_sigmoid=1))
        slope_specs.append(S_relu(4, 0, 0.0, True, None, ste, qf, use_sigmoid=1))
        slope_specs.append(S_relu_po2(4, None, 2.0, ste, qf, quadratic_approximation=True))
        slope_specs.append(S_relu_po2(4, 0.5, 4.0, ste, qf, log2_rounding="floor"))
        slope_specs.append(S_po2(4, 2.0, ste, qf, quadratic_approximation=True, log2_rounding="floor"))
    for form, conv in (("int", int), ("np.float32", np.float32), ("np.float64", np.float64)):
      for slope in (1.0, 2.0, 4.0):
        slope_specs.append(dict(S_relu_po2(4, 2.0, slope, True, HALF, slope_arg=conv(slope)), tag=" [negative_slope as %s]" % form))
        slope_specs.append(dict(S_relu_po2(4, None, slope, False, HALF, slope_arg=conv(slope)), tag=" [negative_slope as %s]" % form))
        slope_specs.append(dict(S_relu(4, 2, slope, False, None, True, HALF, slope_arg=conv(slope)), tag=" [negative_slope as %s]" % form))
        slope_specs.append(dict(S_relu(4, 1, slope, True, None, False, HALF, slope_arg=conv(slope)), tag=" [negative_slope as %s]" % form))
    for spec in slope_specs:
      with guard(spec, "slopes"):
        xs = spec_pts(spec)
        ys, gs, y1 = fresh(spec, xs)
        emit(spec, xs, ys, gs, y1, spec.get("tag", ""), stream="slopes")
        run.count("slopes_" + spec["cls"], len(xs))

    # ---------------------------------------------------------------------------------------------------
    # base specifications shared by the history / rank / argument-form / process-state streams
    # ---------------------------------------------------------------------------------------------------
    def base_specs(qf, ste):
      return [S_bits(4, 1, 0, 1, None, ste, qf), S_bits(5, 2, 1, 1, 0.5, ste, qf),
              S_linear(4, 1, 1, 1, None, qf), S_linear(3, 0, 0, 0, 0.5, qf),
              S_relu(4, 1, 0.25, True, None, ste, qf), S_relu(4, 2, 2.0, False, 3.0, ste, qf),
              S_po2(4, 2.0, ste, qf), S_relu_po2(4, 2.0, 4.0, ste, qf), S_relu_po2(4, None, 0.25, ste, qf)]

    # ---- stream `history`: ONE object used several times — called on a tensor of another rank first, its
    # qnoise_factor changed through the update API (plain attribute / tf.Variable built by use_variables / a
    # tf.Variable argument) or by assignment, use_ste flipped, then called on the test tensor: the k-th use must
    # be the (value, gradient) of a freshly built quantizer in the final configuration.
    hist = 0
    for qf, ste in ((HALF, True), (F(1), True), (F(1, 4), False), (F(0), True)):
      for spec in base_specs(qf, ste):
        with guard(spec, "history"):
          qf0 = F(1) if qf != 1 else F(1, 4)
          xs = spec_pts(spec, 24)
          warm = short_dyadics(rng, 12, -2, 2).reshape(2, 3, 2)
          variants = ["update", "update_variable", "update_tfvar_arg", "assign", "twice"]
          if "use_ste" in spec["one"]:
            variants.append("flip_use_ste")
          variant = variants[hist % len(variants)]
          hist += 1
          if variant == "update_variable":
            q = spec["make"](qnoise_factor=float(qf0), use_variables=True)
          elif variant == "flip_use_ste":
            q = spec["make"](use_ste=not ste)
          elif variant == "twice":
            q = spec["make"]()
          else:
            q = spec["make"](qnoise_factor=float(qf0))
          grad_of(q, warm)                                     # first use: another rank, under a tape
          if variant in ("update", "update_variable"):
            q.update_qnoise_factor(float(qf))
          elif variant == "update_tfvar_arg":
            q.update_qnoise_factor(tf.Variable(float(qf), dtype=tf.float32))
          elif variant == "assign":
            q.qnoise_factor = float(qf)
          elif variant == "flip_use_ste":
            q.use_ste = ste
          else:
            grad_of(q, xs[:5])
          ys, gs = measure(q, xs)
          y1 = value_of(spec["make"](**spec["one"]), xs)
          emit(spec, xs, ys, gs, y1, " [history: %s, used before on a 2x3x2 tensor]" % variant, stream="history")
          # fresh twin: identical outputs
          ys2, gs2 = measure(spec["make"](), xs)
          if not (np.array_equal(ys, ys2) and np.array_equal(gs, gs2)):
            i = int(np.argmax((ys != ys2) | (gs != gs2)))
            run.violate("history_twin", dict(spec["key"], variant=variant),
                        {"config": spec["label"], "history": variant, "x": float(xs[i]),
                         "value_grad_after_history": [float(ys[i]), float(gs[i])],
                         "value_grad_fresh_twin": [float(ys2[i]), float(gs2[i])]}, mirrored=False)
          run.count("history_" + variant)
    # auto-scaled objects: first call on another tensor (another scale), then the crafted one
    for alpha in ("auto", "auto_po2"):
      for cls in ("quantized_bits", "quantized_linear"):
        for qf in (F(1), F(1, 4)):
          bits, integer = 4, (2 if cls == "quantized_bits" else 0)
          L = 2 ** (bits - 1) - 1
          ks = [int(k) for k in rng.integers(-3, 4, size=3)]
          x2 = crafted(3, 12, L, ks)
          w = po2w(x2.shape)
          q = getattr(Q, cls)(bits, integer, 1, alpha=alpha, qnoise_factor=1.0)
          grad_of(q, (x2[:4] * 8).astype(np.float32))
          grad_of(q, short_dyadics(rng, 24, -1, 1).reshape(2, 2, 2, 3))
          q.update_qnoise_factor(float(qf))
          ys, gs = measure(q, x2, w)
          q1 = getattr(Q, cls)(bits, integer, 1, alpha=alpha)
          y1 = value_of(q1, x2)
          tagh = " on a 12x3 tensor [history: used on 4x3 and 2x2x2x3 tensors, then update_qnoise_factor]"
          if cls == "quantized_bits":
            S = np.broadcast_to(np.asarray(q.scale, dtype=np.float32), x2.shape)
            add("bits_auto", dict(bits=bits, integer=integer, keep_negative=True), None, x2.ravel(),
                dict(use_ste=True, qf=core.rj(qf), ss=core.enc_list(S.ravel())),
                label="quantized_bits(%d,%d,1,alpha=%s,qnoise_factor=%s)%s" % (bits, integer, alpha, qf, tagh),
                surrogate=("scaled_identity", F(1)), key=dict(cls=cls, alpha=alpha, use_ste=True, qf_is_1=(qf == 1)),
                pre=(ys.ravel(), gs.ravel()), mix=(qf, y1.ravel(), "identity"))
          else:
            qs = np.broadcast_to(np.asarray(q.quantization_scale, dtype=np.float32), x2.shape)
            add("linear_s", dict(bits=bits, integer=integer, symmetric=True, keep_negative=True), None, x2.ravel(),
                dict(qf=core.rj(qf), qss=core.enc_list(qs.ravel())),
                label="quantized_linear(%d,%d,1,alpha=%s,qnoise_factor=%s)%s" % (bits, integer, alpha, qf, tagh),
                surrogate=("linear_clip_s", (F(-L), F(L), qf, qs.ravel())), key=dict(cls=cls, alpha=alpha),
                pre=(ys.ravel(), gs.ravel()), mix=(qf, y1.ravel(), "identity"))
          run.count("history_auto")

    # ---------------------------------------------------------------------------------------------------
    # stream `alpha_history` (seed C06-7): the surrogate is a function of the CURRENT alpha.  ONE binary /
    # ternary / stochastic_binary / stochastic_ternary object goes through a history that CHANGES alpha —
    # `_set_trainable_parameter()` (None -> 'auto_po2'), plain assignments in both directions, earlier calls on
    # other tensors, being handed to a real layer (QDense / QConv1D / QConv2D / QDepthwiseConv2D /
    # QSeparableConv2D call the hook in __init__; the quantizer is then `layer.<kernel>_quantizer_internal`),
    # shared by two layers, given as a string, deep-copied / rebuilt from its config afterwards — and is then
    # called under a tape.  (value, gradient) must be (a) the Lean object model's `HObj.run … btCall` for the
    # same history (driver op `binter_hist`), (b) the surrogate' of the alpha NOW in force (tanh' iff None,
    # else exactly 1) and (c) bit-identical to a FRESH twin constructed with the attributes now in force.
    # ---------------------------------------------------------------------------------------------------
    import copy
    import qkeras as QK

    def tanh_oracle(xflat):
      xt = tf.constant(np.asarray(xflat, dtype=np.float32))
      with tf.GradientTape() as tape:
        tape.watch(xt)
        th = tf.tanh(xt)
      return np.asarray(th, dtype=np.float32), np.asarray(tape.gradient(th, xt), dtype=np.float32)

    def alpha_js(a):
      return None if a is None else (a if isinstance(a, str) else core.rj(float(a)))

    def replay_alpha(a0, steps):
      a, ops = a0, []
      for st in steps:
        if st[0] in ("trainable", "layer"):
          a = "auto_po2" if a is None else a
          ops.append("trainable")
        elif st[0] == "set":
          a = st[1]
          ops.append({"alpha": alpha_js(a)})
        elif st[0] == "call":
          ops.append("call")
      return a, ops

    LAYERS = {
        "QDense": (lambda kq: QK.QDense(4, kernel_quantizer=kq), (None, 6), ["kernel_quantizer_internal"]),
        "QConv1D": (lambda kq: QK.QConv1D(3, 2, kernel_quantizer=kq), (None, 5, 3), ["kernel_quantizer_internal"]),
        "QConv2D": (lambda kq: QK.QConv2D(4, (2, 2), kernel_quantizer=kq), (None, 5, 5, 3), ["kernel_quantizer_internal"]),
        "QDepthwiseConv2D": (lambda kq: QK.QDepthwiseConv2D((2, 2), depthwise_quantizer=kq), (None, 5, 5, 3),
                             ["depthwise_quantizer_internal"]),
        "QSeparableConv2D": (lambda kq: QK.QSeparableConv2D(3, (2, 2), depthwise_quantizer=kq, pointwise_quantizer=kq),
                             (None, 5, 5, 3), ["depthwise_quantizer_internal", "pointwise_quantizer_internal"]),
    }
    bt_classes = [("binary", {}), ("ternary", {}), ("stochastic_binary", {}), ("stochastic_ternary", {}),
                  ("binary", dict(use_01=True)), ("ternary", dict(number_of_unrolls=2)),
                  ("binary", dict(use_stochastic_rounding=True))]
    # (name, alpha at construction, steps, how the object reaches the tape)
    bt_histories = [
        ("set_trainable", None, [("trainable",)], "same"),
        ("call_then_set_trainable", None, [("call",), ("trainable",)], "same"),
        ("set_trainable_twice", None, [("trainable",), ("call",), ("trainable",)], "same"),
        ("const_then_assign_None", 0.5, [("set", None)], "same"),
        ("auto_call_then_assign_None", "auto", [("call",), ("set", None)], "same"),
        ("None_assign_auto_assign_None_call_set_trainable", None, [("set", "auto"), ("set", None), ("call",), ("trainable",)], "same"),
        ("auto_po2_then_assign_const", "auto_po2", [("call",), ("set", 2.0)], "same"),
        ("None_assign_const_then_set_trainable", None, [("set", 1.0), ("trainable",)], "same"),
        ("const_set_trainable", 0.5, [("trainable",), ("call",)], "same"),
        ("set_trainable_then_assign_None", None, [("trainable",), ("call",), ("set", None)], "same"),
        ("None_assign_auto", None, [("call",), ("set", "auto")], "same"),
        ("set_trainable_then_deepcopy", None, [("trainable",)], "deepcopy"),
        ("assign_None_then_deepcopy", 1.0, [("call",), ("set", None)], "deepcopy"),
        ("set_trainable_then_from_config", None, [("call",), ("trainable",)], "from_config"),
        ("layer:QDense", None, [("layer", "QDense")], "same"),
        ("used_then_layer:QConv2D", None, [("call",), ("layer", "QConv2D")], "same"),
        ("layer:QConv1D", None, [("layer", "QConv1D")], "same"),
        ("layer:QDepthwiseConv2D", None, [("layer", "QDepthwiseConv2D")], "same"),
        ("layer:QSeparableConv2D", None, [("layer", "QSeparableConv2D")], "same"),
        ("shared_by_two_layers", None, [("layer", "QDense"), ("call",), ("layer", "QConv2D")], "same"),
        ("layer_then_assign_None", None, [("layer", "QDense"), ("set", None)], "same"),
        ("const_layer", 0.5, [("layer", "QDense")], "same"),
        ("string_to_layer:QDense", None, [("layer", "QDense")], "string"),
        ("string_to_layer:QConv2D", None, [("layer", "QConv2D")], "string"),
    ]
    for ci_, (cls, ckw) in enumerate(bt_classes):
      for hi_, (hname, a0, steps, route) in enumerate(bt_histories):
        if tier == "quick" and ckw and hi_ % 3 != ci_ % 3:
          continue                                   # option variants of a class: a third of the histories each
        kw0 = dict(ckw, alpha=a0)
        label = "%s(%s) [history %s%s]" % (cls, ",".join("%s=%s" % kv for kv in kw0.items()), hname,
                                           "" if route == "same" else ", then " + route)
        key = dict(cls=cls, stream="alpha_history", variant=hname.split(":")[0])
        spec_ = dict(key=key, label=label)
        with guard(spec_, "alpha_history"):
          now, ops = replay_alpha(a0, steps)
          strq = None
          if route == "string":
            strq = "%s(%s)" % (cls, ",".join("%s=%r" % kv for kv in ckw.items()))
            q = None
          else:
            q = getattr(Q, cls)(**kw0)
          for st in steps:
            if st[0] == "trainable":
              q._set_trainable_parameter()
            elif st[0] == "set":
              q.alpha = st[1]
            elif st[0] == "call":
              grad_of(q, short_dyadics(rng, 12, -2, 2).reshape(2, 3, 2) + np.float32(0.0078125))
            elif st[0] == "layer":
              mk, ishape, names = LAYERS[st[1]]
              lay = mk(strq if route == "string" else q)
              lay.build(ishape)
              qi = getattr(lay, names[-1])
              if route == "string":
                q = qi
              elif qi is not q:
                run.count("alpha_history_layer_holds_another_object")
                q = qi
          if route == "deepcopy":
            q = copy.deepcopy(q)
          elif route == "from_config":
            q = getattr(Q, cls).from_config(q.get_config())
          x2 = short_dyadics(rng, 24, -2, 2).reshape(8, 3) * np.array([1.0, 0.25, 4.0], dtype=np.float32)
          x2 = np.where(x2 == 0, np.float32(0.5), x2).astype(np.float32)
          x2[0, 0], x2[1, 1], x2[2, 2] = 2.5, -3.0, 6.0          # tanh' far from 1: ~0.027, ~0.0099, ~2e-5
          w = po2w(x2.shape)
          ys, gs = measure(q, x2, w)
          th, dth = tanh_oracle(x2.ravel())
          add("binter_hist", dict(alpha0=alpha_js(a0)), None, x2.ravel(),
              dict(hist=ops, xqs=core.enc_list(ys.ravel()), ths=core.enc_list(th), dths=core.enc_list(dth)),
              label=label, surrogate=(("tanh", dth) if now is None else ("scaled_identity", F(1))), key=key,
              pre=(ys.ravel(), gs.ravel()))
          ys2, gs2 = measure(getattr(Q, cls)(**dict(ckw, alpha=now)), x2, w)
          if not (np.array_equal(ys, ys2) and np.array_equal(gs, gs2)):
            i = int(np.argmax(((ys != ys2) | (gs != gs2)).ravel()))
            run.violate("history_twin", key,
                        {"config": label, "alpha_now": str(now), "x": float(x2.ravel()[i]),
                         "value_grad_after_history": [float(ys.ravel()[i]), float(gs.ravel()[i])],
                         "value_grad_fresh_twin": [float(ys2.ravel()[i]), float(gs2.ravel()[i])]}, mirrored=False)
          if getattr(q, "alpha", None) != now and not (isinstance(now, float) and float(q.alpha) == now):
            run.violate("history_attr", key, {"config": label, "alpha_expected": str(now), "alpha_of_object": str(q.alpha)},
                        mirrored=False)
          run.count("alpha_history_now_%s" % ("None" if now is None else now if isinstance(now, str) else "const"), x2.size)
          run.count("stream_alpha_history", x2.size)
    # the sampling routes (learning phase 1) of stochastic_binary / stochastic_ternary / bernoulli after the hook, and
    # bernoulli in both phases: identity surrogate; twin under the same fixed draws
    for cls in ("stochastic_binary", "stochastic_ternary", "bernoulli"):
      for hname, steps in (("set_trainable", [("trainable",)]), ("call_then_set_trainable", [("call",), ("trainable",)]),
                           ("layer:QDense", [("layer", "QDense")])):
        for phase in ((0, 1) if cls == "bernoulli" else (1,)):
          label = "%s() [history %s, learning_phase=%d]" % (cls, hname, phase)
          key = dict(cls=cls, stream="alpha_history", variant=hname.split(":")[0], phase=phase)
          with guard(dict(key=key, label=label), "alpha_history"):
            q = getattr(Q, cls)()
            x2 = short_dyadics(rng, 24, -2, 2).reshape(8, 3) * np.array([1.0, 0.25, 4.0], dtype=np.float32)
            x2 = np.where(x2 == 0, np.float32(0.5), x2).astype(np.float32)
            x2[0, 0], x2[1, 1] = 2.5, -3.0
            w = po2w(x2.shape)
            U = draws(x2.size)
            for st in steps:
              if st[0] == "trainable":
                q._set_trainable_parameter()
              elif st[0] == "call":
                measure(q, x2[:4], phase=0, U=U)
              else:
                lay = LAYERS[st[1]][0](q)
                lay.build(LAYERS[st[1]][1])
                q = lay.kernel_quantizer_internal
            ys, gs = measure(q, x2, w, phase=phase, U=U)
            th, dth = tanh_oracle(x2.ravel())
            add("binter_hist", dict(alpha0=None), None, x2.ravel(),
                dict(hist=["trainable"], xqs=core.enc_list(ys.ravel()), ths=core.enc_list(th), dths=core.enc_list(dth)),
                label=label, surrogate=("scaled_identity", F(1)), key=key, pre=(ys.ravel(), gs.ravel()))
            ys2, gs2 = measure(getattr(Q, cls)(alpha="auto_po2"), x2, w, phase=phase, U=U)
            if not (np.array_equal(ys, ys2) and np.array_equal(gs, gs2)):
              i = int(np.argmax(((ys != ys2) | (gs != gs2)).ravel()))
              run.violate("history_twin", key,
                          {"config": label, "alpha_now": "auto_po2", "x": float(x2.ravel()[i]),
                           "value_grad_after_history": [float(ys.ravel()[i]), float(gs.ravel()[i])],
                           "value_grad_fresh_twin": [float(ys2.ravel()[i]), float(gs2.ravel()[i])]}, mirrored=False)
            run.count("stream_alpha_history_sampling", x2.size)
    # quantized_bits / quantized_linear: alpha None -> `_set_trainable_parameter()` (also through a layer) -> the
    # auto_po2 branch (symmetric forced); tied to the auto-scaled transcriptions, judged by the identity / clip
    # clauses and compared with a fresh alpha='auto_po2' twin
    for cls in ("quantized_bits", "quantized_linear"):
      for hname in ("set_trainable", "call_then_set_trainable", "layer:QDense", "layer:QConv2D"):
        for qf in (F(1), F(1, 4)):
          bits, integer = 4, (2 if cls == "quantized_bits" else 0)
          L = 2 ** (bits - 1) - 1
          label = "%s(%d,%d,alpha=None,qnoise_factor=%s) on a 12x3 tensor [history %s]" % (cls, bits, integer, qf, hname)
          key = dict(cls=cls, alpha="auto_po2", stream="alpha_history", variant=hname.split(":")[0])
          with guard(dict(key=key, label=label), "alpha_history"):
            ks = [int(k) for k in rng.integers(-3, 4, size=3)]
            x2 = crafted(3, 12, L, ks)
            w = po2w(x2.shape)
            q = getattr(Q, cls)(bits, integer, qnoise_factor=float(qf))
            if hname.startswith("call"):
              grad_of(q, (x2[:4] * 8).astype(np.float32))
            if hname.startswith("layer"):
              lay = LAYERS[hname.split(":")[1]][0](q)
              lay.build(LAYERS[hname.split(":")[1]][1])
              q = lay.kernel_quantizer_internal
            else:
              q._set_trainable_parameter()
            ys, gs = measure(q, x2, w)
            tw = getattr(Q, cls)(bits, integer, 1, alpha="auto_po2", qnoise_factor=float(qf))
            ys2, gs2 = measure(tw, x2, w)
            y1 = value_of(getattr(Q, cls)(bits, integer, 1, alpha="auto_po2"), x2)
            if cls == "quantized_bits":
              S = np.broadcast_to(np.asarray(q.scale, dtype=np.float32), x2.shape)
              add("bits_auto", dict(bits=bits, integer=integer, keep_negative=True), None, x2.ravel(),
                  dict(use_ste=True, qf=core.rj(qf), ss=core.enc_list(S.ravel())), label=label,
                  surrogate=("scaled_identity", F(1)), key=dict(key, use_ste=True, qf_is_1=(qf == 1)),
                  pre=(ys.ravel(), gs.ravel()), mix=(qf, y1.ravel(), "identity"))
            else:
              qs = np.broadcast_to(np.asarray(q.quantization_scale, dtype=np.float32), x2.shape)
              add("linear_s", dict(bits=bits, integer=integer, symmetric=True, keep_negative=True), None, x2.ravel(),
                  dict(qf=core.rj(qf), qss=core.enc_list(qs.ravel())), label=label,
                  surrogate=("linear_clip_s", (F(-L), F(L), qf, qs.ravel())), key=key,
                  pre=(ys.ravel(), gs.ravel()), mix=(qf, y1.ravel(), "identity"))
            if not (np.array_equal(ys, ys2) and np.array_equal(gs, gs2)):
              i = int(np.argmax(((ys != ys2) | (gs != gs2)).ravel()))
              run.violate("history_twin", key,
                          {"config": label, "alpha_now": "auto_po2", "x": float(x2.ravel()[i]),
                           "value_grad_after_history": [float(ys.ravel()[i]), float(gs.ravel()[i])],
                           "value_grad_fresh_twin": [float(ys2.ravel()[i]), float(gs2.ravel()[i])]}, mirrored=False)
            run.count("stream_alpha_history_fixed_point", x2.size)

    # ---- stream `attr_history`: the same for EVERY option a `__call__` of the C06 model reads from `self` to choose the
    # surrogate / the clip mask / the mixing form: the object is constructed with ANOTHER value of the option, used
    # once, the attribute is assigned, and the next call must be the (value, gradient) of the final configuration
    # (model tie + clauses of that configuration) and bit-identical to a fresh twin.  An option captured at
    # construction (hoisted from `__call__` into `__init__`) fails here whichever option it is.
    attr_cases = []
    for ste, qf in ((True, F(1)), (False, HALF)):
      attr_cases += [
          (S_relu(4, 1, 2.0, True, None, ste, qf), dict(negative_slope=0.25), "negative_slope"),
          (S_relu(4, 1, 0.0, True, None, ste, qf), dict(negative_slope=0.25), "negative_slope"),
          # … in each of the three x_u branches (quantized clip | relu_upper_bound | unbounded)
          (S_relu(4, 1, 2.0, False, None, ste, qf), dict(negative_slope=0.25), "negative_slope"),
          (S_relu(4, 1, 0.0, False, None, ste, qf), dict(negative_slope=0.5), "negative_slope"),
          (S_relu(4, 1, 4.0, False, 1.5, ste, qf), dict(negative_slope=0.25), "negative_slope"),
          (S_relu(4, 1, 0.25, False, 1.5, ste, qf), dict(negative_slope=0.0), "negative_slope"),
          (S_relu(4, 2, 0.5, False, 3.0, ste, qf), dict(relu_upper_bound=1.5), "relu_upper_bound"),
          (S_relu(4, 1, 0.5, False, 1.5, ste, qf), dict(relu_upper_bound=None), "relu_upper_bound"),
          (S_relu(4, 1, 0.5, False, None, ste, qf), dict(relu_upper_bound=1.5), "relu_upper_bound"),
          (S_relu(4, 1, 0.25, False, None, ste, qf), dict(is_quantized_clip=True), "is_quantized_clip"),
          (S_relu(4, 1, 0.25, True, None, ste, qf), dict(is_quantized_clip=False), "is_quantized_clip"),
          (S_relu(5, 2, 0.25, True, None, ste, qf), dict(bits=4, integer=1), "bits,integer"),
          (S_relu_po2(4, 2.0, 2.0, ste, qf), dict(negative_slope=0.25), "negative_slope"),
          (S_relu_po2(4, 2.0, 0.0, ste, qf), dict(negative_slope=4.0), "negative_slope"),
          (S_relu_po2(4, None, 0.25, ste, qf), dict(max_value=2.0), "max_value"),
          (S_po2(4, None, ste, qf), dict(max_value=2.0), "max_value"),
          (S_bits(4, 1, 0, 1, None, ste, qf), dict(alpha=0.5), "alpha"),
          (S_bits(4, 1, 0, 1, 0.5, ste, qf), dict(alpha=None), "alpha"),
          (S_bits(4, 1, 0, 0, None, ste, qf), dict(keep_negative=1), "keep_negative"),
          (S_bits(5, 2, 1, 1, None, ste, qf), dict(bits=4, integer=1, symmetric=0), "bits,integer,symmetric"),
          (S_bits(4, 1, 0, 1, None, ste, qf), dict(use_ste=not ste), "use_ste"),
          (S_linear(4, 1, 0, 1, None, qf), dict(symmetric=1), "symmetric"),
          (S_linear(4, 1, 1, 1, None, qf), dict(symmetric=0), "symmetric")]
    attr_cases += [(S_act("tanh", 4, 0, True), dict(use_real_tanh=False), "use_real_tanh"),
                   (S_act("tanh", 4, 0, False), dict(use_real_tanh=True), "use_real_tanh"),
                   (S_act("sigmoid", 4, 1, True), dict(use_real_sigmoid=False), "use_real_sigmoid"),
                   (S_act("sigmoid", 4, 1, False), dict(symmetric=0), "symmetric"),
                   (S_act("tanh", 3, 1, False), dict(bits=5, symmetric=0), "bits,symmetric")]
    for spec, init_over, what in attr_cases:
      with guard(spec, "attr_history:" + what):
        xs = spec_pts(spec, 24)
        q = spec["make"](**init_over)
        grad_of(q, short_dyadics(rng, 12, -2, 2).reshape(2, 3, 2))
        final = spec["make"]()
        for a in init_over:
          setattr(q, a, getattr(final, a))
        ys, gs = measure(q, xs)
        y1 = None if spec["one"] is None else value_of(spec["make"](**spec["one"]), xs)
        emit(spec, xs, ys, gs, y1, " [history: constructed with %s, used on a 2x3x2 tensor, then %s assigned]" % (
            ",".join("%s=%s" % kv for kv in init_over.items()), what), keyx=dict(stream="attr_history"),
             stream="attr_history")
        ys2, gs2 = measure(final, xs)
        if not (np.array_equal(ys, ys2) and np.array_equal(gs, gs2)):
          i = int(np.argmax((ys != ys2) | (gs != gs2)))
          run.violate("history_twin", dict(spec["key"], variant="assign:" + what),
                      {"config": spec["label"], "history": "constructed with %s, then assigned" % init_over, "x": float(xs[i]),
                       "value_grad_after_history": [float(ys[i]), float(gs[i])],
                       "value_grad_fresh_twin": [float(ys2[i]), float(gs2[i])]}, mirrored=False)
        run.count("attr_history_" + spec["cls"])

    # ---- stream `rank`: tensors of rank 0..5 (dimensions of size 1 included); numpy-fed tf.Variable input
    shapes = [(), (24,), (4, 6), (2, 3, 4), (2, 1, 3, 4), (1, 2, 3, 2, 2), (1,), (1, 1), (24, 1)]
    ri = 0
    for qf, ste in ((F(1), True), (HALF, False)):
      for spec in base_specs(qf, ste) + [S_act("tanh", 4, 0, False), S_act("sigmoid", 4, 1, True)]:
        xs = spec_pts(spec, 24)
        for shape in (shapes if tier != "quick" else [shapes[0]] + [shapes[1 + (ri + j) % 8] for j in range(3)]):
          n = int(np.prod(shape)) if shape else 1
          if shape == ():
            sel = rng.permutation(24)[:4]
            parts = [(xs[i].reshape(()), ) for i in sel]
          else:
            parts = [(xs[:n].reshape(shape), )]
          for (xt_,) in parts:
            with guard(spec, "rank:%d %s" % (len(shape), list(shape))):
              var = (ri % 4 == 3)
              ys, gs = measure(spec["make"](), xt_, variable=var)
              y1 = None if spec["one"] is None else value_of(spec["make"](**spec["one"]), xt_)
              if ys.shape != xt_.shape or gs.shape != xt_.shape:
                run.violate("shape", dict(spec["key"], rank=len(shape)),
                            {"config": spec["label"], "input_shape": list(shape), "output_shape": list(ys.shape),
                             "gradient_shape": list(gs.shape)}, mirrored=False)
                continue
              emit(spec, xt_, ys, gs, y1, " on a rank-%d tensor %s%s" % (len(shape), list(shape), " (tf.Variable input)" if var else ""),
                   stream="rank%d" % len(shape))
        ri += 1
    # data-dependent scales on ranks 0..5: gradient clause only (rank 0 raises for quantized_bits: recorded count)
    for cls, kw in [("quantized_bits", dict(bits=5, integer=1, symmetric=1, alpha="auto")),
                    ("quantized_bits", dict(bits=5, integer=1, symmetric=1, alpha="auto_po2")),
                    ("quantized_linear", dict(bits=5, integer=1, symmetric=1, alpha="auto")),
                    ("quantized_linear", dict(bits=5, integer=1, symmetric=1, alpha="auto_po2")),
                    ("binary", dict(alpha="auto")), ("binary", dict(alpha="auto_po2")),
                    ("ternary", dict(alpha="auto")), ("ternary", dict(alpha="auto_po2"))]:
      for shape in [(), (1,), (6,), (2, 3, 4), (2, 1, 3, 2), (1, 2, 3, 2, 2)]:
        xs = short_dyadics(rng, int(np.prod(shape)) if shape else 1, -2, 2).reshape(shape)
        xs = np.where(xs == 0, np.float32(0.5), xs).astype(np.float32)
        w = po2w(shape)
        label = "%s(%s) on a rank-%d tensor %s" % (cls, ",".join("%s=%s" % kv for kv in kw.items()), len(shape), list(shape))
        try:
          qobj = getattr(Q, cls)(**kw)
          ys, gs = measure(qobj, xs, w)
        except Exception as e:  # pylint: disable=broad-except
          run.count("auto_scale_rank%d_raises_%s" % (len(shape), type(e).__name__))
          continue
        if ys.shape != xs.shape or gs.shape != xs.shape:
          run.violate("shape", dict(cls=cls, alpha=kw["alpha"], rank=len(shape)),
                      {"config": label, "output_shape": list(ys.shape), "gradient_shape": list(gs.shape)}, mirrored=False)
          continue
        if cls == "quantized_linear":
          # clip range in units of the implementation's own scale (a 1-D tensor has one scale PER ELEMENT, an
          # 'auto_po2' scale may round down: elements beyond the clip range legitimately have gradient 0)
          qsv = np.broadcast_to(np.asarray(qobj.quantization_scale, dtype=np.float32), xs.shape).ravel()
        inside = 0
        for i, (x, g) in enumerate(zip(xs.ravel(), gs.ravel())):
          run.case((label, float(x)))
          run.compared += 1
          want = F(1)
          if cls == "quantized_linear":
            # the scale is a generic float32 here: the clip test is on the float32 quotient, as in the code
            r = F(float(np.float32(x) / np.float32(qsv[i])))
            want = F(1) if -15 < r < 15 else (F(0) if (r < -15 or r > 15) else None)
          inside += (want == 1)
          if want is not None and F(float(g)) != want:
            run.violate("grad_ste", dict(cls=cls, alpha=kw["alpha"], kind="scaled_identity", use_ste=True, qf_is_1=True),
                        {"config": label, "x": float(x), "grad": float(g), "expected": str(want)}, mirrored=False)
            break
        if not np.all(np.isfinite(gs)) or (inside > 0 and not np.any(gs != 0)):
          run.violate("nonzero", dict(cls=cls, alpha=kw["alpha"], use_ste=True, qf_is_1=True),
                      {"config": label, "note": "gradient identically zero or not finite"}, mirrored=False)
        run.count("stream_rank_auto", xs.size)

    # ---- quantized_hswish (quantized_bits applied to x * relu6-like(x + shift) / bound): gradient = hswish'(x)
    # as TensorFlow computes it on the same surrogate expression (oracle input), value = the quantized_bits
    # twin applied to the surrogate value; both learning phases, with and without the flag
    for bits, integer, shift, ub, qf in [(6, 2, 3, 6, F(1)), (5, 1, 2, 4, F(1, 4)), (8, 3, 3, 6, HALF)]:
      for stoch in (False, True):
        for phase in (0, 1):
          xs = np.unique(np.concatenate([short_dyadics(rng, 20, -8, 8, bits=6),
                                         np.array([-shift - 1, -shift + 0.5, ub - shift - 0.5, ub - shift + 1, 0.0, 0.5],
                                                  dtype=np.float32)])).astype(np.float32)
          U = draws(len(xs))
          q = Q.quantized_hswish(bits, integer, 1, qnoise_factor=float(qf), use_stochastic_rounding=stoch,
                                 relu_shift=shift, relu_upper_bound=ub)
          ys, gs = measure(q, xs, phase=phase, U=U)
          xt = tf.constant(xs)
          with tf.GradientTape() as tape:
            tape.watch(xt)
            sx = xt + float(shift)
            hs = xt * tf.where(sx <= float(ub), K.relu(sx), tf.ones_like(sx) * float(ub)) / float(ub)
          dh = np.asarray(tape.gradient(hs, xt), dtype=np.float32)
          twin = Q.quantized_bits(bits, integer, 1, qnoise_factor=float(qf), use_stochastic_rounding=stoch)
          yt = value_of(twin, np.asarray(hs, dtype=np.float32), phase=phase, U=U)
          label = ("quantized_hswish(%d,%d,1,qnoise_factor=%s,relu_shift=%d,relu_upper_bound=%d%s) [learning_phase=%d]"
                   % (bits, integer, qf, shift, ub, ",use_stochastic_rounding=True" if stoch else "", phase))
          key = dict(cls="quantized_hswish", stoch=stoch, phase=phase)
          for x, y, g, d, t_ in zip(xs, ys, gs, dh, yt):
            run.case((label, float(x)))
            run.compared += 1
            if abs(F(float(g)) - F(float(d))) > abs(F(float(d))) * F(1, 2 ** 21):
              run.violate("grad_ste", dict(key, kind="hswish"),
                          {"config": label, "x": float(x), "grad": float(g), "expected": float(d)}, mirrored=False)
              break
            if F(float(y)) != F(float(t_)):
              run.violate("value_mix", dict(key, kind="hswish"),
                          {"config": label, "x": float(x), "y": float(y), "quantized_bits_of_surrogate": float(t_)},
                          mirrored=False)
              break
          if not np.any(gs != 0) or not np.all(np.isfinite(gs)):
            run.violate("nonzero", key, {"config": label, "note": "gradient identically zero or not finite"}, mirrored=False)
          run.count("stream_hswish", len(xs))

    # ---- stream `argforms`: the same numeric option in another form => the same behaviour
    forms = [("np.float32", np.float32), ("np.float64", np.float64), ("0-d ndarray", lambda v: np.array(v, dtype=np.float32)),
             ("tf.constant", lambda v: tf.constant(v, dtype=tf.float32)),
             ("tf.Variable", lambda v: tf.Variable(v, dtype=tf.float32, trainable=False))]
    fi = 0
    for qf, ste in ((HALF, True), (F(1, 4), False), (F(1), True)):
      for spec in base_specs(qf, ste):
        with guard(spec, "argforms"):
          name, conv = forms[fi % len(forms)]
          fi += 1
          xs = spec_pts(spec, 24)
          ys, gs = measure(spec["make"](qnoise_factor=conv(float(qf))), xs)
          y1 = value_of(spec["make"](**spec["one"]), xs)
          emit(spec, xs, ys, gs, y1, " [qnoise_factor as %s]" % name, stream="argforms")
    for spec, over, what in [(S_bits(4, 1, 0, 1, None, True, HALF), dict(bits=np.int64(4), integer=np.int32(1)), "bits np.int64, integer np.int32"),
                             (S_linear(4, 1, 1, 1, None, HALF), dict(bits=np.int64(4), integer=np.int64(1)), "bits / integer np.int64"),
                             (S_relu(4, 1, 2.0, True, None, True, HALF), dict(bits=np.int64(4), integer=np.int64(1)), "bits / integer np.int64"),
                             (S_relu(4, 2, 0.5, False, 3.0, True, HALF), dict(relu_upper_bound=np.float32(3.0)), "relu_upper_bound np.float32"),
                             (S_relu(4, 2, 0.5, False, 3.0, True, HALF), dict(relu_upper_bound=3), "relu_upper_bound int"),
                             (S_relu_po2(4, 2.0, 2.0, True, HALF), dict(max_value=2), "max_value int"),
                             (S_relu_po2(4, 2.0, 2.0, False, HALF), dict(max_value=np.float32(2.0), bits=np.int64(4)), "max_value np.float32, bits np.int64"),
                             (S_po2(4, 2.0, True, HALF), dict(max_value=np.float64(2.0)), "max_value np.float64")]:
      with guard(spec, "argforms:" + what):
        xs = spec_pts(spec, 24)
        ys, gs = measure(spec["make"](**over), xs)
        y1 = value_of(spec["make"](**spec["one"]), xs)
        emit(spec, xs, ys, gs, y1, " [%s]" % what, stream="argforms")

    # ---- stream `process`: module-level switches.  (a) learning phase 1 WITHOUT the flag changes nothing;
    # (b) set_internal_sigmoid('hard' | 'smooth' | 'real') changes the surrogate of quantized_tanh / _sigmoid —
    # in both orders (construct -> switch -> call, switch -> construct -> call), the mode at CALL time counts;
    # (c) K.set_image_data_format('channels_first') for the per-channel scales of binary / ternary.
    for spec in base_specs(HALF, True) + [S_act("tanh", 4, 0, False), S_act("sigmoid", 3, 1, False), S_act("tanh", 3, 1, True)]:
      with guard(spec, "process:learning_phase=1"):
        xs = spec_pts(spec, 24)
        U = draws(len(xs))
        ys, gs, y1 = fresh(spec, xs, phase=1, U=U)
        emit(spec, xs, ys, gs, y1, " [learning_phase=1, no stochastic rounding]", stream="process_phase1")
    try:
      for mode in ("smooth", "real", "hard"):
        for order in ("switch_then_construct", "construct_then_switch"):
          for opn, bits, sym in (("tanh", 4, 0), ("sigmoid", 4, 1)):
            spec = S_act(opn, bits, sym, False)
            with guard(spec, "process:set_internal_sigmoid %s %s" % (mode, order)):
              xs = spec_pts(spec)
              if order == "switch_then_construct":
                Q.set_internal_sigmoid(mode)
                q = spec["make"]()
              else:
                Q.set_internal_sigmoid("hard" if mode != "hard" else "smooth")
                q = spec["make"]()
                grad_of(q, xs[:4])
                Q.set_internal_sigmoid(mode)
              ys, gs = measure(q, xs)
              emit(spec, xs, ys, gs, None, " [set_internal_sigmoid('%s'), %s]" % (mode, order), keyx=dict(sigmoid_mode=mode),
                   stream="process_sigmoid")
    finally:
      Q.set_internal_sigmoid("hard")
    fmt0 = K.image_data_format()
    try:
      K.set_image_data_format("channels_first")
      for cls in ("binary", "ternary"):
        for alpha in ("auto", "auto_po2"):
          x2 = short_dyadics(rng, 24, -2, 2).reshape(3, 8) * np.array([[1.0], [0.25], [4.0]], dtype=np.float32)
          x2 = np.where(x2 == 0, np.float32(0.5), x2).astype(np.float32)
          w = po2w(x2.shape)
          ys, gs = measure(getattr(Q, cls)(alpha=alpha), x2, w)
          add("binter", dict(alpha_none=False), None, x2.ravel(),
              dict(xqs=core.enc_list(ys.ravel()), ths=core.enc_list(np.zeros(x2.size)), dths=core.enc_list(np.zeros(x2.size))),
              label="%s(alpha=%s) on a 3x8 tensor [image_data_format=channels_first]" % (cls, alpha),
              surrogate=("scaled_identity", F(1)), key=dict(cls=cls, alpha=str(alpha)), pre=(ys.ravel(), gs.ravel()))
    finally:
      K.set_image_data_format(fmt0)
  finally:
    fu.restore()
    K.set_learning_phase(0)
    Q.set_internal_sigmoid("hard")

  outs = core.run_driver("C06", lines)
  for m, o in zip(meta, outs):
    xs, ys, gs = m["xs"], m["ys"], m["gs"]
    mirrored = True
    bad = []
    for i, (x, y, g, d) in enumerate(zip(xs, ys, gs, o["out"])):
      run.case((m["label"], float(x)))
      run.compared += 1
      mv, mt = core.unrj(d[0]), core.unrj(d[1])
      if not (np.isfinite(float(y)) and np.isfinite(float(g))):
        # the model is total over the rationals: a NaN / inf of the real code never agrees with it
        bad.append((float(x), [str(y), str(g)], [float(mv), float(mt)]))
        continue
      fy, fg = F(float(y)), F(float(g))
      okv = (fy == mv)
      okt = (fg == mt)
      if m["op"].endswith("_real") or m["op"] in ("binter", "binary_sr"):
        # oracle-input device: tanh' / sigmoid' products are float32 roundings of the exact product
        okt = okt or abs(fg - mt) <= abs(mt) * F(1, 2 ** 21) + F(1, 2 ** 40)
        okv = okv or m["op"] in ("binter", "binary_sr") and abs(fy - mv) <= abs(mv) * F(1, 2 ** 22)
      if not (okv and okt):
        bad.append((float(x), [float(y), float(g)], [float(mv), float(mt)]))
    if bad:
      mirrored = False
      run.disagree("grad:" + m["op"], {"config": m["label"], "n_bad": len(bad), "first": bad[:3]}, "first", "first")
    run.count("op_" + m["op"], len(xs))
    # ---- clause oracle on the real code: gradient equals the surrogate's gradient
    sur = m["surrogate"]
    if sur is None:
      continue
    kind, par = sur
    all_zero = not any(float(g) != 0.0 for g in gs)
    if not (np.all(np.isfinite(np.asarray(gs, dtype=np.float64))) and np.all(np.isfinite(np.asarray(ys, dtype=np.float64)))):
      nf = [i for i in range(len(xs)) if not (np.isfinite(float(gs[i])) and np.isfinite(float(ys[i])))][0]
      run.violate("finite", dict(m["key"], kind=kind),
                  {"config": m["label"], "note": "non-finite gradient or value", "x": float(xs[nf]),
                   "value": str(ys[nf]), "grad": str(gs[nf])}, mirrored=mirrored)
      continue
    unclipped = 0
    for i, (x, g) in enumerate(zip(xs, gs)):
      fx, fg = F(float(x)), F(float(g))
      exp = None
      tol = F(0)
      if kind == "scaled_identity":
        exp = par
      elif kind == "relu":
        slope, bound, fac = par
        if bound is not None and fx > bound:
          exp = F(0)
        else:
          exp = fac * (F(1) if fx > 0 else slope)
          unclipped += (fx > 0 or slope != 0)       # the surrogate itself is flat elsewhere
      elif kind == "linear_clip":
        lo, hi, qf = par
        exp = F(1) if lo <= fx <= hi else 1 - qf
        if fx in (lo, hi):
          exp = None   # gradient of clip AT the bound is a TF convention, pinned by the tie only
      elif kind == "linear_clip_s":
        cmin, cmax, qf, qsv = par
        r = fx / F(float(qsv[i]))
        exp = F(1) if cmin < r < cmax else (1 - qf if (r < cmin or r > cmax) else None)
      elif kind == "tanh":
        # unscaled binary / ternary: tanh'(x) as TensorFlow computes it (oracle input), when supplied
        if isinstance(par, np.ndarray):
          exp = F(float(par[i]))
          tol = abs(exp) * F(1, 2 ** 21)
      elif kind == "surrogate_mask":
        # quantized_tanh / quantized_sigmoid: surrogate'(x) (oracle input) where the OUTPUT is strictly inside
        # the clip range; an output AT a clip bound may be clipped (0) or not (inclusive convention): tie only
        dps, lo, hi = par
        fyv = F(float(ys[i]))
        if lo < fyv < hi:
          exp = F(float(dps[i]))
          tol = abs(exp) * F(1, 2 ** 21)
          unclipped += (exp != 0)
      elif kind in ("hard_tanh", "hard_sigmoid"):
        exp = None     # piecewise: covered by the model tie (clip masks at kinks are conventions)
      if kind in ("linear_clip", "linear_clip_s") and exp == 1:
        unclipped += 1
      if exp is not None and abs(fg - exp) > tol:
        run.violate("grad_ste", dict(m["key"], kind=kind),
                    {"config": m["label"], "x": float(x), "grad": float(g), "expected": str(exp)}, mirrored=mirrored)
        break
    if all_zero and (kind == "scaled_identity" or
                     (kind in ("relu", "surrogate_mask", "linear_clip", "linear_clip_s") and unclipped > 0)):
      run.violate("nonzero", dict(m["key"]), {"config": m["label"], "note": "gradient identically zero on the "
                                              "unclipped range"}, mirrored=mirrored)
    # ---- clause oracle on the real code: the forward value is the surrogate mixed with the quantized
    # value by the noise factor, y == x_u + qf * (q(x) - x_u), q(x) = the same configuration at factor 1
    if m["mix"] is not None:
      qf, y1, xukind = m["mix"]
      for x, y, yq in zip(xs, ys, y1):
        fx = F(float(x))
        if xukind == "identity":
          xu = fx
        else:
          slope, bound = xukind
          xu = bound if (bound is not None and fx > bound) else (fx if fx > 0 else slope * fx)
        want = xu + qf * (F(float(yq)) - xu)
        if F(float(y)) != want:
          run.violate("value_mix", dict(m["key"], kind=kind),
                      {"config": m["label"], "x": float(x), "y": float(y), "quantized_value_at_factor_1": float(yq),
                       "expected_y": float(want), "qnoise_factor": str(qf)}, mirrored=mirrored)
          break
      run.count("clause_value_mix", len(xs))
  run.assumptions.append("tf.random.uniform is replaced by a stand-in returning fixed unit draws while the stochastic "
                         "streams run (the gradient clauses do not depend on the draws; the value tie does)")
  run.assumptions.append("TF autodiff conventions (clip inclusive, leaky-relu slope at 0, zero gradient of "
                         "round/sign, stop_gradient) are definitions of the dual-number calculus, validated by the tie")
