"""C06 — quantizers stay trainable: gradients are those of the straight-through surrogate."""
from fractions import Fraction as F

import numpy as np

from .. import core, fixedq


def short_dyadics(rng, n, lo, hi, bits=10):
  """floats with few significant bits so that mixing with qnoise factors stays exact in float32"""
  v = rng.uniform(lo, hi, size=n)
  e = np.floor(np.log2(np.maximum(np.abs(v), 1e-30)))
  q = np.exp2(e - bits)
  return (np.round(v / q) * q).astype(np.float32)


def grad_of(q, xs, w=None):
  """(value, d sum(w*y) / dx / w).  `w`: upstream gradient, powers of two (division exact); with a
  non-constant upstream gradient a leak through a reduction (K.max of an auto scale) cannot cancel."""
  import tensorflow as tf
  x = tf.constant(xs)
  with tf.GradientTape() as tape:
    tape.watch(x)
    y = q(x)
    loss = y if w is None else tf.reduce_sum(y * tf.constant(w))
  g = tape.gradient(loss, x)
  if g is None:
    g = tf.zeros_like(x)
  g = np.asarray(g, dtype=np.float32)
  if w is not None:
    g = (g / w).astype(np.float32)
  return np.asarray(y, dtype=np.float32), g


def is_po2(v):
  m, _ = np.frexp(np.asarray(v, dtype=np.float64))
  return bool(np.all(m == 0.5))


def run(run: core.Run, tier: str):
  core.assert_repo_import()
  import tensorflow as tf
  from qkeras import quantizers as Q
  rng = np.random.default_rng(run.seed)
  run.extra["rule"] = (
      "every differentiable-by-design quantizer class x option combinations (use_ste, qnoise_factor in "
      "{0,1/4,1}, slopes, relu_upper_bound / is_quantized_clip, max_value, constant / auto scales) x inputs: "
      "each linear piece's interior, every kink and clip bound +-1,2 ulp, clipped regions, short-dyadic random "
      "points; data-dependent scales (quantized_bits 'auto' / 'auto_po2' / post_training_scale x integer in "
      "{-1,0,1,2,3} x keep_negative x use_ste x qnoise_factor; quantized_linear 'auto' / 'auto_po2' incl. 1 bit and "
      "unsigned; binary / ternary) on 1-D, per-channel 2-D and 4-D tensors whose column extremes make the scale an "
      "exact power of two, with a non-constant power-of-two upstream gradient; "
      "tf.GradientTape (value, gradient) compared exactly with the Lean dual-number model (the implementation's "
      "scale is an oracle input of the auto-scaled transcriptions); the clause oracle checks on the real code "
      "gradient == surrogate' and value == x_u + qnoise_factor * (q(x) - x_u); "
      "non-trivial = distinct (configuration, input)")
  F32 = lambda v: F(float(np.float32(v)))
  lines, meta = [], []

  def pts(edges, span, exact_only=False):
    base = []
    for e in edges:
      base.append(np.float32(e))
      if not exact_only:
        base += fixedq.ulps(np.float32(e))
    span = float(2.0 ** np.ceil(np.log2(span)))       # dyadic span: the extra points stay short dyadics
    base += list(short_dyadics(rng, 10, -span, span))
    base += [np.float32(0.0), np.float32(0.5 * span), np.float32(-0.5 * span), np.float32(1.5 * span),
             np.float32(-1.5 * span)]
    a = np.array(base, dtype=np.float32)
    # TF's CPU kernels treat subnormals as zero: they are not distinct inputs for the real code
    a = a[(a == 0) | (np.abs(a) >= np.float32(1.1754944e-38))]
    return np.unique(a)

  def add(op, cfg, q, xs, extra=None, label=None, surrogate=None, key=None, pre=None, mix=None):
    """pre = (ys, gs) already measured (tensors of rank > 1 are flattened by the caller);
    mix = (qf, y1, xu): y1 = output of the SAME configuration on the same tensor at qnoise_factor 1
    (straight-through form), xu = surrogate kind -> clause  y == x_u + qf * (y1 - x_u)"""
    ys, gs = pre if pre is not None else grad_of(q, xs)
    line = {"op": op, "cfg": cfg, "xs": core.enc_list(xs)}
    if extra:
      line.update(extra)
    lines.append(line)
    meta.append(dict(op=op, label=label, xs=xs, ys=ys, gs=gs, surrogate=surrogate, key=key or {}, mix=mix))

  def po2w(shape):
    return np.exp2(rng.integers(-1, 3, size=shape)).astype(np.float32)

  def crafted(ncol, nrow, top, ks, lim=None, signed_max=None):
    """tensor (nrow, ncol) of c * 2^k, c multiples of 1/8: per column the extreme element is exactly
    `top` * 2^k (so that the 'auto' scale is a power of two and every float32 operation of the
    branch is exact), plus zero, rounding ties (k + 1/2), near-extreme values and random residues"""
    lim = top if lim is None else lim
    cols = []
    for j in range(ncol):
      c = rng.integers(-int(8 * lim), int(8 * lim) + 1, size=nrow) / 8.0
      c[1] = 0.0
      c[2] = np.floor(lim) - 0.5
      c[3] = -(np.floor(lim / 2) + 0.5)
      c[4] = -(lim - 0.125)
      c[5] = 0.375
      c = np.clip(c, -lim, lim)
      if lim == top:
        c[np.abs(c) == top] = top - 1       # a single extreme element
      c[0] = top if (signed_max or j % 2 == 0) else -top
      cols.append(c * 2.0 ** ks[j % len(ks)])
    return np.stack(cols, axis=1).astype(np.float32)

  qfs = [F(1), F(0), F(1, 4)]
  nb = 3 if tier == "quick" else 6
  # ---- quantized_bits, constant / no scale
  for bits, integer, sym, kn, alpha in [(4, 0, 0, 1, None), (3, 1, 1, 1, None), (5, 2, 0, 0, None),
                                        (4, 0, 0, 1, 0.5), (1, 0, 0, 1, None), (8, 3, 1, 1, 2.0)][:nb + 3]:
    for ste in (True, False):
      for qf in qfs:
        q = Q.quantized_bits(bits, integer, sym, keep_negative=kn, alpha=alpha, use_ste=ste, qnoise_factor=float(qf))
        ub = bits - kn
        step = 2.0 ** (integer - ub)
        hi = (2 ** ub - 1) * step
        lo = (-(2 ** ub) + sym) * step if kn else 0.0
        xs = pts([lo, hi, 0.0, 0.5 * step, 1.5 * step], 2.0 ** integer * 1.2, exact_only=(qf not in (0, 1)))
        cfg = dict(bits=bits, integer=integer, symmetric=sym, keep_negative=kn,
                   alpha=None if alpha is None else core.rj(alpha))
        q1 = Q.quantized_bits(bits, integer, sym, keep_negative=kn, alpha=alpha)
        add("bits", cfg, q, xs, dict(use_ste=ste, qf=core.rj(qf)),
            label="quantized_bits(%d,%d,%d,keep_negative=%d,alpha=%s,use_ste=%s,qnoise_factor=%s)"
            % (bits, integer, sym, kn, alpha, ste, qf),
            surrogate=("scaled_identity", (F(1) if ste else 1 - qf)),
            key=dict(cls="quantized_bits", use_ste=ste, qf_is_1=(qf == 1)),
            mix=(qf, np.asarray(q1(tf.constant(xs)), dtype=np.float32), "identity"))
  # ---- quantized_bits with a data-dependent scale (alpha 'auto' / 'auto_po2' / post_training_scale):
  # the branch normalises x / m_i and restores m_i * x, so every `integer` is generated; per-channel
  # (2-D) and single (1-D) scales; both return forms; all three noise factors; (value, gradient) tied to
  # qbitsAutoD with the implementation's scale as an oracle input, and judged by the clauses directly.
  shapes_bk = [(4, 1), (3, 1), (6, 0), (2, 1), (5, 0), (8, 1), (3, 0)]
  ci = 0
  for alpha in ("auto", "auto_po2", "post_training_scale"):
    for integer in (0, 1, 2, 3, -1):
      for kn_pick in (0, 1):
        cand = [bk for bk in shapes_bk if bk[1] == kn_pick]
        bits, kn = cand[(ci // 2) % len(cand)]
        ci += 1
        L = 2 ** (bits - 1) - 1
        ub = bits - kn
        rank2 = (ci % 3 != 0)
        ks = [int(k) for k in rng.integers(-3, 4, size=3)]
        if alpha == "post_training_scale":
          # frozen scale: elements beyond the largest code saturate
          x2 = crafted(3 if rank2 else 1, 12, L, ks, lim=2 * L)
          pts_scale = np.array([[2.0 ** (k - integer + ub) for k in (ks if rank2 else ks[:1])]], dtype=np.float32)
          kw = dict(alpha="auto_po2", post_training_scale=pts_scale if rank2 else pts_scale[0])
        else:
          x2 = crafted(3 if rank2 else 1, 12, L, ks)
          kw = dict(alpha=alpha)
        if not rank2:
          x2 = x2[:, 0]
        w = po2w(x2.shape)
        q1 = Q.quantized_bits(bits, integer, 1, keep_negative=kn, **kw)
        y1 = np.asarray(q1(tf.constant(x2)), dtype=np.float32)
        for ste in (True, False):
          for qf in qfs:
            q = Q.quantized_bits(bits, integer, 1, keep_negative=kn, use_ste=ste, qnoise_factor=float(qf), **kw)
            ys, gs = grad_of(q, x2, w)
            S = np.broadcast_to(np.asarray(q.scale, dtype=np.float32), x2.shape if rank2 else (1,) + x2.shape)
            S = S.reshape(x2.shape)
            label = ("quantized_bits(%d,%d,1,keep_negative=%d,alpha=%s,use_ste=%s,qnoise_factor=%s) on a %s tensor"
                     % (bits, integer, kn, alpha, ste, qf, "x".join(map(str, x2.shape))))
            if not is_po2(S):
              run.count("bits_auto_scale_not_po2")
            add("bits_auto", dict(bits=bits, integer=integer, keep_negative=bool(kn)), q, x2.ravel(),
                dict(use_ste=ste, qf=core.rj(qf), ss=core.enc_list(S.ravel())), label=label,
                surrogate=("scaled_identity", (F(1) if ste else 1 - qf)),
                key=dict(cls="quantized_bits", alpha=alpha, use_ste=ste, qf_is_1=(qf == 1)),
                pre=(ys.ravel(), gs.ravel()), mix=(qf, y1.ravel(), "identity"))
            run.count("bits_auto_integer_%d" % integer, x2.size)
  # gradient-only (clause oracle, no model): generic data (the 'auto' scale is not a power of two), conv-kernel
  # rank, scale_axis, elements_per_scale
  for alpha, shape, kw in [("auto", (5, 4), {}), ("auto_po2", (2, 2, 3, 4), {}), ("auto", (2, 2, 3, 4), {}),
                           ("auto_po2", (6, 4), dict(scale_axis=0)), ("auto", (24,), {}),
                           ("auto_po2", (8, 4), dict(scale_axis=1, elements_per_scale=2))]:
    for integer in (0, 2, 3):
      for ste in (True, False):
        for qf in (F(1), F(1, 4)):
          q = Q.quantized_bits(5, integer, 1, alpha=alpha, use_ste=ste, qnoise_factor=float(qf), **kw)
          xs = short_dyadics(rng, int(np.prod(shape)), -2.0 ** integer, 2.0 ** integer).reshape(shape)
          w = po2w(shape)
          ys, gs = grad_of(q, xs, w)
          want = F(1) if ste else 1 - qf
          label = "quantized_bits(5,%d,1,alpha=%s,use_ste=%s,qnoise_factor=%s%s) on a %s tensor" % (
              integer, alpha, ste, qf, "".join(",%s=%s" % kv for kv in kw.items()), "x".join(map(str, shape)))
          key = dict(cls="quantized_bits", alpha=alpha, use_ste=ste, qf_is_1=(qf == 1))
          for x, g in zip(xs.ravel(), gs.ravel()):
            run.case((label, float(x)))
            run.compared += 1
            if F(float(g)) != want:
              run.violate("grad_ste", dict(key, kind="scaled_identity"),
                          {"config": label, "x": float(x), "grad": float(g), "expected": str(want)}, mirrored=False)
              break
          if not np.any(gs != 0):
            run.violate("nonzero", dict(cls="quantized_bits", use_ste=ste, qf_is_1=(qf == 1)),
                        {"config": label, "note": "gradient identically zero"}, mirrored=True)
          run.count("op_bits_auto_generic", xs.size)
  # ---- quantized_linear
  for bits, integer, sym, kn, alpha in [(4, 0, 1, 1, None), (3, 1, 0, 1, None), (4, 1, 1, 0, 0.5), (1, 0, 1, 1, None)]:
    for qf in qfs:
      q = Q.quantized_linear(bits, integer, sym, keep_negative=kn, alpha=alpha, qnoise_factor=float(qf))
      ub = bits - kn
      qs = (1.0 if alpha is None else alpha) * 2.0 ** (integer - ub)
      if bits == 1 and kn:
        lo, hi = -0.5 * qs, 0.5 * qs
      else:
        hi = (2 ** ub - 1) * qs
        lo = (-(2 ** ub) + sym) * qs if kn else 0.0
      xs = pts([lo, hi, 0.5 * qs, 1.5 * qs], max(abs(lo), abs(hi)) * 1.5 + qs, exact_only=(qf not in (0, 1)))
      cfg = dict(bits=bits, integer=integer, symmetric=sym, keep_negative=kn,
                 alpha=None if alpha is None else core.rj(alpha))
      q1 = Q.quantized_linear(bits, integer, sym, keep_negative=kn, alpha=alpha)
      add("linear", cfg, q, xs, dict(qf=core.rj(qf)),
          label="quantized_linear(%d,%d,%d,keep_negative=%d,alpha=%s,qnoise_factor=%s)" % (bits, integer, sym, kn, alpha, qf),
          surrogate=("linear_clip", (F32(lo), F32(hi), qf)), key=dict(cls="quantized_linear"),
          mix=(qf, np.asarray(q1(tf.constant(xs)), dtype=np.float32), "identity"))
  # ---- quantized_linear with a data-dependent scale ('auto' / 'auto_po2'): the scale enters under
  # stop_gradient.  Per-column extreme = clip_range/2 * 2^k (keep_negative) or clip_max * 2^k, so that the
  # scale 2^k is exact; non-symmetric / unsigned configurations then have elements OUTSIDE the clip range
  # (the half step above clip_max, negative inputs of an unsigned quantizer): gradient 1 - qnoise_factor there.
  for alpha in ("auto", "auto_po2"):
    for bits, sym, kn in [(4, 1, 1), (4, 0, 1), (3, 0, 0), (5, 1, 0), (1, 1, 1), (2, 0, 1)]:
      for integer in (0, 2):
        ub = bits - kn
        if bits == 1 and kn:
          cmin, cmax = F(-1, 2), F(1, 2)
        else:
          cmax = F(2 ** ub - 1)
          cmin = F(-(2 ** ub) + sym) if kn else F(0)
        top = float((cmax - cmin) / 2) if kn else float(cmax)
        ks = [int(k) for k in rng.integers(-3, 4, size=3)]
        x2 = crafted(3, 12, top, ks, signed_max=not kn)
        w = po2w(x2.shape)
        q1 = Q.quantized_linear(bits, integer, sym, keep_negative=kn, alpha=alpha)
        y1 = np.asarray(q1(tf.constant(x2)), dtype=np.float32)
        for qf in qfs:
          q = Q.quantized_linear(bits, integer, sym, keep_negative=kn, alpha=alpha, qnoise_factor=float(qf))
          ys, gs = grad_of(q, x2, w)
          qs = np.broadcast_to(np.asarray(q.quantization_scale, dtype=np.float32), x2.shape)
          label = ("quantized_linear(%d,%d,%d,keep_negative=%d,alpha=%s,qnoise_factor=%s) on a %s tensor"
                   % (bits, integer, sym, kn, alpha, qf, "x".join(map(str, x2.shape))))
          if not is_po2(qs):
            run.count("linear_auto_scale_not_po2")
          add("linear_s", dict(bits=bits, integer=integer, symmetric=bool(sym), keep_negative=bool(kn)), q, x2.ravel(),
              dict(qf=core.rj(qf), qss=core.enc_list(qs.ravel())), label=label,
              surrogate=("linear_clip_s", (cmin, cmax, qf, qs.ravel())),
              key=dict(cls="quantized_linear", alpha=alpha),
              pre=(ys.ravel(), gs.ravel()), mix=(qf, y1.ravel(), "identity"))
  # ---- quantized_relu
  for bits, integer, sl, iqc, upper in [(4, 1, None, True, None), (4, 1, 2, True, None), (4, 1, None, False, 1.5),
                                        (3, 0, 1, False, None), (4, 2, 3, False, 3.0), (6, 2, None, True, None)]:
    for ste in (True, False):
      for qf in qfs:
        slope = 0.0 if sl is None else 2.0 ** -sl
        kw = dict(negative_slope=slope, relu_upper_bound=upper, is_quantized_clip=iqc)
        q = Q.quantized_relu(bits, integer, use_ste=ste, qnoise_factor=float(qf), **kw)
        q1 = Q.quantized_relu(bits, integer, use_ste=True, qnoise_factor=1.0, **kw)
        nsb = bits - (sl is not None)
        bound = 2.0 ** integer - 2.0 ** (integer - nsb)
        edges = [0.0, bound, 2.0 ** (integer - nsb) * 0.5] + ([upper] if upper else [])
        xs = pts(edges, 2.0 ** integer * 1.5, exact_only=(qf not in (0, 1)))
        xqs = np.asarray(q1(tf.constant(xs)), dtype=np.float32)
        cfg = dict(bits=bits, integer=integer, slope_log=sl, is_quantized_clip=iqc,
                   upper=None if upper is None else core.rj(upper))
        b_eff = bound if iqc else (upper if upper is not None else None)
        add("relu", cfg, q, xs, dict(use_ste=ste, qf=core.rj(qf), xqs=core.enc_list(xqs)),
            label="quantized_relu(%d,%d,negative_slope=%s,relu_upper_bound=%s,is_quantized_clip=%s,use_ste=%s,qnoise_factor=%s)"
            % (bits, integer, slope, upper, iqc, ste, qf),
            surrogate=("relu", (F(slope), None if b_eff is None else F32(b_eff), (F(1) if ste else 1 - qf))),
            key=dict(cls="quantized_relu", use_ste=ste, qf_is_1=(qf == 1)),
            mix=(qf, xqs, (F(slope), None if b_eff is None else F32(b_eff))))
  # ---- quantized_tanh / quantized_sigmoid (hard and real surrogates)
  for bits, sym in [(4, 0), (3, 1)]:
    for cls, opn in (("quantized_tanh", "tanh"), ("quantized_sigmoid", "sigmoid")):
      m = 2.0 ** (bits - 1) if opn == "tanh" else 2.0 ** bits
      edges = [-1.0, 1.0, 0.0, (1 - 1 / m), -(1 - 1 / m), 1 - 0.5 / m, 2 * (1 - 1 / m) - 1, 0.5 / m]
      xs = pts(edges, 2.0)
      qh = getattr(Q, cls)(bits, symmetric=sym)
      # exact model of the hard surrogate: only where float32 computes 0.5*x+0.5 exactly (short dyadics)
      xs_exact = pts(edges, 2.0, exact_only=True)
      add(opn + "_hard", dict(bits=bits, symmetric=sym), qh, xs_exact, label="%s(%d,symmetric=%d)" % (cls, bits, sym),
          surrogate=("hard_" + opn, (bits, sym)), key=dict(cls=cls, real=False))
      qr = getattr(Q, cls)(bits, symmetric=sym, **({"use_real_tanh": True} if opn == "tanh" else {"use_real_sigmoid": True}))
      for real, qq in ((True, qr), (False, qh)):
        # oracle-input device: surrogate value p and derivative p' as TensorFlow computes them
        xt = tf.constant(xs)
        with tf.GradientTape() as tape:
          tape.watch(xt)
          if real:
            p = tf.tanh(xt) if opn == "tanh" else tf.sigmoid(xt)
          else:
            p = 2.0 * Q._sigmoid(xt) - 1.0 if opn == "tanh" else Q._sigmoid(xt)
        dp = tape.gradient(p, xt)
        add(opn + "_real", dict(bits=bits, symmetric=sym), qq, xs,
            dict(ps=core.enc_list(np.asarray(p)), dps=core.enc_list(np.asarray(dp))),
            label="%s(%d,symmetric=%d,%s surrogate as oracle)" % (cls, bits, sym, "real" if real else "hard"),
            key=dict(cls=cls, real=real))
  # ---- quantized_po2 / quantized_relu_po2
  for bits, mv in [(4, None), (4, 2.0), (5, 0.5)]:
    for ste in (True, False):
      for qf in qfs:
        q = Q.quantized_po2(bits, mv, use_ste=ste, qnoise_factor=float(qf))
        q1 = Q.quantized_po2(bits, mv)
        xs = pts([0.0, 1.0, mv or 4.0], 4.0, exact_only=True)
        xqs = np.asarray(q1(tf.constant(xs)), dtype=np.float32)
        add("po2", dict(), q, xs, dict(use_ste=ste, qf=core.rj(qf), xqs=core.enc_list(xqs)),
            label="quantized_po2(%d,%s,use_ste=%s,qnoise_factor=%s)" % (bits, mv, ste, qf),
            surrogate=("scaled_identity", (F(1) if ste else 1 - qf)),
            key=dict(cls="quantized_po2", use_ste=ste, qf_is_1=(qf == 1)), mix=(qf, xqs, "identity"))
  for bits, mv, slope in [(4, None, 0.0), (4, 2.0, 0.25), (4, None, 0.125), (3, 1.0, 0.0)]:
    for ste in (True, False):
      for qf in qfs:
        q = Q.quantized_relu_po2(bits, mv, slope, use_ste=ste, qnoise_factor=float(qf))
        q1 = Q.quantized_relu_po2(bits, mv, slope)
        xs = pts([0.0, 1.0, mv or 4.0], 4.0, exact_only=(qf not in (0, 1)))
        xqs = np.asarray(q1(tf.constant(xs)), dtype=np.float32)
        add("relu_po2", dict(slope=core.rj(slope), max_value=None if mv is None else core.rj(mv)), q, xs,
            dict(use_ste=ste, qf=core.rj(qf), xqs=core.enc_list(xqs)),
            label="quantized_relu_po2(%d,%s,%s,use_ste=%s,qnoise_factor=%s)" % (bits, mv, slope, ste, qf),
            surrogate=("relu", (F(slope), None if mv is None else F32(mv), (F(1) if ste else 1 - qf))),
            key=dict(cls="quantized_relu_po2", use_ste=ste, qf_is_1=(qf == 1)),
            mix=(qf, xqs, (F(slope), None if mv is None else F32(mv))))
  # ---- binary / ternary
  for cls in ("binary", "ternary"):
    for alpha in (None, 1.0, 0.5, "auto", "auto_po2"):
      q = getattr(Q, cls)(alpha=alpha)
      xs = pts([0.0, 0.33, -0.33, 1.0], 2.0, exact_only=True)
      xs = xs[xs != 0.0] if alpha in ("auto", "auto_po2") else xs
      xt = tf.constant(xs)
      with tf.GradientTape() as tape:
        tape.watch(xt)
        th = tf.tanh(xt)
      dth = tape.gradient(th, xt)
      ys, _ = grad_of(q, xs)
      # xq (value of scale*code) is whatever the implementation emitted: the forward value IS xq
      add("binter", dict(alpha_none=alpha is None), q, xs,
          dict(xqs=core.enc_list(ys), ths=core.enc_list(np.asarray(th)), dths=core.enc_list(np.asarray(dth))),
          label="%s(alpha=%s)" % (cls, alpha),
          surrogate=("tanh" if alpha is None else "scaled_identity", F(1)), key=dict(cls=cls, alpha=str(alpha)))

  for cls in ("binary", "ternary"):
    for alpha in ("auto", "auto_po2"):
      q = getattr(Q, cls)(alpha=alpha)
      x2 = short_dyadics(rng, 24, -2, 2).reshape(8, 3) * np.array([1.0, 0.25, 4.0], dtype=np.float32)
      x2 = np.where(x2 == 0, np.float32(0.5), x2).astype(np.float32)
      w = po2w(x2.shape)
      ys, gs = grad_of(q, x2, w)
      xt = tf.constant(x2.ravel())
      with tf.GradientTape() as tape:
        tape.watch(xt)
        th = tf.tanh(xt)
      dth = tape.gradient(th, xt)
      add("binter", dict(alpha_none=False), q, x2.ravel(),
          dict(xqs=core.enc_list(ys.ravel()), ths=core.enc_list(np.asarray(th)), dths=core.enc_list(np.asarray(dth))),
          label="%s(alpha=%s) on a 8x3 tensor" % (cls, alpha),
          surrogate=("scaled_identity", F(1)), key=dict(cls=cls, alpha=str(alpha)), pre=(ys.ravel(), gs.ravel()))

  outs = core.run_driver("C06", lines)
  for m, o in zip(meta, outs):
    xs, ys, gs = m["xs"], m["ys"], m["gs"]
    mirrored = True
    bad = []
    for i, (x, y, g, d) in enumerate(zip(xs, ys, gs, o["out"])):
      run.case((m["label"], float(x)))
      run.compared += 1
      mv, mt = core.unrj(d[0]), core.unrj(d[1])
      fy, fg = F(float(y)), F(float(g))
      okv = (fy == mv)
      okt = (fg == mt)
      if m["op"].endswith("_real") or m["op"] == "binter":
        # oracle-input device: tanh' / sigmoid' products are float32 roundings of the exact product
        okt = okt or abs(fg - mt) <= abs(mt) * F(1, 2 ** 21) + F(1, 2 ** 40)
        okv = okv or m["op"] == "binter" and abs(fy - mv) <= abs(mv) * F(1, 2 ** 22)
      if not (okv and okt):
        bad.append((float(x), [float(y), float(g)], [float(mv), float(mt)]))
    if bad:
      mirrored = False
      run.disagree("grad:" + m["op"], {"config": m["label"], "n_bad": len(bad), "first": bad[:3]}, "first", "first")
    run.count("op_" + m["op"], len(xs))
    # ---- clause oracle on the real code: gradient equals the surrogate's gradient
    sur = m["surrogate"]
    if sur is None:
      continue
    kind, par = sur
    all_zero = not any(float(g) != 0.0 for g in gs)
    for i, (x, g) in enumerate(zip(xs, gs)):
      fx, fg = F(float(x)), F(float(g))
      exp = None
      if kind == "scaled_identity":
        exp = par
      elif kind == "relu":
        slope, bound, fac = par
        if bound is not None and fx > bound:
          exp = F(0)
        else:
          exp = fac * (F(1) if fx > 0 else slope)
      elif kind == "linear_clip":
        lo, hi, qf = par
        exp = F(1) if lo <= fx <= hi else 1 - qf
        if fx in (lo, hi):
          exp = None   # gradient of clip AT the bound is a TF convention, pinned by the tie only
      elif kind == "linear_clip_s":
        cmin, cmax, qf, qsv = par
        r = fx / F(float(qsv[i]))
        exp = F(1) if cmin < r < cmax else (1 - qf if (r < cmin or r > cmax) else None)
      elif kind == "tanh":
        exp = None
      elif kind in ("hard_tanh", "hard_sigmoid"):
        exp = None     # piecewise: covered by the model tie (clip masks at kinks are conventions)
      if exp is not None and fg != exp:
        run.violate("grad_ste", dict(m["key"], kind=kind),
                    {"config": m["label"], "x": float(x), "grad": float(g), "expected": str(exp)}, mirrored=mirrored)
        break
    if all_zero and kind in ("scaled_identity", "relu"):
      run.violate("nonzero", dict(m["key"]), {"config": m["label"], "note": "gradient identically zero"},
                  mirrored=mirrored)
    # ---- clause oracle on the real code: the forward value is the surrogate mixed with the quantized
    # value by the noise factor, y == x_u + qf * (q(x) - x_u), q(x) = the same configuration at factor 1
    if m["mix"] is not None:
      qf, y1, xukind = m["mix"]
      for x, y, yq in zip(xs, ys, y1):
        fx = F(float(x))
        if xukind == "identity":
          xu = fx
        else:
          slope, bound = xukind
          xu = bound if (bound is not None and fx > bound) else (fx if fx > 0 else slope * fx)
        want = xu + qf * (F(float(yq)) - xu)
        if F(float(y)) != want:
          run.violate("value_mix", dict(m["key"], kind=kind),
                      {"config": m["label"], "x": float(x), "y": float(y), "quantized_value_at_factor_1": float(yq),
                       "expected_y": float(want), "qnoise_factor": str(qf)}, mirrored=mirrored)
          break
      run.count("clause_value_mix", len(xs))
  run.assumptions.append("TF autodiff conventions (clip inclusive, leaky-relu slope at 0, zero gradient of "
                         "round/sign, stop_gradient) are definitions of the dual-number calculus, validated by the tie")
