"""C11 — quantized layers equal their Keras layer run on pre-quantized weights (drop-in).

A generated GROUP is one quantized layer OBJECT (class x geometry x quantizer choice x exact-regime
weights) together with the list of calls made on it; every call is a CASE:
  tie 1  real layer output            == concrete Lean model (drivers/C11.lean: `objectCalls` of the
                                         layer term over the whole history), bit for bit
  tie 2  real layer output            == a FRESH STOCK tf_keras layer with weights q_i(w_i), then the
                                         activation quantizer (the property's own oracle, evaluated
                                         on the real code), bit for bit
  tie 3  layer.get_quantizers()       == the model's list, entry by entry
  no-quantizer clause: nothing configured -> output == stock layer on the raw weights.
Streams:
  structured  one call per fresh object (the class x geometry x quantizer grid)
  reuse       ONE object called 2-4 times on inputs of different batch / spatial / time size / rank,
              eagerly one after the other or shared between the branches of a functional model
  format      every class under `K.set_image_data_format('channels_first')`, in the three orders
              (switch -> construct -> call, construct -> switch -> call, construct under
              channels_first -> switch back -> call), x the layer's own data_format (None / both values)
  rank        ranks beyond the minimum, batch 1, spatial dims of size 1, stride > kernel, dilation
              with `same` padding, 1-D layers in both data formats
`*Transpose` layers do not run in this sandbox and are not generated.
"""
from fractions import Fraction as F
import json

import numpy as np

from .. import core

# ----------------------------------------------------------------------------- quantizer choices

SPEC = {  # element-wise quantizers the Lean model computes itself (QKV.Model.FixedQ)
    "quantized_bits(4,0,1)": dict(k="bits", bits=4, integer=0, symmetric=1, keep_negative=1, alpha=None),
    "quantized_bits(3,0,1)": dict(k="bits", bits=3, integer=0, symmetric=1, keep_negative=1, alpha=None),
    "quantized_bits(4,0,1,alpha=1)": dict(k="bits", bits=4, integer=0, symmetric=1, keep_negative=1, alpha=[1, 1]),
    "quantized_bits(3,0,1,alpha=1)": dict(k="bits", bits=3, integer=0, symmetric=1, keep_negative=1, alpha=[1, 1]),
    "quantized_bits(5,1,0,alpha=1)": dict(k="bits", bits=5, integer=1, symmetric=0, keep_negative=1, alpha=[1, 1]),
    "quantized_bits(6,2,1)": dict(k="bits", bits=6, integer=2, symmetric=1, keep_negative=1, alpha=None),
    "quantized_bits(8,0,1)": dict(k="bits", bits=8, integer=0, symmetric=1, keep_negative=1, alpha=None),
    "quantized_bits(4,1,0)": dict(k="bits", bits=4, integer=1, symmetric=0, keep_negative=1, alpha=None),
    "quantized_relu(4,1)": dict(k="relu", bits=4, integer=1, slope_log=None),
    "quantized_relu(3,0)": dict(k="relu", bits=3, integer=0, slope_log=None),
    "quantized_tanh(4)": dict(k="tanh", bits=4, symmetric=0),
    "quantized_tanh(3,symmetric=1)": dict(k="tanh", bits=3, symmetric=1),
    "quantized_sigmoid(4)": dict(k="sigmoid", bits=4, symmetric=0),
    "quantized_sigmoid(3)": dict(k="sigmoid", bits=3, symmetric=0),
    "hard_sigmoid": dict(k="hard_sigmoid"),
    "hard_tanh": dict(k="hard_tanh"),
}
# kernel-type slots: the layer constructors call `_set_trainable_parameter()` on these quantizers, which
# turns alpha=None into alpha='auto_po2' (data dependent, per-channel scale); an explicit alpha keeps them
# data independent.  AUTO is the one deliberately auto-scaled choice.
AUTO = "quantized_bits(4,0,1)"
WQ = ["quantized_bits(4,0,1,alpha=1)", "quantized_po2(4)", "ternary(alpha=1)", "binary(alpha=1)",
      "quantized_bits(3,0,1,alpha=1)", "quantized_bits(5,1,0,alpha=1)", None]
# slots whose quantizer the constructor switches to trainable / auto scaling
TRAINABLE = {"dense": ["kernel"], "conv1d": ["kernel"], "conv2d": ["kernel"], "dwconv2d": ["depthwise"],
             "sepconv1d": ["depthwise", "pointwise"], "sepconv2d": ["depthwise", "pointwise"],
             "scaleshift": ["weight", "bias"], "simplernn": ["kernel", "recurrent"],
             "lstm": ["kernel", "recurrent"], "gru": ["kernel", "recurrent"]}
BQ = ["quantized_bits(4,0,1)", "quantized_po2(4)", "quantized_bits(6,2,1)", None]
ACT = ["quantized_relu(4,1)", "quantized_bits(6,2,1)", "quantized_relu(3,0)", None]
AVGQ = ["quantized_bits(8,0,1)", "quantized_bits(4,0,1)", "quantized_po2(4)", "quantized_bits(6,2,1)"]
SQ = ["quantized_bits(4,0,1)", "quantized_bits(4,1,0)", None]

SLOTS = {"dense": ["kernel", "bias"], "conv1d": ["kernel", "bias"], "conv2d": ["kernel", "bias"],
         "dwconv2d": ["depthwise", "bias"], "scaleshift": ["weight", "bias"],
         "sepconv1d": ["depthwise", "pointwise", "bias"], "sepconv2d": ["depthwise", "pointwise", "bias"],
         "avgpool2d": ["average"], "globalavgpool2d": ["average"], "activation": [],
         "simplernn": ["kernel", "recurrent", "bias", "state"], "lstm": ["kernel", "recurrent", "bias", "state"],
         "gru": ["kernel", "recurrent", "bias", "state"]}
RNN = ("simplernn", "lstm", "gru")
DEFAULT_FMT = "channels_last"
FMTS0 = (DEFAULT_FMT, DEFAULT_FMT)
# classes with a `data_format` constructor argument and its DEFAULT in the QUANTIZED class (the harness' model of
# the constructor signatures): QConv1D has the literal "channels_last" (as the stock Conv1D), every other one None =
# `K.image_data_format()` at construction time — the same as the stock classes (QConv2D declared the literal
# "channels_last" until /repo 6413fbe, finding C11-qconv2d-default-data-format; a class whose default differs from
# its stock class again fails clause `ctor_default`, un-mirrored).
HAS_DF = {"conv1d": "channels_last", "conv2d": None, "sepconv1d": None, "sepconv2d": None, "dwconv2d": None,
          "avgpool2d": None, "globalavgpool2d": None}


def tj(a):
  a = np.asarray(a)
  return {"s": [int(v) for v in a.shape], "d": [core.rj(v) for v in a.astype(np.float64).ravel()]}


def fr_list(a):
  return [F(float(v)) for v in np.asarray(a, dtype=np.float64).ravel()]


def model_tensor(o):
  return [int(v) for v in o["s"]], [core.unrj(p) for p in o["d"]], bool(o.get("ok", True))


def dy(rng, shape, den, lo, hi):
  """short dyadics k/den, k in [lo, hi]"""
  return (rng.integers(lo, hi + 1, size=shape).astype(np.float32) / np.float32(den)).astype(np.float32)


def fresh_q(s, trainable=False):
  """a quantizer object built by the harness from the configuration string (never the layer's own);
  `trainable`: the slot is one on which the layer constructor calls `_set_trainable_parameter()`"""
  from qkeras.quantizers import get_quantizer
  q = get_quantizer(s)
  if trainable and hasattr(q, "_set_trainable_parameter"):
    q._set_trainable_parameter()
  return q


def is_auto(s, trainable):
  if s is None or not trainable:
    return False
  q = fresh_q(s, True)
  return isinstance(getattr(q, "alpha", None), str)


def apply_q(s, a, trainable=False):
  import tensorflow as tf
  if s is None:
    return np.asarray(a, dtype=np.float32)
  return np.asarray(fresh_q(s, trainable)(tf.constant(np.asarray(a, dtype=np.float32))), dtype=np.float32)


def qspec(s, args=(), trainable=False):
  """protocol form of quantizer `s`; non-element-wise ones as the table of the real values at `args`"""
  if s is None:
    return None
  if s in SPEC and not is_auto(s, trainable):
    return SPEC[s]
  return {"k": "table", "e": [[tj(a), tj(apply_q(s, a, trainable))] for a in args]}


def rnd32(fr):
  """IEEE-754 binary32 round-to-nearest-even of an exact rational (normal range)"""
  if fr == 0:
    return F(0)
  sgn = -1 if fr < 0 else 1
  a = abs(fr)
  e = a.numerator.bit_length() - a.denominator.bit_length() - 24
  while a / F(2) ** e >= 2 ** 24:
    e += 1
  while a / F(2) ** e < 2 ** 23:
    e -= 1
  e = max(e, -149)
  m = a / F(2) ** e
  fl = m.numerator // m.denominator
  r = m - fl
  if r > F(1, 2) or (r == F(1, 2) and fl % 2 == 1):
    fl += 1
  return sgn * fl * F(2) ** e


# ----------------------------------------------------------------------------- groups and cases

class Case:
  """one call of a layer object"""

  def __init__(self, group, pos, geo):
    self.group, self.pos, self.geo = group, pos, geo
    self.cls, self.q, self.stream = group.cls, group.q, group.stream
    self.err = None
    self.line_off, self.line_pos = 0, pos   # which driver line of the group / which call of that line
    self.impl = None        # list of np arrays (outputs)
    self.oracle = None      # same, from the stock layer
    self.stock_raw = None   # stock layer on the raw weights (no-quantizer clause)
    self.x = None

  @property
  def label(self):
    G = self.group
    extra = ""
    if G.stream != "structured":
      extra = " [%s #%d call %d/%d %s fmt=%s/%s forms=%s%s]" % (
          G.stream, G.gid, self.pos + 1, len(G.cases), G.mode, G.fmts[0][9:], G.fmts[1][9:],
          json.dumps(G.forms, sort_keys=True),
          "" if G.reweigh is None else " set_weights before call %d" % (G.reweigh + 1))
    return "%s %s %s%s" % (self.cls, json.dumps(self.geo, sort_keys=True), json.dumps(self.q, sort_keys=True), extra)


class Group:
  """one layer OBJECT and the calls made on it.
  geo: the constructor-level geometry (+ per-call dims for single-call groups); calls: per-call dims;
  mode: 'eager' (successive calls) | 'functional' (one shared layer on the branches of a functional model) |
        'dynamic' (one functional model with spatial / time dims None, called on every input in turn);
  fmts: (K.image_data_format() while constructing, ... while calling);
  forms: argument forms {'q': 'string'|'object'|'used', 'ksz': 'asis'|'tuple'|'list'|'int', 'x': 'tensor'|'numpy'|'variable',
         'training': absent | True | False (the `training=` keyword of the call)}"""
  _n = 0

  def __init__(self, cls, geo, q, calls=None, stream="structured", mode="eager", fmts=FMTS0, forms=None,
               reweigh=None):
    self.cls, self.geo, self.q, self.stream, self.mode, self.fmts = cls, geo, q, stream, mode, tuple(fmts)
    self.forms = dict(forms or {})
    self.reweigh = reweigh      # eager histories: `set_weights(new values)` right before the call of this index
    self.gid = Group._n
    Group._n += 1
    self.cases = [Case(self, i, dict(geo, **d)) for i, d in enumerate(calls or [{}])]
    self.reported = None
    self.lines = []
    self.W = None
    self.mask = None
    self.df = None
    self.ctor_df = None
    self.skip = False
    self.rva = None        # problems of clause reported_equals_applied (None: not evaluated)


def pick(rng, lst):
  return lst[int(rng.integers(0, len(lst)))]


def qsel(rng, slots, i, force_none=False, auto=False):
  q = {}
  for j, s in enumerate(slots):
    if force_none:
      q[s] = None
    elif s == "bias":
      q[s] = BQ[(i + j) % len(BQ)] if rng.random() < 0.7 else pick(rng, BQ)
    elif s == "state":
      q[s] = SQ[(i // 2) % len(SQ)]
    elif s == "average":
      q[s] = AVGQ[i % len(AVGQ)] if i % 5 else None
    else:
      q[s] = WQ[(i + 2 * j) % len(WQ)] if rng.random() < 0.7 else pick(rng, WQ)
  if auto and not force_none:
    q[slots[0]] = AUTO
  q["act"] = None if force_none else ACT[i % len(ACT)]
  if "average" in q and q["average"] is None:
    q["act"] = None       # the stock average is not exact in float32: nothing non-linear after it
  return q


def rnn_q(rng, cls, i, rep, hard, force_none=False):
  q = qsel(rng, SLOTS[cls], i, force_none=force_none)
  if hard and q["state"] is None:
    q["state"] = SQ[0]            # un-quantized activations only with a state quantizer (bit growth)
  q["act"] = "hard_tanh" if hard else ["quantized_tanh(4)", "quantized_tanh(3,symmetric=1)"][i % 2]
  q["ract"] = "hard_sigmoid" if hard else ["quantized_sigmoid(4)", "quantized_sigmoid(3)"][(i // 2) % 2]
  return q


def gen_cases(rng, tier):
  """the structured grid: one call per fresh object"""
  n = 2 if tier == "quick" else 6
  cases = []

  def Case1(cls, geo, q):
    return Group(cls, geo, q)

  # ---- dense
  for i in range(10 * n):
    geo = dict(units=1 + i % 4, use_bias=bool(i % 3), in_dim=2 + i % 3, rank=2 + (i % 2), batch=1 + i % 2)
    cases.append(Case1("dense", geo, qsel(rng, SLOTS["dense"], i, force_none=(i % 10 == 9), auto=(i % 10 == 4))))
  # ---- activation layer
  for i, a in enumerate(["quantized_relu(4,1)", "quantized_bits(6,2,1)", "quantized_tanh(4)", "quantized_sigmoid(4)"]):
    cases.append(Case1("activation", dict(shape=[2, 3, 2]), {"act": a}))
  # ---- conv1d: every (padding, stride/dilation) cell, kernel 1..3, groups
  i = 0
  for pad in ("valid", "same", "causal"):
    for (st, dl) in ((1, 1), (2, 1), (1, 2)):
      for k in (1, 2, 3):
        for rep in range(n):
          groups = 2 if (i % 4 == 3) else 1
          geo = dict(filters=(2 if groups == 2 and i % 8 == 3 else 4) if groups == 2 else 1 + i % 4, kernel=k,
                     strides=st, padding=pad, dilation=dl, groups=groups, use_bias=bool((i + 1) % 3),
                     length=6 + i % 2, cin=4 if groups == 2 else 2 + i % 2, batch=1 + i % 2)
          cases.append(Case1("conv1d", geo, qsel(rng, SLOTS["conv1d"], i, force_none=(i % 9 == 8), auto=(i % 9 == 4))))
          i += 1
  # ---- conv2d
  i = 0
  for pad in ("valid", "same"):
    for (st, dl) in (((1, 1), (1, 1)), ((2, 2), (1, 1)), ((1, 2), (1, 1)), ((1, 1), (2, 2)), ((1, 1), (1, 2))):
      for k in ((1, 1), (2, 2), (3, 2), (2, 3)):
        for rep in range(n):
          groups = 2 if (i % 5 == 4) else 1
          df = "channels_first" if (i % 7 == 6 and dl == (1, 1)) else "channels_last"
          geo = dict(filters=(2 + 2 * (i % 2)) if groups == 2 else 1 + i % 4, kernel=list(k), strides=list(st),
                     padding=pad, dilation=list(dl), groups=groups, use_bias=bool((i + 1) % 3),
                     hw=[5 + i % 2, 6 - i % 2], cin=4 if groups == 2 else 1 + i % 3, batch=1 + (i % 3 == 0),
                     data_format=df, mask=bool(i % 6 == 2))
          cases.append(Case1("conv2d", geo, qsel(rng, SLOTS["conv2d"], i, force_none=(i % 11 == 10), auto=(i % 11 == 5))))
          i += 1
  # ---- separable 1d
  i = 0
  for pad in ("valid", "same", "causal"):
    for (st, dl) in ((1, 1), (2, 1), (1, 2)):
      for k in (1, 2, 3):
        for rep in range(n):
          geo = dict(filters=1 + i % 4, kernel=k, strides=st, padding=pad, dilation=dl, depth_multiplier=1 + i % 2,
                     use_bias=bool((i + 2) % 3), length=6 + i % 2, cin=1 + i % 3, batch=1 + i % 2)
          cases.append(Case1("sepconv1d", geo, qsel(rng, SLOTS["sepconv1d"], i, force_none=(i % 9 == 8), auto=(i % 9 == 3))))
          i += 1
  # ---- separable 2d / depthwise 2d
  i = 0
  for cls in ("sepconv2d", "dwconv2d"):
    for pad in ("valid", "same"):
      for (st, dl) in (((1, 1), (1, 1)), ((2, 2), (1, 1)), ((1, 1), (2, 2))):
        for k in ((1, 1), (2, 2), (3, 2)):
          for rep in range(n):
            geo = dict(filters=1 + i % 4, kernel=list(k), strides=list(st), padding=pad, dilation=list(dl),
                       depth_multiplier=1 + i % 2, use_bias=bool((i + 2) % 3), hw=[5 + i % 2, 6 - i % 2],
                       cin=1 + i % 3, batch=1 + (i % 3 == 0))
            cases.append(Case1(cls, geo, qsel(rng, SLOTS[cls], i, force_none=(i % 9 == 8), auto=(i % 9 == 3))))
            i += 1
  # ---- pooling
  i = 0
  for pool in ((2, 2), (2, 3), (3, 3), (1, 2)):
    for st in (None, (1, 1), (2, 1)):
      for pad in ("valid", "same"):
        for rep in range(n):
          geo = dict(pool=list(pool), strides=None if st is None else list(st), padding=pad,
                     hw=[5 + i % 2, 6], cin=1 + i % 3, batch=1 + i % 2,
                     data_format="channels_first" if i % 6 == 5 else "channels_last")
          cases.append(Case1("avgpool2d", geo, qsel(rng, SLOTS["avgpool2d"], i)))
          i += 1
  for i in range(12 * n):
    geo = dict(hw=[2 + i % 3, 2 + (i // 3) % 3], cin=1 + i % 3, batch=1 + i % 2, keepdims=bool(i % 4 == 1),
               data_format="channels_first" if i % 5 == 4 else "channels_last")
    cases.append(Case1("globalavgpool2d", geo, qsel(rng, SLOTS["globalavgpool2d"], i)))
  # ---- scale shift
  for i in range(8 * n):
    geo = dict(use_bias=bool(i % 3), shape=[1 + i % 2, 3, 2 + i % 2])
    cases.append(Case1("scaleshift", geo, qsel(rng, SLOTS["scaleshift"], i, force_none=(i % 8 == 7))))
  # ---- recurrent
  i = 0
  for cls in RNN:
    impls = (1,) if cls == "simplernn" else (1, 2)
    ras = (False, True) if cls == "gru" else (False,)
    for impl in impls:
      for ra in ras:
        for rep in range(8 * n if cls != "gru" else 7 * n):
          units = 1 + i % 3
          hard = (i % 4 == 2)
          q = rnn_q(rng, cls, i, rep, hard, force_none=(rep % 8 == 7))
          if cls == "gru" and rep % 7 in (3, 6):
            q["recurrent"] = None          # no recurrent quantizer (site repaired in 32aca3c)
          in_dim = units if (cls == "gru" and rep % 7 == 3) else 2 + i % 2
          geo = dict(units=units, in_dim=in_dim, steps=3 if not hard else 2, batch=2, use_bias=bool((i + 1) % 4),
                     impl=impl, reset_after=ra)
          cases.append(Case1(cls, geo, q))
          i += 1
  return cases


def kext(k, d):
  return (k - 1) * d + 1


FORMS = [dict(q="string", ksz="asis", x="tensor"), dict(q="object", ksz="tuple", x="numpy", training=False),
         dict(q="used", ksz="list", x="variable"), dict(q="string", ksz="int", x="numpy", training=True),
         dict(q="object", ksz="asis", x="tensor"), dict(q="string", ksz="tuple", x="tensor", training=True),
         dict(q="used", ksz="asis", x="numpy", training=False)]
ORDERS = [("channels_first", "channels_first"), ("channels_last", "channels_first"), ("channels_first", "channels_last")]


def conv1d_lengths(pad, k, d, j):
  e = kext(k, d)
  if pad == "valid":
    return [[e + 2, e, e + 3], [e, e + 4, e + 1]][j % 2]
  return [[5, 1, 2], [1, 6, 3]][j % 2]


def conv2d_hws(pad, k, d, j):
  eh, ew = kext(k[0], d[0]), kext(k[1], d[1])
  if pad == "valid":
    return [[[eh + 2, ew + 1], [eh, ew], [eh, ew + 3]], [[eh, ew + 1], [eh + 3, ew + 2], [eh + 1, ew]]][j % 2]
  return [[[5, 4], [1, 1], [1, 4]], [[1, 3], [4, 5], [2, 1]]][j % 2]


def gen_new(rng, tier):
  """the reuse / format / rank streams (fixed counts; the seed only changes numbers and quantizer picks)"""
  thorough = tier != "quick"
  G = []
  fi = [0]

  def forms():
    fi[0] += 1
    return FORMS[fi[0] % len(FORMS)]

  def add(cls, geo, q, calls, stream, mode="eager", fmts=FMTS0):
    # every other eager history of a weighted class gets NEW weight values before its last call
    rw = None
    if stream == "reuse" and mode == "eager" and len(calls) > 1 and cls not in ("activation", "avgpool2d", "globalavgpool2d") \
        and len(G) % 2 == 0:
      rw = len(calls) - 1
    G.append(Group(cls, geo, q, calls=calls, stream=stream, mode=mode, fmts=fmts, forms=forms(), reweigh=rw))

  # ================================================================= reuse: histories on one object
  reps = 3 if not thorough else 6
  for j in range(reps):
    mode = ("eager", "dynamic", "functional")[j % 3]
    fb = 2  # functional models: one batch size on every branch
    B = lambda b: fb if mode == "functional" else b   # noqa: E731
    # `dynamic`: ONE functional model whose spatial / time dims are None, called on every input in turn
    # (classes whose calls differ in rank stay eager)
    emode = "eager" if mode == "dynamic" else mode
    # ---- dense: ranks 2..5 on one object, input.shape[1] == units among them
    u, ind = 2 + j % 3, 2 + (j + 1) % 3
    shapes = [[[2, ind], [1, 3, ind], [2, u, ind], [1, 2, 2, 3, ind]], [[3, u, ind], [2, ind], [1, 2, u, ind]],
              [[2, 3, ind], [2, u, 2, ind]]][j % 3]
    add("dense", dict(units=u, use_bias=(j % 4 != 3), in_dim=ind), qsel(rng, SLOTS["dense"], j, auto=(j == 1)),
        [dict(shape=s_) for s_ in shapes], "reuse", emode)
    # ---- activation: ranks 1..5
    shapes = [[[3], [2, 3], [1, 2, 2]], [[2, 1, 3, 2], [4], [1, 2, 1, 2, 2]], [[2, 3], [2, 2, 2, 1]]][j % 3]
    add("activation", {}, {"act": ["quantized_relu(4,1)", "quantized_tanh(4)", "quantized_bits(6,2,1)"][j % 3]},
        [dict(shape=s_) for s_ in shapes], "reuse", emode)
    # ---- conv1d / sepconv1d
    for cls in ("conv1d", "sepconv1d"):
      pad = ("valid", "same", "causal")[(j + (cls == "sepconv1d")) % 3]
      k, (st, dl) = 2 + j % 2, ((1, 1), (2, 1), (1, 2))[j % 3]
      ls = conv1d_lengths(pad, k, dl, j)
      geo = dict(filters=1 + (j + 1) % 3, kernel=k, strides=st, padding=pad, dilation=dl, use_bias=(j % 2 == 0), cin=2 + j % 2)
      if cls == "conv1d":
        geo["groups"] = 1
      else:
        geo["depth_multiplier"] = 1 + j % 2
      add(cls, geo, qsel(rng, SLOTS[cls], j + 1, auto=(j == 2)),
          [dict(length=l_, batch=B(b_)) for l_, b_ in zip(ls, (2, 1, 3))][:2 if mode == "functional" else 3], "reuse", mode)
    # ---- conv2d / sepconv2d / dwconv2d
    for ci, cls in enumerate(("conv2d", "sepconv2d", "dwconv2d")):
      pad = ("valid", "same")[(j + ci) % 2]
      k = [[2, 2], [3, 2], [1, 2]][(j + ci) % 3]
      st, dl = (([1, 1], [1, 1]), ([2, 1], [1, 1]), ([1, 1], [2, 1]))[(j + ci) % 3]
      hws = conv2d_hws(pad, k, dl, j)
      geo = dict(kernel=k, strides=st, padding=pad, dilation=dl, use_bias=((j + ci) % 3 != 0), cin=1 + (j + ci) % 2)
      if cls != "dwconv2d":
        geo["filters"] = 1 + (j + ci) % 3
      if cls == "conv2d":
        geo.update(groups=1, mask=False)
        if j % 3 == 1:
          geo["data_format"] = "channels_first"
      else:
        geo["depth_multiplier"] = 1 + (j + ci + 1) % 2
      add(cls, geo, qsel(rng, SLOTS[cls], j + ci + 2, auto=(j == ci)),
          [dict(hw=h_, batch=B(b_)) for h_, b_ in zip(hws, (1, 2, 3))][:2 if mode == "functional" else 3], "reuse", mode)
    # ---- average pooling: spatial size AND channel count change between calls
    pool = [[2, 2], [2, 3], [3, 3]][j % 3]
    pad = ("valid", "same")[j % 2]
    hws = [[pool[0] + 2, pool[1] + 1], [pool[0], pool[1]], [pool[0] + 1, 2 * pool[1]]] if pad == "valid" else [[5, 6], [1, 1], [2, 3]]
    geo = dict(pool=pool, strides=[None, [1, 1], [3, 3]][j % 3], padding=pad)
    if j % 3 == 2:
      geo["data_format"] = "channels_first"
    add("avgpool2d", geo, qsel(rng, SLOTS["avgpool2d"], j + 1),
        [dict(hw=h_, batch=B(b_), cin=2 if mode == "dynamic" else c_)
         for h_, b_, c_ in zip(hws, (2, 1, 1), (2, 1, 3))][:2 if mode == "functional" else 3],
        "reuse", mode)
    # ---- global average pooling: the pool AREA changes between calls (and repeats)
    hws = [[[3, 3], [3, 3], [6, 5], [2, 2]], [[1, 5], [4, 6], [2, 3], [1, 5]], [[4, 4], [8, 8]]][j % 3]
    geo = dict(keepdims=(j % 2 == 1))
    if j % 3 != 0:
      geo["data_format"] = ("channels_last", "channels_first")[j % 2]
    for qi in (1, 2 + j):     # always at least one quantized-reciprocal object per history shape
      add("globalavgpool2d", geo, qsel(rng, SLOTS["globalavgpool2d"], qi),
          [dict(hw=h_, batch=B(1 + (t + j) % 2), cin=2 if mode == "dynamic" else 1 + (t + j) % 3)
           for t, h_ in enumerate(hws)], "reuse", mode)
    # ---- scale shift
    shapes = [[[2, 3], [1, 2, 2], [3, 1, 2, 2]], [[1, 4], [2, 2, 3], [2, 2]], [[2, 3], [2, 2, 2]]][j % 3]
    add("scaleshift", dict(use_bias=(j % 2 == 0)), qsel(rng, SLOTS["scaleshift"], j),
        [dict(shape=s_) for s_ in shapes], "reuse", emode)
    # ---- recurrent layers: batch and number of time steps change between calls
    for ci, cls in enumerate(RNN):
      hard = (j + ci) % 3 == 2
      geo = dict(units=1 + (j + ci) % 3, in_dim=2 + j % 2, use_bias=((j + ci) % 3 != 1), impl=1 + (j + ci) % 2 if cls != "simplernn" else 1,
                 reset_after=(cls == "gru" and j % 2 == 1))
      bt = [[(2, 3), (1, 2), (3, 1)], [(1, 1), (2, 3), (2, 2)], [(2, 2), (2, 3)]][j % 3]
      if hard:
        bt = [(b_, min(t_, 2)) for b_, t_ in bt]
      add(cls, geo, rnn_q(rng, cls, j + ci, j, hard),
          [dict(batch=B(b_), steps=t_) for b_, t_ in bt], "reuse", mode)

  # ================================================================= format: the process-wide switch
  i = 0
  for oi, fm in enumerate(ORDERS):
    for cls in ("dense", "activation", "scaleshift") + RNN:
      i += 1
      none = (i % 5 == 4)
      if cls == "dense":
        u, ind = 2 + oi, 2 + (i % 2)
        geo = dict(units=u, use_bias=(oi != 1 or i % 2 == 0), in_dim=ind)
        calls = [dict(shape=[2, u, ind]), dict(shape=[1, 2, 3, ind]), dict(shape=[3, ind])]
        # twice: with and without bias, quantized and not
        add(cls, dict(geo, use_bias=True), qsel(rng, SLOTS[cls], i, force_none=False), calls[:2], "format", fmts=fm)
        add(cls, dict(geo, use_bias=True), qsel(rng, SLOTS[cls], i, force_none=True),
            [dict(shape=[1, u, 2, ind]), dict(shape=[2, 4, ind])], "format", fmts=fm)
        add(cls, dict(geo, use_bias=False), qsel(rng, SLOTS[cls], i + 1), calls[1:], "format", fmts=fm)
      elif cls == "activation":
        add(cls, {}, {"act": ACT[oi]}, [dict(shape=[2, 3, 2]), dict(shape=[1, 2, 2, 3])], "format", fmts=fm)
      elif cls == "scaleshift":
        add(cls, dict(use_bias=True), qsel(rng, SLOTS[cls], i, force_none=none),
            [dict(shape=[2, 3, 2]), dict(shape=[1, 2, 2, 2])], "format", fmts=fm)
      else:
        for impl in ((1,) if cls == "simplernn" else (1, 2)):
          geo = dict(units=1 + (i + impl) % 3, in_dim=2 + i % 2, use_bias=True, impl=impl,
                     reset_after=(cls == "gru" and (oi + impl) % 2 == 0))
          add(cls, geo, rnn_q(rng, cls, i + impl, oi, False, force_none=(oi == 2 and impl == 1)),
              [dict(batch=2, steps=2), dict(batch=1, steps=3)], "format", fmts=fm)
    for cls, dflt in HAS_DF.items():
      for dfa in ("default", None, "channels_last", "channels_first"):
        if dfa is None and not thorough and oi == 2:
          continue
        i += 1
        none = (i % 6 == 5)
        geo = {}
        if dfa != "default":
          geo["data_format"] = dfa
        if cls in ("conv1d", "sepconv1d"):
          pad = ("valid", "same", "causal")[i % 3]
          k, (st, dl) = 1 + i % 3, ((1, 1), (2, 1), (1, 2))[(i // 3) % 3]
          geo.update(filters=1 + i % 3, kernel=k, strides=st, padding=pad, dilation=dl, use_bias=(i % 4 != 3), cin=2 + i % 2)
          geo.update(dict(groups=1) if cls == "conv1d" else dict(depth_multiplier=1 + i % 2))
          ls = conv1d_lengths(pad, k, dl, i)
          calls = [dict(length=ls[0], batch=2), dict(length=ls[1], batch=1)]
        elif cls in ("conv2d", "sepconv2d", "dwconv2d"):
          pad = ("valid", "same")[i % 2]
          k = [[2, 2], [3, 2], [1, 2], [2, 3]][i % 4]
          st, dl = (([1, 1], [1, 1]), ([2, 1], [1, 1]), ([1, 1], [2, 1]))[(i // 2) % 3]
          geo.update(kernel=k, strides=st, padding=pad, dilation=dl, use_bias=(i % 4 != 3), cin=1 + i % 2)
          if cls != "dwconv2d":
            geo["filters"] = 1 + i % 3
          geo.update(dict(groups=1, mask=(i % 5 == 0)) if cls == "conv2d" else dict(depth_multiplier=1 + i % 2))
          hws = conv2d_hws(pad, k, dl, i)
          calls = [dict(hw=hws[0], batch=1), dict(hw=hws[1], batch=2)]
        elif cls == "avgpool2d":
          pool = [[2, 2], [2, 3], [3, 3], [1, 2]][i % 4]
          pad = ("valid", "same")[i % 2]
          geo.update(pool=pool, strides=[None, [1, 1], [2, 1]][i % 3], padding=pad)
          calls = [dict(hw=[pool[0] + 2, pool[1] + 2], batch=2, cin=2), dict(hw=[pool[0] + (pad == "same"), pool[1]], batch=1, cin=1)]
        else:
          geo.update(keepdims=(i % 2 == 1))
          calls = [dict(hw=[2 + i % 3, 3], batch=2, cin=2), dict(hw=[4, 1 + i % 4], batch=1, cin=3)]
        q = qsel(rng, SLOTS[cls], i, force_none=none, auto=(i % 7 == 3 and cls not in ("avgpool2d", "globalavgpool2d")))
        if cls == "globalavgpool2d" and i % 2 == 0 and not none:
          q["average"] = AVGQ[i % len(AVGQ)]
        add(cls, geo, q, calls, "format", fmts=fm)

  # ================================================================= rank: beyond the minimum / degenerate dims
  i = 0
  for r in (3, 4, 5):
    for ub in (True, False):
      for rep in range(1 if not thorough else 3):
        i += 1
        u, ind = 2 + (i % 3), 2 + i % 2
        shape = [[1 + i % 2, u, ind], [1, u, 2, ind], [1 + i % 2, u, 1, 2, ind]][r - 3]
        add("dense", dict(units=u, use_bias=ub, in_dim=ind), qsel(rng, SLOTS["dense"], i, force_none=(i % 6 == 5)),
            [dict(shape=shape)], "rank")
  conv1 = [  # (padding, kernel, strides, dilation, length, batch)
      ("same", 3, 1, 2, 1, 1), ("causal", 3, 1, 2, 1, 1), ("same", 2, 1, 3, 4, 1), ("valid", 2, 3, 1, 7, 1),
      ("same", 2, 3, 1, 5, 2), ("causal", 2, 3, 1, 4, 1), ("valid", 1, 2, 1, 1, 1), ("same", 3, 1, 1, 2, 1),
      ("valid", 3, 1, 2, 5, 1), ("causal", 1, 1, 1, 3, 2)]
  for cls in ("conv1d", "sepconv1d"):
    for t, (pad, k, st, dl, ln, b) in enumerate(conv1):
      for df in ("channels_last", "channels_first"):
        i += 1
        geo = dict(filters=1 + i % 3, kernel=k, strides=st, padding=pad, dilation=dl, use_bias=(i % 3 != 0), cin=1 + i % 3,
                   data_format=df)
        geo.update(dict(groups=1) if cls == "conv1d" else dict(depth_multiplier=1 + i % 2))
        add(cls, geo, qsel(rng, SLOTS[cls], i, force_none=(i % 7 == 6)), [dict(length=ln, batch=b)], "rank")
  # grouped causal channels_first: before /repo 6ddae0e the channel-axis pad of K.conv1d gave a legal (wrong)
  # grouped convolution here instead of an error
  for (f_, k_, d_, cin_) in ((6, 2, 2, 4), (3, 3, 2, 2)):
    i += 1
    add("conv1d", dict(filters=f_, kernel=k_, strides=1, padding="causal", dilation=d_, use_bias=(i % 2 == 0), cin=cin_,
                       groups=2 if cin_ == 4 else 1, data_format="channels_first"),
        qsel(rng, SLOTS["conv1d"], i), [dict(length=6, batch=2)], "rank")
  conv2 = [  # (padding, kernel, strides, dilation, hw, batch)
      ("same", [3, 3], [1, 1], [2, 2], [1, 1], 1), ("same", [2, 3], [1, 1], [2, 3], [3, 1], 1),
      ("valid", [2, 2], [3, 3], [1, 1], [7, 5], 1), ("same", [2, 2], [3, 2], [1, 1], [5, 1], 2),
      ("valid", [1, 1], [2, 2], [1, 1], [1, 1], 1), ("same", [3, 2], [1, 1], [1, 2], [2, 2], 1),
      ("valid", [1, 3], [1, 1], [1, 2], [1, 5], 1), ("same", [1, 1], [1, 3], [1, 1], [1, 4], 1)]
  for cls in ("conv2d", "sepconv2d", "dwconv2d"):
    for t, (pad, k, st, dl, hw, b) in enumerate(conv2):
      if not thorough and cls != "conv2d" and t % 2 == 1:
        continue
      i += 1
      geo = dict(kernel=k, strides=st, padding=pad, dilation=dl, use_bias=(i % 3 != 0), cin=1 + i % 2)
      if cls != "dwconv2d":
        geo["filters"] = 1 + i % 3
      geo.update(dict(groups=1, mask=False) if cls == "conv2d" else dict(depth_multiplier=1 + i % 2))
      if i % 3 == 1:
        geo["data_format"] = "channels_first"
      add(cls, geo, qsel(rng, SLOTS[cls], i, force_none=(i % 7 == 6)), [dict(hw=hw, batch=b)], "rank")
  for t, (pool, st, pad, hw) in enumerate([([2, 2], [3, 3], "valid", [5, 8]), ([2, 2], [3, 3], "same", [4, 5]),
                                           ([3, 3], None, "same", [1, 1]), ([2, 3], [1, 1], "same", [1, 4]),
                                           ([1, 2], [2, 2], "valid", [1, 2]), ([3, 3], [1, 2], "valid", [3, 3])]):
    i += 1
    add("avgpool2d", dict(pool=pool, strides=st, padding=pad), qsel(rng, SLOTS["avgpool2d"], i + 1),
        [dict(hw=hw, batch=1, cin=1 + t % 2)], "rank")
  for t, hw in enumerate([[1, 1], [1, 7], [5, 1], [3, 5]]):
    i += 1
    add("globalavgpool2d", dict(keepdims=(t % 2 == 0)), qsel(rng, SLOTS["globalavgpool2d"], t + 1),
        [dict(hw=hw, batch=1, cin=1 + t % 2)], "rank")
  for ci, cls in enumerate(RNN):
    for (b, t) in ((1, 1), (1, 4)):
      i += 1
      geo = dict(units=1 + i % 3, in_dim=1 + i % 2, use_bias=True, impl=1 + (i % 2 if cls != "simplernn" else 0),
                 reset_after=(cls == "gru" and i % 2 == 0))
      add(cls, geo, rnn_q(rng, cls, i, i, False), [dict(batch=b, steps=t)], "rank")

  # ================================================================= format (appended: keeps the grid above unchanged)
  # QSeparableConv1D with an AUTO-scaled depthwise quantizer and a kernel whose positions differ in magnitude
  # (`skew_kernel`), under the three orders of the channels_first switch: a layer that hands anything but the
  # STORED kernel to the quantizer (the kernel expanded to 4-D, defect repaired in /repo 871ddb1) reduces the
  # scale over other axes and gets other values — deterministically, not only for lucky weights
  i = 0
  for oi, fm in enumerate(ORDERS):
    for dfa in ("default", "channels_first", "channels_last"):
      i += 1
      pad, k = ("valid", "same", "causal")[i % 3], 2 + i % 2
      geo = dict(filters=1 + i % 3, kernel=k, strides=1, padding=pad, dilation=1 + (i % 4 == 0), use_bias=(i % 2 == 0),
                 cin=1 + i % 2, depth_multiplier=1 + (i // 2) % 2, skew_kernel=True)
      if dfa != "default":
        geo["data_format"] = dfa
      ls = conv1d_lengths(pad, k, geo["dilation"], i)
      add("sepconv1d", geo, qsel(rng, SLOTS["sepconv1d"], i, auto=True),
          [dict(length=ls[0], batch=2), dict(length=ls[1], batch=1)], "format", fmts=fm)
  return G


# ----------------------------------------------------------------------------- running the real code

def resolved_df(G):
  """the data format the layer works in: its constructor argument, else the constructor's default (a literal
  for QConv1D, `K.image_data_format()` AT CONSTRUCTION for the others)"""
  if G.cls not in HAS_DF:
    return DEFAULT_FMT
  v = G.geo["data_format"] if "data_format" in G.geo else HAS_DF[G.cls]
  return v or G.fmts[0]


def make_x(c, rng, df):
  g, cls = c.geo, c.cls
  last = df == "channels_last"
  if cls == "dense":
    shp = g["shape"] if "shape" in g else [g["batch"]] + [3] * (g["rank"] - 2) + [g["in_dim"]]
    return dy(rng, shp, 4, -8, 8)
  if cls == "activation":
    return dy(rng, g["shape"], 16, -40, 40)
  if cls == "scaleshift":
    return dy(rng, g["shape"], 4, -8, 8)
  if cls in ("conv1d", "sepconv1d"):
    return dy(rng, [g["batch"], g["length"], g["cin"]] if last else [g["batch"], g["cin"], g["length"]], 4, -8, 8)
  if cls in RNN:
    return dy(rng, [g["batch"], g["steps"], g["in_dim"]], 4, -6, 6)
  return dy(rng, [g["batch"]] + g["hw"] + [g["cin"]] if last else [g["batch"], g["cin"]] + g["hw"], 4, -8, 8)


def form_ksz(v, form):
  """the same kernel size / strides / dilation value in another accepted argument form"""
  if v is None or form == "asis":
    return v
  lst = list(v) if isinstance(v, (list, tuple)) else [v]
  if form == "int":
    return lst[0] if len(set(lst)) == 1 else tuple(lst)
  return tuple(lst) if form == "tuple" else list(lst)


def form_q(s, form, rng):
  """the quantizer argument as the configuration string, as a quantizer object, or as an object that has
  already been used stand-alone on a tensor of another shape"""
  import tensorflow as tf
  if s is None or form == "string":
    return s
  q = fresh_q(s)
  if form == "used":
    q(tf.constant(dy(rng, [3, 5], 16, -20, 20)))
  return q


def form_x(x, form):
  import tensorflow as tf
  if form == "numpy":
    return x
  if form == "variable":
    return tf.Variable(x)
  return tf.constant(x)


def build_pair(G, rng):
  """(quantized layer, factory of stock layers or None).  `mk(plain=False)`: the stock TWIN of the ties gets
  the data format the harness' model resolves (G.df) explicitly; `mk(plain=True)`: a stock layer with literally
  the constructor arguments of the quantized one (clause `ctor_default`)."""
  import tensorflow as tf
  import qkeras as Q
  KL = tf.keras.layers
  g, q, cls = G.geo, G.q, G.cls
  kf = G.forms.get("ksz", "asis")
  qf = G.forms.get("q", "string")
  qa = lambda slot: form_q(q.get(slot), qf, rng)   # noqa: E731
  dfkw = {"data_format": g["data_format"]} if "data_format" in g else {}
  sdf = lambda plain: dfkw if plain or cls not in HAS_DF else {"data_format": G.df}   # noqa: E731
  if cls == "dense":
    u = np.int64(g["units"]) if kf == "list" else g["units"]
    return (Q.QDense(u, use_bias=g["use_bias"], kernel_quantizer=qa("kernel"), bias_quantizer=qa("bias"),
                     activation=qa("act")),
            lambda plain=False: KL.Dense(g["units"], use_bias=g["use_bias"]))
  if cls == "activation":
    return Q.QActivation(qa("act")), None
  if cls == "scaleshift":
    return Q.QScaleShift(weight_quantizer=qa("weight"), bias_quantizer=qa("bias"), use_bias=g["use_bias"],
                         activation=qa("act")), None
  if cls in ("conv1d", "sepconv1d", "conv2d", "sepconv2d", "dwconv2d"):
    base = dict(strides=g["strides"], padding=g["padding"], dilation_rate=g["dilation"], use_bias=g["use_bias"])
    skw = lambda plain: dict(base, **sdf(plain))   # noqa: E731
    qkw = dict(base, strides=form_ksz(g["strides"], kf), dilation_rate=form_ksz(g["dilation"], kf), **dfkw)
    ks = form_ksz(g["kernel"], kf)
    if cls == "conv1d":
      return (Q.QConv1D(g["filters"], ks, groups=g["groups"], kernel_quantizer=qa("kernel"),
                        bias_quantizer=qa("bias"), activation=qa("act"), **qkw),
              lambda plain=False: KL.Conv1D(g["filters"], g["kernel"], groups=g["groups"], **skw(plain)))
    if cls == "conv2d":
      mask = None
      if g.get("mask"):
        mask = rng.integers(0, 2, size=g["kernel"]).astype(np.float32)
        mask[0, 0] = 0.0
      G.mask = mask
      return (Q.QConv2D(g["filters"], ks, groups=g["groups"], kernel_quantizer=qa("kernel"),
                        bias_quantizer=qa("bias"), activation=qa("act"), mask=mask, **qkw),
              lambda plain=False: KL.Conv2D(g["filters"], g["kernel"], groups=g["groups"], **skw(plain)))
    if cls == "sepconv1d":
      return (Q.QSeparableConv1D(g["filters"], ks, depth_multiplier=g["depth_multiplier"],
                                 depthwise_quantizer=qa("depthwise"), pointwise_quantizer=qa("pointwise"),
                                 bias_quantizer=qa("bias"), activation=qa("act"), **qkw),
              lambda plain=False: KL.SeparableConv1D(g["filters"], g["kernel"], depth_multiplier=g["depth_multiplier"],
                                                     **skw(plain)))
    if cls == "sepconv2d":
      return (Q.QSeparableConv2D(g["filters"], ks, depth_multiplier=g["depth_multiplier"],
                                 depthwise_quantizer=qa("depthwise"), pointwise_quantizer=qa("pointwise"),
                                 bias_quantizer=qa("bias"), activation=qa("act"), **qkw),
              lambda plain=False: KL.SeparableConv2D(g["filters"], g["kernel"], depth_multiplier=g["depth_multiplier"],
                                                     **skw(plain)))
    return (Q.QDepthwiseConv2D(ks, depth_multiplier=g["depth_multiplier"],
                               depthwise_quantizer=qa("depthwise"), bias_quantizer=qa("bias"), activation=qa("act"), **qkw),
            lambda plain=False: KL.DepthwiseConv2D(g["kernel"], depth_multiplier=g["depth_multiplier"], **skw(plain)))
  if cls == "avgpool2d":
    kw = dict(pool_size=tuple(g["pool"]), strides=None if g["strides"] is None else tuple(g["strides"]),
              padding=g["padding"])
    qkw = dict(kw, pool_size=form_ksz(g["pool"], kf if kf != "asis" else "tuple"), **dfkw)
    return (Q.QAveragePooling2D(average_quantizer=qa("average"), activation=qa("act"), **qkw),
            lambda plain=False: KL.AveragePooling2D(**kw, **sdf(plain)))
  if cls == "globalavgpool2d":
    kw = dict(keepdims=g["keepdims"])
    return (Q.QGlobalAveragePooling2D(average_quantizer=qa("average"), activation=qa("act"), **kw, **dfkw),
            lambda plain=False: KL.GlobalAveragePooling2D(**kw, **sdf(plain)))
  raise ValueError(cls)


def cfg_of(G):
  """protocol form of the configuration (what `call` looks at) — constructor arguments and the two
  process-level data formats only; nothing of the shapes of the calls"""
  g, q, cls = G.geo, G.q, G.cls
  slots = SLOTS[cls]
  cfg = {"has_q": [int(q.get(s) is not None) for s in slots], "has_act": q.get("act") is not None,
         "use_bias": bool(g.get("use_bias", True)), "image_df": G.fmts[1], "data_format": G.df}
  if cls in ("conv1d", "sepconv1d"):
    cfg.update(strides=[g["strides"]], dilation=[g["dilation"]], padding=g["padding"], kernel=g["kernel"])
  if cls in ("conv2d", "sepconv2d", "dwconv2d"):
    cfg.update(strides=g["strides"], dilation=g["dilation"], padding=g["padding"], has_mask=bool(g.get("mask")))
  if cls == "avgpool2d":
    cfg.update(pool=g["pool"], pool_strides=g["strides"] if g["strides"] is not None else g["pool"],
               padding=g["padding"], area=int(np.prod(g["pool"])))
  if cls == "globalavgpool2d":
    cfg.update(keepdims=g["keepdims"])      # NO area: the model takes it from the tensor of each call
  if cls in RNN:
    cfg.update(units=g["units"], impl=g["impl"], reset_after=g["reset_after"])
  return cfg


def catch(c, e):
  c.err = (type(e).__name__, str(e)[:400])


def run_feedforward(G):
  import tensorflow as tf
  K = tf.keras.backend
  g, q, cls = G.geo, G.q, G.cls
  rng = G.rng
  G.df = resolved_df(G)
  xs = [make_x(c, rng, G.df) for c in G.cases]
  for c, x in zip(G.cases, xs):
    c.x = x
  xform = G.forms.get("x", "tensor")
  try:
    # ---------------------------------------------------------------- construction (and `build`)
    K.set_image_data_format(G.fmts[0])
    ql, mk_stock = build_pair(G, rng)
    sls = [mk_stock() if mk_stock else None for _ in G.cases]
    if cls in HAS_DF:
      # clause ctor_default: the same constructor arguments resolve to the same data format in both classes
      G.ctor_df = (str(getattr(ql, "data_format", None)), str(mk_stock(plain=True).data_format))
      if G.ctor_df[0] != G.df:
        # the quantized class resolves its data format differently from the harness' model of the constructor
        # signatures: the inputs (shaped for G.df) are not inputs of this layer — reported as `ctor_default`
        G.skip = True
        G.lines = []
        return
    model = None
    if G.mode in ("functional", "dynamic"):
      try:
        if G.mode == "dynamic":
          shp = [None if (k_ != (len(xs[0].shape) - 2 if G.df == "channels_last" else 0)) else int(v)
                 for k_, v in enumerate(xs[0].shape[1:])]
          ins = tf.keras.Input(shape=shp)
          model = tf.keras.Model(ins, ql(ins))
        else:
          ins = [tf.keras.Input(shape=x.shape[1:]) for x in xs]
          model = tf.keras.Model(ins, [ql(t) for t in ins])
      except Exception as e:  # pylint: disable=broad-except
        for c in G.cases:
          catch(c, e)
    elif cls not in ("activation", "avgpool2d", "globalavgpool2d"):
      ql.build(xs[0].shape)
    def new_weights():
      W_ = []
      for w in ql.weights:
        shp = [int(v) for v in w.shape]
        W_.append(dy(rng, shp, 16, -20, 20) if len(shp) > 1 or cls == "scaleshift" else dy(rng, shp, 16, -24, 24))
      if g.get("skew_kernel") and W_:
        # kernel position 0 small (|k| <= 2, one entry exactly 2/16), the other positions large (16 <= |k| <= 20);
        # still k/16, so every sum stays exact
        k0 = W_[0]
        k0[0] = dy(rng, k0[0].shape, 16, -2, 2)
        k0[0].flat[0] = np.float32(2.0 / 16.0)
        k0[1:] = dy(rng, k0[1:].shape, 16, 16, 20) * np.where(rng.random(k0[1:].shape) < 0.5, -1, 1).astype(np.float32)
      if W_:
        ql.set_weights(W_)
      return W_

    W = new_weights()
    G.W = W
    n_w = len(W)
    epochs = [(W, [])]          # (weight values, positions of the calls made with them)
    ckw = {"training": G.forms["training"]} if "training" in G.forms else {}
    # ---------------------------------------------------------------- the calls, one after the other
    K.set_image_data_format(G.fmts[1])
    if G.mode == "functional":
      epochs[0][1].extend(range(len(G.cases)))
      if model is not None:
        try:
          ys = model([form_x(x, xform) for x in xs], **ckw)
          ys = ys if isinstance(ys, (list, tuple)) else [ys]
          for c, y in zip(G.cases, ys):
            c.impl = [np.asarray(y, dtype=np.float32)]
        except Exception as e:  # pylint: disable=broad-except
          for c in G.cases:
            catch(c, e)
    elif G.mode == "dynamic":
      epochs[0][1].extend(range(len(G.cases)))
      for c, x in zip(G.cases, xs):
        if model is not None:
          try:
            c.impl = [np.asarray(model(form_x(x, xform), **ckw), dtype=np.float32)]
          except Exception as e:  # pylint: disable=broad-except
            catch(c, e)
    else:
      for c, x in zip(G.cases, xs):
        if G.reweigh is not None and c.pos == G.reweigh and n_w:
          epochs.append((new_weights(), []))
        epochs[-1][1].append(c.pos)
        try:
          c.impl = [np.asarray(ql(form_x(x, xform), **ckw), dtype=np.float32)]
        except Exception as e:  # pylint: disable=broad-except
          catch(c, e)
    try:
      rep = ql.get_quantizers() if hasattr(ql, "get_quantizers") else None
      G.reported = None if rep is None else [None if r is None else str(r) for r in rep]
    except Exception as e:  # pylint: disable=broad-except
      G.reported = "ERR " + type(e).__name__
    if rep is not None and not isinstance(G.reported, str):
      G.rva = reported_vs_applied(ql, cls, epochs[-1][0])
    # ---------------------------------------------------------------- the property's oracle on the real code:
    # per call a FRESH stock layer with weights q_i(w_i) from quantizer objects built here, then the activation
    wq = [q.get(s) for s in SLOTS[cls] if s not in ("state", "average")]
    if not g.get("use_bias", True):
      wq = wq[:n_w]
    act = (lambda t: t) if q.get("act") is None else fresh_q(q["act"])
    wslots = [sl_ for sl_ in SLOTS[cls] if sl_ not in ("state", "average")]
    tr = [sl_ in TRAINABLE.get(cls, []) for sl_ in wslots]
    if q.get("act") is not None and q["act"] not in SPEC:
      raise core.InfraError("activation %s has no element-wise model" % q["act"])
    G.lines = []
    for ei, (W, members) in enumerate(epochs):
      QW = [apply_q(s, w, t) for s, w, t in zip(wq, W, tr)]
      qrecip = {}
      for lp, pos in enumerate(members):
        c, x, sl = G.cases[pos], xs[pos], sls[pos]
        c.line_off, c.line_pos = ei, lp
        xt = tf.constant(x)
        if cls == "activation":
          c.oracle = [np.asarray(act(xt), dtype=np.float32)]
        elif cls == "scaleshift":
          out = xt * tf.constant(QW[0])
          if g["use_bias"]:
            out = tf.constant(QW[1]) + out
          c.oracle = [np.asarray(act(out), dtype=np.float32)]
          out = xt * tf.constant(W[0])
          if g["use_bias"]:
            out = tf.constant(W[1]) + out
          c.stock_raw = [np.asarray(out, dtype=np.float32)]
        elif cls == "avgpool2d":
          c.stock_raw = [np.asarray(sl(xt), dtype=np.float32)]
          if q["average"] is None:
            c.oracle = [np.asarray(act(sl(xt)), dtype=np.float32)]
          else:
            area = int(np.prod(g["pool"]))
            qr = np.float32(np.asarray(fresh_q(q["average"])(1.0 / area)))
            qrecip[area] = qr
            c.oracle = [np.asarray(act(sl(xt * np.float32(area)) * qr), dtype=np.float32)]
        elif cls == "globalavgpool2d":
          c.stock_raw = [np.asarray(sl(xt), dtype=np.float32)]
          if q["average"] is None:
            c.oracle = [np.asarray(act(sl(xt)), dtype=np.float32)]
          else:
            area = int(np.prod(c.geo["hw"]))      # of THIS call
            qr = np.float32(np.asarray(fresh_q(q["average"])(1.0 / area)))
            qrecip[area] = qr
            ax = (1, 2) if G.df == "channels_last" else (2, 3)
            s = np.sum(x.astype(np.float64), axis=ax, keepdims=g["keepdims"]).astype(np.float32)   # exact: short dyadics
            c.oracle = [np.asarray(act(tf.constant(s * qr)), dtype=np.float32)]
        else:
          try:
            sl.build(x.shape)
            QWm = list(QW)
            if cls == "conv2d" and G.mask is not None:
              QWm[0] = QW[0] * G.mask.reshape(G.mask.shape + (1, 1))
            sl.set_weights(QWm)
            c.oracle = [np.asarray(act(sl(xt)), dtype=np.float32)]
            sl.set_weights(W)
            c.stock_raw = [np.asarray(sl(xt), dtype=np.float32)]
          except Exception as e:  # pylint: disable=broad-except
            raise core.InfraError("stock %s layer failed on %s: %s" % (cls, c.label, str(e)[:300]))
      # -------------------------------------------------------------- the model's input line: one per OBJECT and
      # weight epoch, with the whole list of calls made in it
      quant = []
      slots = SLOTS[cls]
      for i, s in enumerate(slots):
        qs = q.get(s)
        if s == "average":
          if qs is None:
            quant.append(None)
          else:
            quant.append({"k": "table", "e": [[{"s": [], "d": [core.rj(F(1, a))]}, tj(np.float32(v).reshape(()))]
                                              for a, v in sorted(qrecip.items())]})
          continue
        t = s in TRAINABLE.get(cls, [])
        if i >= len(W):
          quant.append(None if qs is None else qspec(qs, [], t))
          continue
        # every layer quantizes its weights AS STORED (QSeparableConv1D too, since /repo 871ddb1): a table
        # quantizer is given at the stored tensor only, so a layer that quantizes anything else is rejected
        quant.append(qspec(qs, [W[i]], t))
      line = {"op": "layer", "cls": cls, "cfg": cfg_of(G), "xs": [tj(xs[pos]) for pos in members],
              "weights": [tj(w) for w in W], "quant": quant, "actv": [qspec(q.get("act"))]}
      if cls == "conv2d" and G.mask is not None:
        line["mask"] = tj(G.mask.reshape(G.mask.shape + (1, 1)))
      G.lines.append(line)
  finally:
    K.set_image_data_format(DEFAULT_FMT)


def run_recurrent(G):
  import tensorflow as tf
  import qkeras as Q
  K = tf.keras.backend
  KL = tf.keras.layers
  g, q, cls = G.geo, G.q, G.cls
  rng = G.rng
  G.df = DEFAULT_FMT
  u = g["units"]
  xs = [make_x(c, rng, G.df) for c in G.cases]
  for c, x in zip(G.cases, xs):
    c.x = x
  qf = G.forms.get("q", "string")
  xform = G.forms.get("x", "tensor")
  qa = lambda slot: form_q(q.get(slot), qf, rng)   # noqa: E731
  try:
    K.set_image_data_format(G.fmts[0])
    kw = dict(use_bias=g["use_bias"], kernel_quantizer=qa("kernel"), recurrent_quantizer=qa("recurrent"),
              bias_quantizer=qa("bias"), state_quantizer=qa("state"), activation=qa("act"),
              return_sequences=True, return_state=True)
    skw = lambda: dict(use_bias=g["use_bias"], activation=fresh_q(q["act"]))   # noqa: E731
    if cls == "simplernn":
      ql = Q.QSimpleRNN(u, **kw)
      mk_cell = lambda: KL.SimpleRNNCell(u, **skw())   # noqa: E731
    elif cls == "lstm":
      ql = Q.QLSTM(u, recurrent_activation=qa("ract"), implementation=g["impl"], **kw)
      mk_cell = lambda: KL.LSTMCell(u, recurrent_activation=fresh_q(q["ract"]), implementation=g["impl"], **skw())   # noqa: E731
    else:
      ql = Q.QGRU(u, recurrent_activation=qa("ract"), implementation=g["impl"], reset_after=g["reset_after"], **kw)
      mk_cell = lambda: KL.GRUCell(u, recurrent_activation=fresh_q(q["ract"]), implementation=g["impl"],   # noqa: E731
                                   reset_after=g["reset_after"], **skw())
    cells = [mk_cell() for _ in range(2 * len(G.cases))]
    model = None
    n_out = 3 if cls == "lstm" else 2
    if G.mode == "dynamic":
      try:
        ins = tf.keras.Input(shape=(None, g["in_dim"]))
        model = tf.keras.Model(ins, list(ql(ins)))
      except Exception as e:  # pylint: disable=broad-except
        for c in G.cases:
          catch(c, e)
    elif G.mode == "functional":
      try:
        ins = [tf.keras.Input(shape=x.shape[1:]) for x in xs]
        outs = []
        for t in ins:
          outs += list(ql(t))
        model = tf.keras.Model(ins, outs)
      except Exception as e:  # pylint: disable=broad-except
        for c in G.cases:
          catch(c, e)
    else:
      ql.build(xs[0].shape)
    def new_weights():
      W_ = [dy(rng, [int(v) for v in w.shape], 16, -20, 20) for w in ql.weights]
      ql.set_weights(W_)
      return W_

    W = new_weights()
    G.W = W
    Ws = [W] * len(G.cases)      # the weight values in force at each call
    ckw = {"training": G.forms["training"]} if "training" in G.forms else {}
    K.set_image_data_format(G.fmts[1])
    if G.mode == "functional":
      if model is not None:
        try:
          ys = list(model([form_x(x, xform) for x in xs], **ckw))
          for k_, c in enumerate(G.cases):
            c.impl = [np.asarray(o, dtype=np.float32) for o in ys[k_ * n_out:(k_ + 1) * n_out]]
        except Exception as e:  # pylint: disable=broad-except
          for c in G.cases:
            catch(c, e)
    elif G.mode == "dynamic":
      for c, x in zip(G.cases, xs):
        if model is not None:
          try:
            c.impl = [np.asarray(o, dtype=np.float32) for o in model(form_x(x, xform), **ckw)]
          except Exception as e:  # pylint: disable=broad-except
            catch(c, e)
    else:
      for c, x in zip(G.cases, xs):
        if G.reweigh is not None and c.pos == G.reweigh:
          W = new_weights()
          Ws = Ws[:c.pos] + [W] * (len(G.cases) - c.pos)
        try:
          outs = ql(form_x(x, xform), **ckw)
          c.impl = [np.asarray(o, dtype=np.float32) for o in outs]      # sequence of h, final h [, final c]
        except Exception as e:  # pylint: disable=broad-except
          catch(c, e)
    rep = ql.get_quantizers()
    G.reported = [None if r is None else str(r) for r in rep]
    G.rva = reported_vs_applied(ql, cls, W, dy(rng, [2, u], 8, -8, 8))
    wq = [q["kernel"], q["recurrent"], q["bias"]][:len(W)]
    tr = [True, True, False]
    sq = (lambda t: t) if q["state"] is None else fresh_q(q["state"])

    def stock_run(cell, x, weights, state_q):
      B, T = x.shape[0], x.shape[1]
      cell.build((B, g["in_dim"]))
      cell.set_weights(weights)
      st = [tf.zeros((B, u))] * (2 if cls == "lstm" else 1)
      seq = []
      for t in range(T):
        out, st = cell(tf.constant(x[:, t, :]), [state_q(s) for s in st])
        st = list(st) if isinstance(st, (list, tuple)) else [st]
        seq.append(np.asarray(out, dtype=np.float32))
      return [np.stack(seq, axis=1)] + [np.asarray(s, dtype=np.float32) for s in st]

    if q["state"] is not None and q["state"] not in SPEC:
      raise core.InfraError("state quantizer without element-wise model")
    G.lines = []
    for k_, (c, x) in enumerate(zip(G.cases, xs)):
      c.line_off, c.line_pos = k_, 0
      W = Ws[k_]
      QW = [apply_q(s, w, t) for s, w, t in zip(wq, W, tr)]
      quant = [qspec(s, [w], t) for s, w, t in zip(wq, W, tr)]
      while len(quant) < 3:
        quant.append(None if q["bias"] is None else qspec(q["bias"], []))
      quant.append(qspec(q["state"]))
      try:
        c.oracle = stock_run(cells[2 * k_], x, QW, sq)
      except Exception as e:  # pylint: disable=broad-except
        raise core.InfraError("stock %s cell failed: %s" % (cls, e))
      c.stock_raw = stock_run(cells[2 * k_ + 1], x, W, lambda t: t)
      B, T = x.shape[0], x.shape[1]
      G.lines.append({"op": "cell", "cls": cls, "cfg": cfg_of(G), "xs": [tj(x[:, t, :]) for t in range(T)],
                      "states": [tj(np.zeros((B, u), np.float32))] * (2 if cls == "lstm" else 1),
                      "weights": [tj(w) for w in W], "quant": quant, "actv": [qspec(q["act"]), qspec(q.get("ract"))]})
  finally:
    K.set_image_data_format(DEFAULT_FMT)



# ----------------------------------------------------------------------------- shared quantizer OBJECTS
# (strengthening round, seed C11-8).  A SCENE = a few python quantizer objects, one or two layers whose
# quantizer arguments are THOSE objects (the same object in several roles of one layer and / or in two layers),
# and a sequence of events `new i` (construct layer i) / `call i`.  Ties:
#   tie 1'  identity pattern of `get_quantizers()` / `<slot>_quantizer_internal` and the (alpha, symmetric) state
#           of every object after every construction  ==  `QObj.constructAll` (drivers/C11.lean op `ctor`)
#   clause reported_equals_applied   get_quantizers()[i] and the object `call` uses for slot i give the same
#           tensor on the layer's own weight i (state slot: on a state-shaped tensor), bit for bit, at call time
#   clause dropin   layer(x) == stock layer on get_quantizers()[i](w_i) — the REPORTED objects, at call time
#   clause reported (tie 3)  str(get_quantizers()[i]) == a fresh twin of the configuration, switched iff the model's
#           heap says the object was switched

QOBJ_KINDS = ["quantized_bits(4,0,1)", "ternary()", "quantized_bits(4,0,0)", "binary()", "quantized_bits(4,0,1,alpha=1)",
              "quantized_po2(4)", "quantized_bits(3,0,1)", "quantized_bits(4,0,1,alpha='auto_po2')"]
QOBJ_STATE_KINDS = ["quantized_bits(4,0,1)", "quantized_bits(4,0,0)", "quantized_bits(6,2,1)", "quantized_bits(4,0,1,alpha=1)"]
SH_NSLOTS = {"dense": 2, "conv1d": 2, "conv2d": 2, "dwconv2d": 2, "scaleshift": 2, "sepconv1d": 3, "sepconv2d": 3,
             "simplernn": 4, "lstm": 4, "gru": 4}
SH_TRAIN = {"dense": [0], "conv1d": [0], "conv2d": [0], "dwconv2d": [0], "scaleshift": [0, 1], "sepconv1d": [0, 1],
            "sepconv2d": [0, 1], "simplernn": [0, 1], "lstm": [0, 1], "gru": [0, 1]}
SH_PATTERNS2 = [[0, 0], [0, 1], [1, 0]]
SH_PATTERNS3 = [[0, 0, 0], [0, 1, 1], [0, 0, None], [1, 0, 0], [0, 1, 0]]
SH_PATTERNS4 = [[0, 0, 0, None], [0, 0, 0, 0], [0, 1, 0, None], [0, 1, 2, 1], [0, 0, None, None], [0, 1, 1, None],
                [0, 1, 2, 2], [0, 1, None, 0], [1, 0, 0, None], [0, 1, 2, 0]]


class Scene:
  _n = 0

  def __init__(self, objs, layers, events, wscale, used=False):
    self.objs, self.layers, self.events, self.wscale, self.used = objs, layers, events, wscale, used
    self.sid = Scene._n
    Scene._n += 1
    self.calls = []        # dicts: layer index, label, err, problems ...
    self.snaps = []        # after each `new`: (number of layers constructed, states of all objects)
    self.ident = []        # per layer: (internal ids, reported ids)
    self.reported = []     # per layer: reported strings at the end
    self.line0 = None

  def label(self, li=None):
    d = {"objects": self.objs, "layers": [dict(cls=L["cls"], slots=L["slots"], **L.get("geo", {})) for L in self.layers],
         "events": self.events, "weights": self.wscale, "used_before": self.used}
    return "shared #%d%s %s" % (self.sid, "" if li is None else " layer %d" % li, json.dumps(d, sort_keys=True))


def gen_shared(rng, tier):
  thorough = tier != "quick"
  S = []
  n = 0
  # ---- one layer, every class with >= 2 quantizer slots, every aliasing pattern, object kinds rotating
  for cls, ns in SH_NSLOTS.items():
    pats = {2: SH_PATTERNS2, 3: SH_PATTERNS3, 4: SH_PATTERNS4}[ns]
    for pi, pat in enumerate(pats):
      reps = 2 if (cls in RNN or thorough) else 1
      for rep in range(reps):
        n += 1
        nobj = 1 + max(v for v in pat if v is not None)
        objs = []
        for o in range(nobj):
          in_state = ns == 4 and pat[3] == o
          kinds = QOBJ_STATE_KINDS if in_state else QOBJ_KINDS
          # object 0 of the first repetition is always the plain `quantized_bits(4,0,1)` (alpha=None)
          objs.append(kinds[0] if (o == 0 and rep == 0) else kinds[(n + 3 * o + rep) % len(kinds)])
        geo = {}
        if cls in RNN:
          geo = dict(impl=1 + (n % 2 if cls != "simplernn" else 0), reset_after=(cls == "gru" and n % 3 == 0),
                     use_bias=not (pat[2] is None and n % 2 == 0))
        elif cls != "scaleshift":
          geo = dict(use_bias=not (pat[-1] is None))
        S.append(Scene(objs, [dict(cls=cls, slots=pat, geo=geo)], [["new", 0], ["call", 0], ["call", 0]][:2 + (n % 3 == 0)],
                       ("small", "large", "small")[n % 3], used=(n % 4 == 1)))
  # ---- one object in TWO layers
  pairs = [
      (("dense", [0, 1]), ("conv1d", [1, 0])), (("lstm", [1, 1, 0, 0]), ("dense", [0, None])),
      (("dense", [0, 0]), ("lstm", [0, 0, 0, None])), (("gru", [0, 1, 1, None]), ("simplernn", [1, 0, 0, 0])),
      (("sepconv2d", [1, 1, 0]), ("dwconv2d", [0, 1])), (("scaleshift", [0, 1]), ("conv2d", [1, 0])),
      (("simplernn", [1, 2, 0, 0]), ("sepconv1d", [0, 2, 1])), (("conv2d", [1, 0]), ("gru", [0, 0, 1, None]))]
  orders = [[["new", 0], ["new", 1], ["call", 0], ["call", 1]],
            [["new", 0], ["call", 0], ["new", 1], ["call", 0], ["call", 1]],       # B constructed AFTER A was used
            [["new", 0], ["new", 1], ["call", 1], ["call", 0], ["call", 1]]]
  for pi, (A, B) in enumerate(pairs):
    for oi, ev in enumerate(orders):
      if not thorough and (pi + oi) % 3 == 2:
        continue
      n += 1
      nobj = 1 + max(v for v in A[1] + B[1] if v is not None)
      st_objs = {v for (c_, pat) in (A, B) if SH_NSLOTS[c_] == 4 for v in [pat[3]] if v is not None}
      objs = []
      for o in range(nobj):
        kinds = QOBJ_STATE_KINDS if o in st_objs else QOBJ_KINDS
        objs.append(kinds[0] if o == 0 else kinds[(n + 3 * o) % len(kinds)])
      Ls = []
      for (c_, pat) in (A, B):
        geo = {}
        if c_ in RNN:
          geo = dict(impl=1 + (n % 2 if c_ != "simplernn" else 0), reset_after=(c_ == "gru" and n % 2 == 0), use_bias=True)
        elif c_ != "scaleshift":
          geo = dict(use_bias=not (pat[-1] is None))
        Ls.append(dict(cls=c_, slots=pat, geo=geo))
      S.append(Scene(objs, Ls, ev, ("small", "large")[n % 2], used=(n % 3 == 0)))
  return S


SH_SLOTNAMES = SLOTS


def qobj_state(q, kind):
  """the protocol form of a python quantizer object's state (what `QObj.QState` holds)"""
  import qkeras.quantizers as QQ
  a = getattr(q, "alpha", None)
  sets_sym = isinstance(q, tuple(c_ for c_ in (getattr(QQ, "quantized_bits", None), getattr(QQ, "quantized_linear", None))
                                 if c_ is not None))
  # `has`: the object's class has its OWN `_set_trainable_parameter` (BaseQuantizer's is `pass`: the po2 / relu
  # families inherit the no-op, which the model treats like "no method")
  from qkeras.base_quantizer import BaseQuantizer
  meth = getattr(type(q), "_set_trainable_parameter", None)
  has = meth is not None and meth is not getattr(BaseQuantizer, "_set_trainable_parameter", None)
  return {"kind": kind, "has": bool(has), "sets_symmetric": bool(sets_sym),
          "alpha": None if a is None else (0 if isinstance(a, str) and a == "auto_po2" else 1),
          "symmetric": bool(getattr(q, "symmetric", False))}


def sh_build(L, objs, rng):
  """(quantized layer, owner of the `*_quantizer_internal` attributes, input, stock maker)"""
  import tensorflow as tf
  import qkeras as Q
  KL = tf.keras.layers
  cls, pat, g = L["cls"], L["slots"], L.get("geo", {})
  names = SLOTS[cls]
  kw = {nm + "_quantizer": (None if v is None else objs[v]) for nm, v in zip(names, pat)}
  ub = g.get("use_bias", True)
  if cls == "dense":
    return Q.QDense(3, use_bias=ub, **kw), (2, 4), lambda: KL.Dense(3, use_bias=ub)
  if cls == "conv1d":
    return (Q.QConv1D(2, 2, padding="causal", dilation_rate=2, use_bias=ub, **kw), (2, 5, 3),
            lambda: KL.Conv1D(2, 2, padding="causal", dilation_rate=2, use_bias=ub))
  if cls == "conv2d":
    return Q.QConv2D(2, (2, 2), padding="same", use_bias=ub, **kw), (1, 4, 3, 2), lambda: KL.Conv2D(2, (2, 2), padding="same", use_bias=ub)
  if cls == "dwconv2d":
    return (Q.QDepthwiseConv2D((2, 2), depth_multiplier=2, use_bias=ub, **kw), (1, 4, 3, 2),
            lambda: KL.DepthwiseConv2D((2, 2), depth_multiplier=2, use_bias=ub))
  if cls == "sepconv1d":
    return (Q.QSeparableConv1D(2, 2, padding="same", use_bias=ub, **kw), (2, 5, 2),
            lambda: KL.SeparableConv1D(2, 2, padding="same", use_bias=ub))
  if cls == "sepconv2d":
    return (Q.QSeparableConv2D(3, (2, 2), strides=(2, 1), use_bias=ub, **kw), (1, 4, 3, 2),
            lambda: KL.SeparableConv2D(3, (2, 2), strides=(2, 1), use_bias=ub))
  if cls == "scaleshift":
    return Q.QScaleShift(use_bias=True, **kw), (2, 3), None
  u = 3
  rkw = dict(use_bias=ub, activation="quantized_tanh(4)", return_sequences=True, return_state=True, **kw)
  skw = lambda: dict(use_bias=ub, activation=fresh_q("quantized_tanh(4)"))   # noqa: E731
  if cls == "simplernn":
    return Q.QSimpleRNN(u, **rkw), (2, 3, 4), lambda: KL.SimpleRNNCell(u, **skw())
  if cls == "lstm":
    return (Q.QLSTM(u, recurrent_activation="quantized_sigmoid(4)", implementation=g["impl"], **rkw), (2, 3, 4),
            lambda: KL.LSTMCell(u, recurrent_activation=fresh_q("quantized_sigmoid(4)"), implementation=g["impl"], **skw()))
  return (Q.QGRU(u, recurrent_activation="quantized_sigmoid(4)", implementation=g["impl"], reset_after=g["reset_after"], **rkw),
          (2, 3, 4),
          lambda: KL.GRUCell(u, recurrent_activation=fresh_q("quantized_sigmoid(4)"), implementation=g["impl"],
                             reset_after=g["reset_after"], **skw()))


def internals_of(ql, cls):
  """the objects `call` uses, slot order (`self.<slot>_quantizer_internal` of the layer / of its cell)"""
  owner = ql.cell if cls in RNN else ql
  return [getattr(owner, nm + "_quantizer_internal", None) for nm in SLOTS[cls]]


def reported_vs_applied(ql, cls, W, state_t=None):
  """clause `reported_equals_applied` on the real objects: get_quantizers()[i] and `<slot>_quantizer_internal`
  must be the same quantizer — same text, and the same values on the layer's own tensor of slot i (bit for bit).
  Returns the list of problems (empty = the clause holds)."""
  import tensorflow as tf
  rep = list(ql.get_quantizers())
  app = internals_of(ql, cls)
  names = SLOTS[cls]
  probs = []
  if len(rep) != len(app):
    return [{"slot": "*", "what": "get_quantizers() has %d entries for %d slots" % (len(rep), len(app))}]
  for i, (nm, r, a) in enumerate(zip(names, rep, app)):
    if (r is None) != (a is None):
      probs.append({"slot": nm, "what": "reported %s, applied %s" % (r, a)})
      continue
    if r is None:
      continue
    if str(r) != str(a):
      probs.append({"slot": nm, "what": "text", "reported": str(r), "applied": str(a)})
    t = None
    if nm == "state":
      t = state_t
    elif nm != "average" and i < len(W):
      t = W[i]
    if t is None:
      continue
    try:
      vr = np.asarray(r(tf.constant(t)), dtype=np.float32)
      va = np.asarray(a(tf.constant(t)), dtype=np.float32)
    except Exception as e:  # pylint: disable=broad-except
      probs.append({"slot": nm, "what": "quantizer raises %s" % type(e).__name__})
      continue
    if not same(vr, va):
      k = int(np.flatnonzero(vr.ravel() != va.ravel())[0]) if vr.shape == va.shape else 0
      probs.append({"slot": nm, "what": "values", "reported": str(r), "applied": str(a),
                    "weight": str(F(float(np.asarray(t).ravel()[k]))), "reported_gives": str(F(float(vr.ravel()[k]))),
                    "applied_gives": str(F(float(va.ravel()[k])))})
  return probs


def run_scene(S, rng):
  import tensorflow as tf
  from qkeras.quantizers import get_quantizer
  objs = [get_quantizer(s) for s in S.objs]
  if S.used:
    for q in objs:
      q(tf.constant(dy(rng, [3, 5], 16, -20, 20)))
  S.state0 = [qobj_state(q, k) for k, q in enumerate(objs)]
  built = {}

  def oid(q):
    if q is None:
      return None
    for k, o in enumerate(objs):
      if q is o:
        return k
    return "foreign:" + str(q)

  for ev, li in S.events:
    L = S.layers[li]
    cls = L["cls"]
    if ev == "new":
      ql, xshape, mk = sh_build(L, objs, rng)
      if cls in RNN:
        ql.build(xshape)
      else:
        ql.build(xshape)
      W = []
      for w in ql.weights:
        shp = [int(v) for v in w.shape]
        W.append(dy(rng, shp, 64, -20, 20) if S.wscale == "small" else dy(rng, shp, 4, -12, 12))
      ql.set_weights(W)
      built[li] = (ql, xshape, mk, W)
      S.snaps.append((len(built), [qobj_state(q, k) for k, q in enumerate(objs)]))
      continue
    ql, xshape, mk, W = built[li]
    x = dy(rng, list(xshape), 4, -8, 8)
    call = {"layer": li, "cls": cls, "err": None, "probs": [], "dropin": None, "x": x}
    S.calls.append(call)
    try:
      out = ql(tf.constant(x))
      impl = [np.asarray(o, dtype=np.float32) for o in (out if isinstance(out, (list, tuple)) else [out])]
    except Exception as e:  # pylint: disable=broad-except
      call["err"] = (type(e).__name__, str(e)[:300])
      continue
    call["out0"] = [str(v) for v in fr_list(impl[0])[:4]]
    rep = list(ql.get_quantizers())
    st_t = dy(rng, [xshape[0], 3], 8, -8, 8) if cls in RNN else None
    call["probs"] = reported_vs_applied(ql, cls, W, st_t)
    # ---- drop-in with the REPORTED objects, as they are now
    try:
      QW = [np.asarray(w if r is None else r(tf.constant(w)), dtype=np.float32) for r, w in zip(rep, W)]
      if cls == "scaleshift":
        ref = [np.asarray(tf.constant(QW[1]) + tf.constant(x) * tf.constant(QW[0]), dtype=np.float32)]
      elif cls in RNN:
        cell = mk()
        B, T = x.shape[0], x.shape[1]
        cell.build((B, xshape[2]))
        cell.set_weights(QW)
        sq = rep[3] if rep[3] is not None else (lambda t: t)
        st = [tf.zeros((B, 3))] * (2 if cls == "lstm" else 1)
        seq = []
        for t in range(T):
          o_, st = cell(tf.constant(x[:, t, :]), [sq(s_) for s_ in st])
          st = list(st) if isinstance(st, (list, tuple)) else [st]
          seq.append(np.asarray(o_, dtype=np.float32))
        ref = [np.stack(seq, axis=1)] + [np.asarray(s_, dtype=np.float32) for s_ in st]
      else:
        sl = mk()
        sl.build(x.shape)
        sl.set_weights(QW)
        ref = [np.asarray(sl(tf.constant(x)), dtype=np.float32)]
    except Exception as e:  # pylint: disable=broad-except
      raise core.InfraError("stock layer of %s failed: %s" % (S.label(li), str(e)[:300]))
    if not (len(ref) == len(impl) and all(same(a, b) for a, b in zip(impl, ref))):
      call["dropin"] = [[(int(i), str(F(float(a.ravel()[i]))), str(F(float(b.ravel()[i]))))
                         for i in np.flatnonzero(a.ravel() != b.ravel())[:3]] if a.shape == b.shape else
                        (str(a.shape), str(b.shape)) for a, b in zip(impl, ref)]
  for li in range(len(S.layers)):
    ql = built[li][0]
    cls = S.layers[li]["cls"]
    S.ident.append(([oid(q) for q in internals_of(ql, cls)], [oid(q) for q in ql.get_quantizers()]))
    S.reported.append([None if r is None else str(r) for r in ql.get_quantizers()])
  S.lines = []
  order = [li for ev, li in S.events if ev == "new"]
  for k in range(1, len(order) + 1):
    S.lines.append({"op": "ctor", "heap": S.state0,
                    "layers": [{"n": SH_NSLOTS[S.layers[li]["cls"]], "train": SH_TRAIN[S.layers[li]["cls"]],
                                "args": S.layers[li]["slots"]} for li in order[:k]]})
  S.order = order


def judge_scene(S, outs, run):
  """outs: the driver's answers to S.lines (one per prefix of constructions)"""
  from qkeras.quantizers import get_quantizer
  mirrored = True
  # ---- tie 1': object states after every construction, identity patterns at the end
  for k, (o, (nb, states)) in enumerate(zip(outs, S.snaps)):
    run.compared += 1
    if o["heap"] != states:
      mirrored = False
      run.disagree("quantizer-object-state", S.label(), states, o["heap"])
  final = outs[-1]
  for pos, li in enumerate(S.order):
    run.compared += 1
    m = final["layers"][pos]
    if [m["internal"], m["quantizers"]] != [list(S.ident[li][0]), list(S.ident[li][1])]:
      mirrored = False
      run.disagree("quantizer-object-identity", S.label(li),
                   {"internal": S.ident[li][0], "get_quantizers": S.ident[li][1]},
                   {"internal": m["internal"], "get_quantizers": m["quantizers"]})
    if not m["reported_eq_applied"]:
      run.disagree("theorem-instance", S.label(li), "-", "model: reported state != applied state")
    # ---- tie 3: the reported texts vs twins of the configuration, switched iff the model switched the object
    want = []
    for v in m["quantizers"]:
      if v is None:
        want.append(None)
        continue
      q = get_quantizer(S.objs[v])
      if final["heap"][v] != S.state0[v] and hasattr(q, "_set_trainable_parameter"):
        q._set_trainable_parameter()
      want.append(str(q))
    run.compared += 1
    cls = S.layers[li]["cls"]
    if S.reported[li] != want:
      run.disagree("get_quantizers:" + cls, S.label(li), S.reported[li], want)
      run.violate("reported", {"cls": cls, "stream": "shared"},
                  {"case": S.label(li), "reported": S.reported[li], "model": want}, mirrored=False)
  # ---- the clauses, per call
  for ci, c in enumerate(S.calls):
    cls = c["cls"]
    shared_roles = len([v for v in S.layers[c["layer"]]["slots"] if v is not None]) > \
        len({v for v in S.layers[c["layer"]]["slots"] if v is not None})
    run.case("%s call %d" % (S.label(c["layer"]), ci), nontrivial=True,
             sample={"class": cls, "stream": "shared", "objects": S.objs, "slots": S.layers[c["layer"]]["slots"],
                     "out0": c.get("out0")})
    run.count("class_" + cls)
    run.count("stream_shared")
    run.count("shared_within_layer" if shared_roles else "shared_across_layers_only")
    key0 = {"cls": cls, "stream": "shared"}
    if c["err"] is not None:
      run.count("impl_raises_" + c["err"][0])
      run.violate("runs", dict(key0, error=c["err"][0]), {"case": S.label(c["layer"]), "error": list(c["err"])}, mirrored=False)
      continue
    run.compared += 2
    if c["probs"]:
      run.violate("reported_equals_applied", dict(key0, slot=c["probs"][0]["slot"]),
                  {"case": S.label(c["layer"]), "call": ci, "problems": c["probs"][:4]}, mirrored=mirrored)
    else:
      run.count("reported_equals_applied_holds")
    if c["dropin"] is not None:
      run.violate("dropin", key0, {"case": S.label(c["layer"]), "call": ci, "oracle": "stock layer on get_quantizers()[i](w_i)",
                                   "impl_vs_stock_on_reported_quantizers": c["dropin"]}, mirrored=mirrored)
    else:
      run.count("tie2_dropin_holds")

# ----------------------------------------------------------------------------- recorded sites

def site_of(c):
  """label of the sites of the NINE defects repaired in /repo (32aca3c, 0736682, d2aee32, c93cc1b; fix round:
  6413fbe is per object — `default-data-format` —, 6ddae0e, cefc317, 0a02ce1, 871ddb1): all part of the generated
  grid and judged like every other case (bit-for-bit ties, `runs`); a regression there is a VIOLATION reported
  under its own key"""
  g = c.geo
  if c.cls == "globalavgpool2d" and c.group.mode == "dynamic" and c.q["average"] is not None:
    return "dynamic-spatial-dims"
  if c.cls == "avgpool2d" and c.group.mode != "eager" and (c.q["average"] or "").startswith("quantized_po2"):
    return "po2-average-in-graph"
  if c.cls == "conv1d" and g["padding"] == "causal" and c.group.df == "channels_first" and g["kernel"] > 1:
    return "causal-channels-first"
  if c.cls == "sepconv1d" and c.group.fmts[1] == "channels_first" and \
      any(is_auto(c.q[s_], True) for s_ in ("depthwise", "pointwise")):
    # before 871ddb1 the kernel was quantized AFTER expand_dims(., 0); under the channels_first switch the auto
    # scale of the 4-D tensor is taken over other axes than that of the stored 3-D kernel
    return "expanded-kernel-auto-scale"
  if c.cls == "sepconv1d" and g["padding"] == "causal":
    return "causal-padding-call"
  if c.cls == "lstm" and not g["use_bias"] and c.q["bias"] is not None:
    return "bias-quantizer-without-bias"
  if c.cls == "gru" and c.q["recurrent"] is None:
    return "no-recurrent-quantizer"
  if c.cls == "gru" and g["reset_after"] and g["use_bias"]:
    return "reset-after-unstack"
  return None


def same(a, b):
  """bit for bit up to the sign of zero"""
  return a.shape == b.shape and bool(np.array_equal(a, b))


# ----------------------------------------------------------------------------- the check

def run(run: core.Run, tier: str):
  core.assert_repo_import()
  import tensorflow as tf
  K = tf.keras.backend
  tf.keras.backend.set_learning_phase(0)
  if K.image_data_format() != DEFAULT_FMT:
    raise core.InfraError("unexpected initial image_data_format " + K.image_data_format())
  rng = np.random.default_rng(run.seed)
  Group._n = 0
  groups = gen_cases(rng, tier) + gen_new(rng, tier)
  run.extra["rule"] = (
      "every class (QDense, QActivation, QConv1D, QConv2D, QSeparableConv1D/2D, QDepthwiseConv2D, "
      "QAveragePooling2D, QGlobalAveragePooling2D, QScaleShift, QSimpleRNN, QLSTM, QGRU) x a fixed grid of "
      "geometries (units/filters 1-4, kernel 1-3, strides 1-3, padding valid/same/causal, dilation 1-3, groups, "
      "depth multiplier, use_bias, mask, data_format None/last/first, implementation 1/2, reset_after) x quantizer "
      "choices cycled over {quantized_bits, quantized_po2, ternary, binary, auto_po2, None} per slot x seeded "
      "short-dyadic weights (k/16) and inputs (k/4) so that every float32 sum is exact; streams: structured (one "
      "call per fresh object), reuse (one object called 2-4 times on inputs of different batch / spatial / time "
      "size / rank, eagerly or shared between the branches of a functional model), format (K.image_data_format "
      "channels_first while constructing and / or calling, restored afterwards), rank (ranks beyond the minimum, "
      "batch 1, spatial dims 1, stride > kernel, dilation with same padding, 1-D channels_first), with the "
      "argument forms (quantizer string / object / used object, kernel size int / tuple / list, input tensor / "
      "numpy / Variable) rotating; non-trivial = distinct (class, geometry, quantizers, call history position) "
      "with at least one quantizer or activation configured")
  lines, index = [], []
  for gi, G in enumerate(groups):
    G.rng = np.random.default_rng([run.seed, gi])
    try:
      if G.cls in RNN:
        run_recurrent(G)
      else:
        run_feedforward(G)
    finally:
      K.set_image_data_format(DEFAULT_FMT)
    index.append(len(lines))
    lines += G.lines
    run.count("groups_" + G.stream)
    if len(G.cases) > 1:
      run.count("objects_called_%d_times" % len(G.cases))
    if G.mode == "functional":
      run.count("objects_shared_in_functional_model")
    if G.mode == "dynamic":
      run.count("objects_in_model_with_unknown_spatial_or_time_dims")
    if G.reweigh is not None:
      run.count("objects_with_set_weights_between_calls")
    if G.fmts != FMTS0:
      run.count("order_construct_%s_call_%s" % (G.fmts[0][9:], G.fmts[1][9:]))
    for k, v in G.forms.items():
      run.count("form_%s_%s" % (k, v))
    for c in G.cases:
      if G.skip:
        run.case(c.label, nontrivial=False)
        continue
      nontriv = any(v is not None for v in c.q.values())
      run.case(c.label, nontrivial=nontriv,
               sample={"class": c.cls, "geometry": c.geo, "quantizers": c.q, "stream": c.stream,
                       "out0": None if c.impl is None else [str(v) for v in fr_list(c.impl[0])[:4]]})
      run.count("class_" + c.cls)
      run.count("stream_" + c.stream)
      run.count("input_rank_%d" % c.x.ndim)
      if c.x.shape[0] == 1:
        run.count("batch_1")
      if c.cls not in RNN and c.cls not in ("dense", "activation", "scaleshift") and 1 in c.x.shape[1:]:
        run.count("spatial_or_channel_dim_1")
      run.count("data_format_arg_%s" % (c.geo["data_format"] if "data_format" in c.geo else "default"))
      if c.cls in HAS_DF:
        run.count("resolved_data_format_" + G.df)
      for k in ("padding", "impl"):
        if k in c.geo:
          run.count("%s_%s" % (k, c.geo[k]))
      for k, v in (("strides", (2, 3, [2, 2], [2, 1], [1, 2], [3, 3], [3, 2], [1, 3])), ("dilation", (2, 3, [2, 2], [1, 2], [2, 1], [2, 3])),
                   ("groups", (2,)), ("depth_multiplier", (2,)), ("mask", (True,)), ("reset_after", (True,))):
        if c.geo.get(k) in v:
          run.count(k + "_nondefault")
      if not c.geo.get("use_bias", True):
        run.count("no_bias")
      for s, v in c.q.items():
        run.count("q_%s" % ("none" if v is None else v.split("(")[0] + ("_auto" if v == AUTO else "")))
  if K.image_data_format() != DEFAULT_FMT:
    raise core.InfraError("image_data_format not restored")
  # ---- shared quantizer objects (scenes)
  Scene._n = 0
  scenes = gen_shared(rng, tier)
  scene_index = []
  for S in scenes:
    run_scene(S, np.random.default_rng([run.seed, 1000003, S.sid]))
    scene_index.append(len(lines))
    lines += S.lines
    run.count("scenes_%d_layers" % len(S.layers))
    for s_ in S.objs:
      run.count("shared_object_" + s_.split("(")[0] + ("_alpha_none" if "alpha" not in s_ else ""))
  outs = core.run_driver("C11", lines)
  for S, li in zip(scenes, scene_index):
    judge_scene(S, outs[li:li + len(S.lines)], run)

  for G, li in zip(groups, index):
    rnn = G.cls in RNN
    # ------------------------------------------------------------ constructor defaults (per object)
    if G.ctor_df is not None:
      run.compared += 1
      if G.ctor_df[0] != G.df:
        run.disagree("resolved-data-format", G.cases[0].label, G.ctor_df[0], G.df)
      if G.ctor_df[0] != G.ctor_df[1] or G.skip:
        key = {"cls": G.cls, "site": "default-data-format", "stream": G.stream}
        run.violate("ctor_default", key,
                    {"case": G.cases[0].label, "quantized_layer_data_format": G.ctor_df[0],
                     "stock_layer_data_format": G.ctor_df[1], "image_data_format_at_construction": G.fmts[0]},
                    mirrored=(G.ctor_df[0] == G.df))
      else:
        run.count("ctor_default_same")
    if G.skip:
      continue
    o_obj = outs[li]
    for c in G.cases:
      o_line = outs[li + c.line_off]
      o = o_line if rnn else o_line["calls"][c.line_pos]
      key0 = {"cls": c.cls}
      if c.stream != "structured":
        key0["stream"] = c.stream
        if len(G.cases) > 1:
          key0["call"] = "first" if c.pos == 0 else "later"
      site = site_of(c)
      if site is not None:
        key0["site"] = site
        run.count("site_" + site)
      # ------------------------------------------------------------ model outputs (exact rationals)
      if rnn:
        steps = o["steps"]
        m_ok = all(t.get("ok", True) for S in steps for t in S)
        T = len(steps)
        B, u = c.geo["batch"], c.geo["units"]
        model = None
        if m_ok:
          hs = [model_tensor(S[0]) for S in steps]
          seq = np.empty((B, T, u), dtype=object)
          for t, h in enumerate(hs):
            seq[:, t, :] = np.array(h[1], dtype=object).reshape(B, u)
          model = [([B, T, u], list(seq.ravel()))] + [(model_tensor(t)[0], model_tensor(t)[1]) for t in steps[-1]]
      else:
        shp, data, m_ok = model_tensor(o["y"])
        model = [(shp, data)] if m_ok else None
        if not o_line.get("build_free", False):
          run.disagree("build-free", c.label, "-", "the layer term mentions a build-time node")
      if not o.get("dropin", False) and m_ok:
        # the instance of the drop-in theorem evaluated by the driver itself must hold (every class, no exception)
        run.disagree("theorem-instance", c.label, "-", "model's own drop-in equation is false on this instance")
      # ------------------------------------------------------------ crashes
      if c.err is not None:
        run.count("impl_raises_" + c.err[0])
        # no generated call may raise: the stock layer accepts every one of them (it is run on each)
        if m_ok:
          run.disagree("model-accepts", c.label, "raises " + c.err[0], "model evaluates the term")
        run.violate("runs", dict(key0, error=c.err[0]), {"case": c.label, "error": list(c.err)}, mirrored=False)
        continue
      if not m_ok:
        run.disagree("model-rejects", c.label, "runs", "model shape error")
        continue
      # ------------------------------------------------------------ tie 1: real layer vs Lean model
      # bit for bit; where the stock average divides by a non-power-of-two (no average quantizer) the
      # model's exact quotient is rounded once to binary32 (DESIGN 3.2 device 1: simulate)
      run.compared += 1
      bad = []
      for a_, (mshape, mdata) in zip(c.impl, model):
        if list(a_.shape) != list(mshape):
          bad.append(("shape", list(a_.shape), list(mshape)))
          continue
        av = fr_list(a_)
        for i, (iv, mv) in enumerate(zip(av, mdata)):
          if iv != mv:
            if c.cls in ("avgpool2d", "globalavgpool2d") and c.q["average"] is None and iv == rnd32(mv):
              run.count("rounded_quotient_points")
              continue
            bad.append((i, str(iv), str(mv)))
      mirrored = len(c.impl) == len(model) and not bad
      if not mirrored:
        run.disagree("layer:" + c.cls, {"case": c.label}, "impl != model", bad[:4])
      else:
        run.count("tie1_bit_exact")
      # ------------------------------------------------------------ tie 2: the property's oracle
      ok2 = len(c.impl) == len(c.oracle) and all(same(a, b) for a, b in zip(c.impl, c.oracle))
      run.compared += 1
      if not ok2:
        key = dict(key0)
        diffs = [[(int(i), str(F(float(a.ravel()[i]))), str(F(float(b.ravel()[i]))))
                  for i in np.flatnonzero(a.ravel() != b.ravel())[:3]] if a.shape == b.shape else
                 (str(a.shape), str(b.shape)) for a, b in zip(c.impl, c.oracle)]
        run.violate("dropin", key, {"case": c.label, "impl_vs_stock_on_quantized_weights": diffs}, mirrored=mirrored)
      else:
        run.count("tie2_dropin_holds")
      # ------------------------------------------------------------ no quantizer configured
      if all(v is None for k, v in c.q.items() if k not in ("act", "ract")) and c.q.get("act") is None \
          and c.stock_raw is not None and not c.geo.get("mask") and not rnn:
        run.count("no_quantizer_cases")
        if not all(same(a, b) for a, b in zip(c.impl, c.stock_raw)):
          run.violate("no_quantizer", key0, {"case": c.label}, mirrored=mirrored)
      if rnn and all(c.q[k] is None for k in ("kernel", "recurrent", "bias", "state")):
        run.count("no_quantizer_cases")
        if not all(same(a, b) for a, b in zip(c.impl, c.stock_raw)):
          run.violate("no_quantizer", key0, {"case": c.label}, mirrored=mirrored)
    # ------------------------------------------------------------ reported == applied (per object, real code only)
    if G.rva is not None:
      run.compared += 1
      if G.rva:
        key = {"cls": G.cls, "slot": G.rva[0]["slot"]}
        if G.stream != "structured":
          key["stream"] = G.stream
        run.violate("reported_equals_applied", key, {"case": G.cases[0].label, "problems": G.rva[:4]}, mirrored=False)
      else:
        run.count("reported_equals_applied_holds")
    # ------------------------------------------------------------ tie 3: get_quantizers (per object)
    if G.cls != "activation":
      c = G.cases[0]
      key0 = {"cls": G.cls}
      if G.stream != "structured":
        key0["stream"] = G.stream
      slots = SLOTS[G.cls]
      want = [None if s is None else str(fresh_q(G.q[slots[s]], slots[s] in TRAINABLE.get(G.cls, [])))
              for s in o_obj["quantizers"]]
      run.compared += 1
      if G.reported != want:
        run.disagree("get_quantizers:" + G.cls, c.label, G.reported, want)
        run.violate("reported", key0, {"case": c.label, "reported": G.reported, "model": want}, mirrored=False)
      if o_obj["applied"] != o_obj["reported_live"]:
        run.disagree("applied-vs-reported", c.label, o_obj["applied"], o_obj["reported_live"])
  run.extra["cases"] = sum(len(G.cases) for G in groups) + sum(len(S.calls) for S in scenes)
  run.extra["objects"] = len(groups) + sum(len(S.layers) for S in scenes)
  run.extra["scenes_shared_quantizer_objects"] = len(scenes)
  run.assumptions.append(
      "exact regime: weights k/16, inputs k/4, quantized activations; every float32 partial sum is exactly "
      "representable, so TF's summation order does not matter (validated by the bit-for-bit ties)")
  run.assumptions.append(
      "quantizers without an element-wise Lean model (quantized_po2, ternary, binary, auto_po2) enter the concrete "
      "model as the table of the real quantizer's values at the tensors the layer term applies them to "
      "(oracle input, DESIGN 3.2 device 2); the abstract theorems hold for every quantizer function")
  run.assumptions.append(
      "histories: the model evaluates `objectCalls` of the layer term over the whole list of calls of one object "
      "(Props.C11.C11_object_history: = a fresh object per call); the real object is called in that order and every "
      "call is judged against a fresh stock layer")
