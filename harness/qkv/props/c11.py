"""C11 — quantized layers equal their Keras layer run on pre-quantized weights (drop-in).

Per generated case (class x geometry x quantizer choice x exact-regime weights and inputs):
  tie 1  real layer output            == concrete Lean model (drivers/C11.lean), bit for bit
  tie 2  real layer output            == STOCK tf_keras layer with weights q_i(w_i), then the
                                         activation quantizer (the property's own oracle, evaluated
                                         on the real code), bit for bit
  tie 3  layer.get_quantizers()       == the model's list, entry by entry
  no-quantizer clause: nothing configured -> output == stock layer on the raw weights.
`*Transpose` layers do not run in this sandbox and are not generated.
"""
from fractions import Fraction as F
import json

import numpy as np

from .. import core

# ----------------------------------------------------------------------------- quantizer choices

SPEC = {  # element-wise quantizers the Lean model computes itself (QKV.Model.FixedQ)
    "quantized_bits(4,0,1)": dict(k="bits", bits=4, integer=0, symmetric=1, keep_negative=1, alpha=None),
    "quantized_bits(3,0,1)": dict(k="bits", bits=3, integer=0, symmetric=1, keep_negative=1, alpha=None),
    "quantized_bits(4,0,1,alpha=1)": dict(k="bits", bits=4, integer=0, symmetric=1, keep_negative=1, alpha=[1, 1]),
    "quantized_bits(3,0,1,alpha=1)": dict(k="bits", bits=3, integer=0, symmetric=1, keep_negative=1, alpha=[1, 1]),
    "quantized_bits(5,1,0,alpha=1)": dict(k="bits", bits=5, integer=1, symmetric=0, keep_negative=1, alpha=[1, 1]),
    "quantized_bits(6,2,1)": dict(k="bits", bits=6, integer=2, symmetric=1, keep_negative=1, alpha=None),
    "quantized_bits(8,0,1)": dict(k="bits", bits=8, integer=0, symmetric=1, keep_negative=1, alpha=None),
    "quantized_bits(4,1,0)": dict(k="bits", bits=4, integer=1, symmetric=0, keep_negative=1, alpha=None),
    "quantized_relu(4,1)": dict(k="relu", bits=4, integer=1, slope_log=None),
    "quantized_relu(3,0)": dict(k="relu", bits=3, integer=0, slope_log=None),
    "quantized_tanh(4)": dict(k="tanh", bits=4, symmetric=0),
    "quantized_tanh(3,symmetric=1)": dict(k="tanh", bits=3, symmetric=1),
    "quantized_sigmoid(4)": dict(k="sigmoid", bits=4, symmetric=0),
    "quantized_sigmoid(3)": dict(k="sigmoid", bits=3, symmetric=0),
    "hard_sigmoid": dict(k="hard_sigmoid"),
    "hard_tanh": dict(k="hard_tanh"),
}
# kernel-type slots: the layer constructors call `_set_trainable_parameter()` on these quantizers, which
# turns alpha=None into alpha='auto_po2' (data dependent, per-channel scale); an explicit alpha keeps them
# data independent.  AUTO is the one deliberately auto-scaled choice.
AUTO = "quantized_bits(4,0,1)"
WQ = ["quantized_bits(4,0,1,alpha=1)", "quantized_po2(4)", "ternary(alpha=1)", "binary(alpha=1)",
      "quantized_bits(3,0,1,alpha=1)", "quantized_bits(5,1,0,alpha=1)", None]
# slots whose quantizer the constructor switches to trainable / auto scaling
TRAINABLE = {"dense": ["kernel"], "conv1d": ["kernel"], "conv2d": ["kernel"], "dwconv2d": ["depthwise"],
             "sepconv1d": ["depthwise", "pointwise"], "sepconv2d": ["depthwise", "pointwise"],
             "scaleshift": ["weight", "bias"], "simplernn": ["kernel", "recurrent"],
             "lstm": ["kernel", "recurrent"], "gru": ["kernel", "recurrent"]}
BQ = ["quantized_bits(4,0,1)", "quantized_po2(4)", "quantized_bits(6,2,1)", None]
ACT = ["quantized_relu(4,1)", "quantized_bits(6,2,1)", "quantized_relu(3,0)", None]
AVGQ = ["quantized_bits(8,0,1)", "quantized_bits(4,0,1)", "quantized_po2(4)", "quantized_bits(6,2,1)"]
SQ = ["quantized_bits(4,0,1)", "quantized_bits(4,1,0)", None]

SLOTS = {"dense": ["kernel", "bias"], "conv1d": ["kernel", "bias"], "conv2d": ["kernel", "bias"],
         "dwconv2d": ["depthwise", "bias"], "scaleshift": ["weight", "bias"],
         "sepconv1d": ["depthwise", "pointwise", "bias"], "sepconv2d": ["depthwise", "pointwise", "bias"],
         "avgpool2d": ["average"], "globalavgpool2d": ["average"], "activation": [],
         "simplernn": ["kernel", "recurrent", "bias", "state"], "lstm": ["kernel", "recurrent", "bias", "state"],
         "gru": ["kernel", "recurrent", "bias", "state"]}


def tj(a):
  a = np.asarray(a)
  return {"s": [int(v) for v in a.shape], "d": [core.rj(v) for v in a.astype(np.float64).ravel()]}


def fr_list(a):
  return [F(float(v)) for v in np.asarray(a, dtype=np.float64).ravel()]


def model_tensor(o):
  return [int(v) for v in o["s"]], [core.unrj(p) for p in o["d"]], bool(o.get("ok", True))


def dy(rng, shape, den, lo, hi):
  """short dyadics k/den, k in [lo, hi]"""
  return (rng.integers(lo, hi + 1, size=shape).astype(np.float32) / np.float32(den)).astype(np.float32)


_QCACHE = {}


def fresh_q(s, trainable=False):
  """a quantizer object built by the harness from the configuration string (never the layer's own);
  `trainable`: the slot is one on which the layer constructor calls `_set_trainable_parameter()`"""
  from qkeras.quantizers import get_quantizer
  q = get_quantizer(s)
  if trainable and hasattr(q, "_set_trainable_parameter"):
    q._set_trainable_parameter()
  return q


def is_auto(s, trainable):
  if s is None or not trainable:
    return False
  q = fresh_q(s, True)
  return isinstance(getattr(q, "alpha", None), str)


def apply_q(s, a, trainable=False):
  import tensorflow as tf
  if s is None:
    return np.asarray(a, dtype=np.float32)
  return np.asarray(fresh_q(s, trainable)(tf.constant(np.asarray(a, dtype=np.float32))), dtype=np.float32)


def qspec(s, args=(), trainable=False):
  """protocol form of quantizer `s`; non-element-wise ones as the table of the real values at `args`"""
  if s is None:
    return None
  if s in SPEC and not is_auto(s, trainable):
    return SPEC[s]
  return {"k": "table", "e": [[tj(a), tj(apply_q(s, a, trainable))] for a in args]}


def rnd32(fr):
  """IEEE-754 binary32 round-to-nearest-even of an exact rational (normal range)"""
  if fr == 0:
    return F(0)
  sgn = -1 if fr < 0 else 1
  a = abs(fr)
  e = a.numerator.bit_length() - a.denominator.bit_length() - 24
  while a / F(2) ** e >= 2 ** 24:
    e += 1
  while a / F(2) ** e < 2 ** 23:
    e -= 1
  e = max(e, -149)
  m = a / F(2) ** e
  fl = m.numerator // m.denominator
  r = m - fl
  if r > F(1, 2) or (r == F(1, 2) and fl % 2 == 1):
    fl += 1
  return sgn * fl * F(2) ** e


# ----------------------------------------------------------------------------- case generation

class Case:
  def __init__(self, cls, geo, q, stream="structured"):
    self.cls, self.geo, self.q, self.stream = cls, geo, q, stream
    self.err = None
    self.impl = None        # list of np arrays (outputs)
    self.oracle = None      # same, from the stock layer
    self.stock_raw = None   # stock layer on the raw weights (no-quantizer clause)
    self.reported = None
    self.line = None
    self.W = None

  @property
  def label(self):
    return "%s %s %s" % (self.cls, json.dumps(self.geo, sort_keys=True), json.dumps(self.q, sort_keys=True))


def pick(rng, lst):
  return lst[int(rng.integers(0, len(lst)))]


def gen_cases(rng, tier):
  n = 2 if tier == "quick" else 6
  cases = []

  def qsel(slots, i, force_none=False, auto=False):
    q = {}
    for j, s in enumerate(slots):
      if force_none:
        q[s] = None
      elif s == "bias":
        q[s] = BQ[(i + j) % len(BQ)] if rng.random() < 0.7 else pick(rng, BQ)
      elif s == "state":
        q[s] = SQ[(i // 2) % len(SQ)]
      elif s == "average":
        q[s] = AVGQ[i % len(AVGQ)] if i % 5 else None
      else:
        q[s] = WQ[(i + 2 * j) % len(WQ)] if rng.random() < 0.7 else pick(rng, WQ)
    if auto and not force_none:
      q[slots[0]] = AUTO
    q["act"] = None if force_none else ACT[i % len(ACT)]
    if "average" in q and q["average"] is None:
      q["act"] = None       # the stock average is not exact in float32: nothing non-linear after it
    return q

  # ---- dense
  for i in range(10 * n):
    geo = dict(units=1 + i % 4, use_bias=bool(i % 3), in_dim=2 + i % 3, rank=2 + (i % 2), batch=1 + i % 2)
    cases.append(Case("dense", geo, qsel(SLOTS["dense"], i, force_none=(i % 10 == 9), auto=(i % 10 == 4))))
  # ---- activation layer
  for i, a in enumerate(["quantized_relu(4,1)", "quantized_bits(6,2,1)", "quantized_tanh(4)", "quantized_sigmoid(4)"]):
    cases.append(Case("activation", dict(shape=[2, 3, 2]), {"act": a}))
  # ---- conv1d: every (padding, stride/dilation) cell, kernel 1..3, groups
  i = 0
  for pad in ("valid", "same", "causal"):
    for (st, dl) in ((1, 1), (2, 1), (1, 2)):
      for k in (1, 2, 3):
        for rep in range(n):
          groups = 2 if (i % 4 == 3) else 1
          geo = dict(filters=(2 if groups == 2 and i % 8 == 3 else 4) if groups == 2 else 1 + i % 4, kernel=k,
                     strides=st, padding=pad, dilation=dl, groups=groups, use_bias=bool((i + 1) % 3),
                     length=6 + i % 2, cin=4 if groups == 2 else 2 + i % 2, batch=1 + i % 2)
          cases.append(Case("conv1d", geo, qsel(SLOTS["conv1d"], i, force_none=(i % 9 == 8), auto=(i % 9 == 4))))
          i += 1
  # ---- conv2d
  i = 0
  for pad in ("valid", "same"):
    for (st, dl) in (((1, 1), (1, 1)), ((2, 2), (1, 1)), ((1, 2), (1, 1)), ((1, 1), (2, 2)), ((1, 1), (1, 2))):
      for k in ((1, 1), (2, 2), (3, 2), (2, 3)):
        for rep in range(n):
          groups = 2 if (i % 5 == 4) else 1
          df = "channels_first" if (i % 7 == 6 and dl == (1, 1)) else "channels_last"
          geo = dict(filters=(2 + 2 * (i % 2)) if groups == 2 else 1 + i % 4, kernel=list(k), strides=list(st),
                     padding=pad, dilation=list(dl), groups=groups, use_bias=bool((i + 1) % 3),
                     hw=[5 + i % 2, 6 - i % 2], cin=4 if groups == 2 else 1 + i % 3, batch=1 + (i % 3 == 0),
                     data_format=df, mask=bool(i % 6 == 2))
          cases.append(Case("conv2d", geo, qsel(SLOTS["conv2d"], i, force_none=(i % 11 == 10), auto=(i % 11 == 5))))
          i += 1
  # ---- separable 1d
  i = 0
  for pad in ("valid", "same", "causal"):
    for (st, dl) in ((1, 1), (2, 1), (1, 2)):
      for k in (1, 2, 3):
        for rep in range(n):
          geo = dict(filters=1 + i % 4, kernel=k, strides=st, padding=pad, dilation=dl, depth_multiplier=1 + i % 2,
                     use_bias=bool((i + 2) % 3), length=6 + i % 2, cin=1 + i % 3, batch=1 + i % 2)
          cases.append(Case("sepconv1d", geo, qsel(SLOTS["sepconv1d"], i, force_none=(i % 9 == 8), auto=(i % 9 == 3))))
          i += 1
  # ---- separable 2d / depthwise 2d
  i = 0
  for cls in ("sepconv2d", "dwconv2d"):
    for pad in ("valid", "same"):
      for (st, dl) in (((1, 1), (1, 1)), ((2, 2), (1, 1)), ((1, 1), (2, 2))):
        for k in ((1, 1), (2, 2), (3, 2)):
          for rep in range(n):
            geo = dict(filters=1 + i % 4, kernel=list(k), strides=list(st), padding=pad, dilation=list(dl),
                       depth_multiplier=1 + i % 2, use_bias=bool((i + 2) % 3), hw=[5 + i % 2, 6 - i % 2],
                       cin=1 + i % 3, batch=1 + (i % 3 == 0))
            cases.append(Case(cls, geo, qsel(SLOTS[cls], i, force_none=(i % 9 == 8), auto=(i % 9 == 3))))
            i += 1
  # ---- pooling
  i = 0
  for pool in ((2, 2), (2, 3), (3, 3), (1, 2)):
    for st in (None, (1, 1), (2, 1)):
      for pad in ("valid", "same"):
        for rep in range(n):
          geo = dict(pool=list(pool), strides=None if st is None else list(st), padding=pad,
                     hw=[5 + i % 2, 6], cin=1 + i % 3, batch=1 + i % 2,
                     data_format="channels_first" if i % 6 == 5 else "channels_last")
          cases.append(Case("avgpool2d", geo, qsel(SLOTS["avgpool2d"], i)))
          i += 1
  for i in range(12 * n):
    geo = dict(hw=[2 + i % 3, 2 + (i // 3) % 3], cin=1 + i % 3, batch=1 + i % 2, keepdims=bool(i % 4 == 1),
               data_format="channels_first" if i % 5 == 4 else "channels_last")
    cases.append(Case("globalavgpool2d", geo, qsel(SLOTS["globalavgpool2d"], i)))
  # ---- scale shift
  for i in range(8 * n):
    geo = dict(use_bias=bool(i % 3), shape=[1 + i % 2, 3, 2 + i % 2])
    cases.append(Case("scaleshift", geo, qsel(SLOTS["scaleshift"], i, force_none=(i % 8 == 7))))
  # ---- recurrent
  i = 0
  for cls in ("simplernn", "lstm", "gru"):
    impls = (1,) if cls == "simplernn" else (1, 2)
    ras = (False, True) if cls == "gru" else (False,)
    for impl in impls:
      for ra in ras:
        for rep in range(8 * n if cls != "gru" else 7 * n):
          units = 1 + i % 3
          hard = (i % 4 == 2)
          q = qsel(SLOTS[cls], i, force_none=(rep % 8 == 7))
          if hard and q["state"] is None:
            q["state"] = SQ[0]            # un-quantized activations only with a state quantizer (bit growth)
          if cls == "gru" and rep % 7 in (3, 6):
            q["recurrent"] = None          # no recurrent quantizer (site repaired in 32aca3c)
          q["act"] = "hard_tanh" if hard else ["quantized_tanh(4)", "quantized_tanh(3,symmetric=1)"][i % 2]
          q["ract"] = "hard_sigmoid" if hard else ["quantized_sigmoid(4)", "quantized_sigmoid(3)"][(i // 2) % 2]
          in_dim = units if (cls == "gru" and rep % 7 == 3) else 2 + i % 2
          geo = dict(units=units, in_dim=in_dim, steps=3 if not hard else 2, batch=2, use_bias=bool((i + 1) % 4),
                     impl=impl, reset_after=ra)
          cases.append(Case(cls, geo, q))
          i += 1
  return cases


# ----------------------------------------------------------------------------- running the real code

def conv_kwargs(g, rank):
  kw = dict(strides=g["strides"], padding=g["padding"], dilation_rate=g["dilation"], use_bias=g["use_bias"])
  if g.get("data_format"):
    kw["data_format"] = g["data_format"]
  return kw


def build_layers(c):
  """(quantized layer, stock layer or None, input array)"""
  import tensorflow as tf
  import qkeras as Q
  KL = tf.keras.layers
  g, q, cls = c.geo, c.q, c.cls
  rng = c.rng
  if cls == "dense":
    x = dy(rng, [g["batch"]] + [3] * (g["rank"] - 2) + [g["in_dim"]], 4, -8, 8)
    return (Q.QDense(g["units"], use_bias=g["use_bias"], kernel_quantizer=q["kernel"], bias_quantizer=q["bias"],
                     activation=q["act"]),
            KL.Dense(g["units"], use_bias=g["use_bias"]), x)
  if cls == "activation":
    x = dy(rng, g["shape"], 16, -40, 40)
    return Q.QActivation(q["act"]), None, x
  if cls == "conv1d":
    x = dy(rng, [g["batch"], g["length"], g["cin"]], 4, -8, 8)
    kw = conv_kwargs(g, 1)
    return (Q.QConv1D(g["filters"], g["kernel"], groups=g["groups"], kernel_quantizer=q["kernel"],
                      bias_quantizer=q["bias"], activation=q["act"], **kw),
            KL.Conv1D(g["filters"], g["kernel"], groups=g["groups"], **kw), x)
  if cls == "conv2d":
    shp = [g["batch"]] + g["hw"] + [g["cin"]] if g["data_format"] == "channels_last" else [g["batch"], g["cin"]] + g["hw"]
    x = dy(rng, shp, 4, -8, 8)
    kw = conv_kwargs(g, 2)
    mask = None
    if g["mask"]:
      mask = rng.integers(0, 2, size=g["kernel"]).astype(np.float32)
      mask[0, 0] = 0.0
    c.mask = mask
    return (Q.QConv2D(g["filters"], g["kernel"], groups=g["groups"], kernel_quantizer=q["kernel"],
                      bias_quantizer=q["bias"], activation=q["act"], mask=mask, **kw),
            KL.Conv2D(g["filters"], g["kernel"], groups=g["groups"], **kw), x)
  if cls == "sepconv1d":
    x = dy(rng, [g["batch"], g["length"], g["cin"]], 4, -8, 8)
    kw = conv_kwargs(g, 1)
    return (Q.QSeparableConv1D(g["filters"], g["kernel"], depth_multiplier=g["depth_multiplier"],
                               depthwise_quantizer=q["depthwise"], pointwise_quantizer=q["pointwise"],
                               bias_quantizer=q["bias"], activation=q["act"], **kw),
            KL.SeparableConv1D(g["filters"], g["kernel"], depth_multiplier=g["depth_multiplier"], **kw), x)
  if cls == "sepconv2d":
    x = dy(rng, [g["batch"]] + g["hw"] + [g["cin"]], 4, -8, 8)
    kw = conv_kwargs(g, 2)
    return (Q.QSeparableConv2D(g["filters"], g["kernel"], depth_multiplier=g["depth_multiplier"],
                               depthwise_quantizer=q["depthwise"], pointwise_quantizer=q["pointwise"],
                               bias_quantizer=q["bias"], activation=q["act"], **kw),
            KL.SeparableConv2D(g["filters"], g["kernel"], depth_multiplier=g["depth_multiplier"], **kw), x)
  if cls == "dwconv2d":
    x = dy(rng, [g["batch"]] + g["hw"] + [g["cin"]], 4, -8, 8)
    kw = conv_kwargs(g, 2)
    return (Q.QDepthwiseConv2D(g["kernel"], depth_multiplier=g["depth_multiplier"],
                               depthwise_quantizer=q["depthwise"], bias_quantizer=q["bias"], activation=q["act"], **kw),
            KL.DepthwiseConv2D(g["kernel"], depth_multiplier=g["depth_multiplier"], **kw), x)
  if cls == "avgpool2d":
    shp = [g["batch"]] + g["hw"] + [g["cin"]] if g["data_format"] == "channels_last" else [g["batch"], g["cin"]] + g["hw"]
    x = dy(rng, shp, 4, -8, 8)
    kw = dict(pool_size=tuple(g["pool"]), strides=None if g["strides"] is None else tuple(g["strides"]),
              padding=g["padding"], data_format=g["data_format"])
    return Q.QAveragePooling2D(average_quantizer=q["average"], activation=q["act"], **kw), KL.AveragePooling2D(**kw), x
  if cls == "globalavgpool2d":
    shp = [g["batch"]] + g["hw"] + [g["cin"]] if g["data_format"] == "channels_last" else [g["batch"], g["cin"]] + g["hw"]
    x = dy(rng, shp, 4, -8, 8)
    kw = dict(data_format=g["data_format"], keepdims=g["keepdims"])
    return (Q.QGlobalAveragePooling2D(average_quantizer=q["average"], activation=q["act"], **kw),
            KL.GlobalAveragePooling2D(**kw), x)
  if cls == "scaleshift":
    x = dy(rng, g["shape"], 4, -8, 8)
    return Q.QScaleShift(weight_quantizer=q["weight"], bias_quantizer=q["bias"], use_bias=g["use_bias"],
                         activation=q["act"]), None, x
  raise ValueError(cls)


def cfg_of(c):
  """protocol form of the configuration (what `call` looks at)"""
  g, q, cls = c.geo, c.q, c.cls
  slots = SLOTS[cls]
  cfg = {"has_q": [int(q.get(s) is not None) for s in slots], "has_act": q.get("act") is not None,
         "use_bias": bool(g.get("use_bias", True))}
  if cls in ("conv1d", "sepconv1d"):
    cfg.update(strides=[g["strides"]], dilation=[g["dilation"]], padding=g["padding"], kernel=g["kernel"])
  if cls in ("conv2d", "sepconv2d", "dwconv2d"):
    cfg.update(strides=g["strides"], dilation=g["dilation"], padding=g["padding"],
               data_format=g.get("data_format", "channels_last"), has_mask=bool(g.get("mask")))
  if cls == "avgpool2d":
    cfg.update(pool=g["pool"], pool_strides=g["strides"] if g["strides"] is not None else g["pool"],
               padding=g["padding"], data_format=g["data_format"], area=int(np.prod(g["pool"])))
  if cls == "globalavgpool2d":
    cfg.update(data_format=g["data_format"], keepdims=g["keepdims"], area=int(np.prod(g["hw"])))
  if cls in ("simplernn", "lstm", "gru"):
    cfg.update(units=g["units"], impl=g["impl"], reset_after=g["reset_after"])
  return cfg


def weight_quantizers(c):
  slots = [s for s in SLOTS[c.cls] if s not in ("state", "average")]
  return [c.q.get(s) for s in slots]


def run_feedforward(c):
  import tensorflow as tf
  ql, sl, x = build_layers(c)
  c.x = x
  g, q, cls = c.geo, c.q, c.cls
  rng = c.rng
  if cls not in ("activation", "avgpool2d", "globalavgpool2d"):
    ql.build(x.shape)
  n_w = len(ql.weights)
  W = []
  for i, w in enumerate(ql.weights):
    shp = [int(v) for v in w.shape]
    W.append(dy(rng, shp, 16, -20, 20) if len(shp) > 1 or cls == "scaleshift" else dy(rng, shp, 16, -24, 24))
  if n_w:
    ql.set_weights(W)
  c.W = W
  wq = weight_quantizers(c)
  if not g.get("use_bias", True):
    wq = wq[:n_w]
  try:
    y = ql(tf.constant(x))
    c.impl = [np.asarray(y, dtype=np.float32)]
  except Exception as e:  # pylint: disable=broad-except
    c.err = (type(e).__name__, str(e)[:400])
  try:
    rep = ql.get_quantizers() if hasattr(ql, "get_quantizers") else None
    c.reported = None if rep is None else [None if r is None else str(r) for r in rep]
  except Exception as e:  # pylint: disable=broad-except
    c.reported = "ERR " + type(e).__name__
  # ---- the property's oracle on the real code
  act = (lambda t: t) if q.get("act") is None else fresh_q(q["act"])
  wslots = [sl_ for sl_ in SLOTS[cls] if sl_ not in ("state", "average")]
  tr = [sl_ in TRAINABLE.get(cls, []) for sl_ in wslots]
  QW = [apply_q(s, w, t) for s, w, t in zip(wq, W, tr)]
  c.QW = QW
  xt = tf.constant(x)
  if cls == "activation":
    c.oracle = [np.asarray(act(xt), dtype=np.float32)]
  elif cls == "scaleshift":
    out = xt * tf.constant(QW[0])
    if g["use_bias"]:
      out = tf.constant(QW[1]) + out
    c.oracle = [np.asarray(act(out), dtype=np.float32)]
    out = xt * tf.constant(W[0])
    if g["use_bias"]:
      out = tf.constant(W[1]) + out
    c.stock_raw = [np.asarray(out, dtype=np.float32)]
  elif cls == "avgpool2d":
    c.stock_raw = [np.asarray(sl(xt), dtype=np.float32)]
    if q["average"] is None:
      c.oracle = [np.asarray(act(sl(xt)), dtype=np.float32)]
    else:
      area = int(np.prod(g["pool"]))
      qr = np.float32(np.asarray(fresh_q(q["average"])(1.0 / area)))
      c.qrecip = qr
      c.oracle = [np.asarray(act(sl(xt * np.float32(area)) * qr), dtype=np.float32)]
  elif cls == "globalavgpool2d":
    c.stock_raw = [np.asarray(sl(xt), dtype=np.float32)]
    if q["average"] is None:
      c.oracle = [np.asarray(act(sl(xt)), dtype=np.float32)]
    else:
      area = int(np.prod(g["hw"]))
      qr = np.float32(np.asarray(fresh_q(q["average"])(1.0 / area)))
      c.qrecip = qr
      ax = (1, 2) if g["data_format"] == "channels_last" else (2, 3)
      s = np.sum(x.astype(np.float64), axis=ax, keepdims=g["keepdims"]).astype(np.float32)   # exact: short dyadics
      c.oracle = [np.asarray(act(tf.constant(s * qr)), dtype=np.float32)]
  else:
    sl.build(x.shape)
    QWm = list(QW)
    if cls == "conv2d" and c.mask is not None:
      QWm[0] = QW[0] * c.mask.reshape(c.mask.shape + (1, 1))
    sl.set_weights(QWm)
    c.oracle = [np.asarray(act(sl(xt)), dtype=np.float32)]
    sl.set_weights(W)
    c.stock_raw = [np.asarray(sl(xt), dtype=np.float32)]
  # ---- the model's input line
  quant = []
  slots = SLOTS[cls]
  for i, s in enumerate(slots):
    qs = q.get(s)
    if s == "average":
      area = cfg_of(c)["area"]
      if qs is None:
        quant.append(None)
      else:
        key = {"s": [], "d": [core.rj(F(1, area))]}
        quant.append({"k": "table", "e": [[key, tj(np.float32(c.qrecip).reshape(()))]]})
      continue
    t = s in TRAINABLE.get(cls, [])
    if i >= len(W):
      quant.append(None if qs is None else qspec(qs, [], t))
      continue
    args = [W[i]]
    if cls == "sepconv1d" and i < 2:
      args = [W[i][None, ...], W[i]]      # the layer quantizes the kernel expanded to 4-D
    quant.append(qspec(qs, args, t))
  line = {"op": "layer", "cls": cls, "cfg": cfg_of(c), "x": tj(x), "weights": [tj(w) for w in W],
          "quant": quant, "actv": [qspec(q.get("act"))]}
  if cls == "conv2d" and c.mask is not None:
    line["mask"] = tj(c.mask.reshape(c.mask.shape + (1, 1)))
  if q.get("act") is not None and q["act"] not in SPEC:
    raise core.InfraError("activation %s has no element-wise model" % q["act"])
  c.line = line


def run_recurrent(c):
  import tensorflow as tf
  import qkeras as Q
  KL = tf.keras.layers
  g, q, cls = c.geo, c.q, c.cls
  rng = c.rng
  u, B, T = g["units"], g["batch"], g["steps"]
  x = dy(rng, [B, T, g["in_dim"]], 4, -6, 6)
  c.x = x
  kw = dict(use_bias=g["use_bias"], kernel_quantizer=q["kernel"], recurrent_quantizer=q["recurrent"],
            bias_quantizer=q["bias"], state_quantizer=q["state"], activation=q["act"],
            return_sequences=True, return_state=True)
  skw = dict(use_bias=g["use_bias"], activation=fresh_q(q["act"]))
  if cls == "simplernn":
    ql = Q.QSimpleRNN(u, **kw)
    mk_cell = lambda: KL.SimpleRNNCell(u, **skw)
  elif cls == "lstm":
    ql = Q.QLSTM(u, recurrent_activation=q["ract"], implementation=g["impl"], **kw)
    mk_cell = lambda: KL.LSTMCell(u, recurrent_activation=fresh_q(q["ract"]), implementation=g["impl"], **skw)
  else:
    ql = Q.QGRU(u, recurrent_activation=q["ract"], implementation=g["impl"], reset_after=g["reset_after"], **kw)
    mk_cell = lambda: KL.GRUCell(u, recurrent_activation=fresh_q(q["ract"]), implementation=g["impl"],
                                 reset_after=g["reset_after"], **skw)
  ql.build(x.shape)
  W = [dy(rng, [int(v) for v in w.shape], 16, -20, 20) for w in ql.weights]
  ql.set_weights(W)
  c.W = W
  try:
    outs = ql(tf.constant(x))
    c.impl = [np.asarray(o, dtype=np.float32) for o in outs]      # sequence of h, final h [, final c]
  except Exception as e:  # pylint: disable=broad-except
    c.err = (type(e).__name__, str(e)[:400])
  rep = ql.get_quantizers()
  c.reported = [None if r is None else str(r) for r in rep]
  wq = [q["kernel"], q["recurrent"], q["bias"]][:len(W)]
  tr = [True, True, False]
  QW = [apply_q(s, w, t) for s, w, t in zip(wq, W, tr)]
  sq = (lambda t: t) if q["state"] is None else fresh_q(q["state"])

  def stock_run(weights, state_q):
    cell = mk_cell()
    cell.build((B, g["in_dim"]))
    cell.set_weights(weights)
    st = [tf.zeros((B, u))] * (2 if cls == "lstm" else 1)
    seq = []
    for t in range(T):
      out, st = cell(tf.constant(x[:, t, :]), [state_q(s) for s in st])
      st = list(st) if isinstance(st, (list, tuple)) else [st]
      seq.append(np.asarray(out, dtype=np.float32))
    return [np.stack(seq, axis=1)] + [np.asarray(s, dtype=np.float32) for s in st]

  try:
    c.oracle = stock_run(QW, sq)
  except Exception as e:  # pylint: disable=broad-except
    raise core.InfraError("stock %s cell failed: %s" % (cls, e))
  c.stock_raw = stock_run(W, lambda t: t)
  quant = [qspec(s, [w], t) for s, w, t in zip(wq, W, tr)]
  while len(quant) < 3:
    quant.append(None if q["bias"] is None else qspec(q["bias"], []))
  if q["state"] is not None and q["state"] not in SPEC:
    raise core.InfraError("state quantizer without element-wise model")
  quant.append(qspec(q["state"]))
  c.line = {"op": "cell", "cls": cls, "cfg": cfg_of(c), "xs": [tj(x[:, t, :]) for t in range(T)],
            "states": [tj(np.zeros((B, u), np.float32))] * (2 if cls == "lstm" else 1),
            "weights": [tj(w) for w in W], "quant": quant, "actv": [qspec(q["act"]), qspec(q.get("ract"))]}


# ----------------------------------------------------------------------------- formerly broken sites

def site_of(c):
  """label of the four sites repaired in /repo (32aca3c, 0736682, d2aee32, c93cc1b); they are part of
  the generated grid and a regression there is reported under its own key"""
  if c.cls == "sepconv1d" and c.geo["padding"] == "causal":
    return "causal-padding-call"
  if c.cls == "lstm" and not c.geo["use_bias"] and c.q["bias"] is not None:
    return "bias-quantizer-without-bias"
  if c.cls == "gru" and c.q["recurrent"] is None:
    return "no-recurrent-quantizer"
  if c.cls == "gru" and c.geo["reset_after"] and c.geo["use_bias"]:
    return "reset-after-unstack"
  return None


def same(a, b):
  """bit for bit up to the sign of zero"""
  return a.shape == b.shape and bool(np.array_equal(a, b))


# ----------------------------------------------------------------------------- the check

def run(run: core.Run, tier: str):
  core.assert_repo_import()
  import tensorflow as tf
  tf.keras.backend.set_learning_phase(0)
  rng = np.random.default_rng(run.seed)
  cases = gen_cases(rng, tier)
  run.extra["rule"] = (
      "every class (QDense, QActivation, QConv1D, QConv2D, QSeparableConv1D/2D, QDepthwiseConv2D, "
      "QAveragePooling2D, QGlobalAveragePooling2D, QScaleShift, QSimpleRNN, QLSTM, QGRU) x a fixed grid of "
      "geometries (units/filters 1-4, kernel 1-3, strides 1-2, padding valid/same/causal, dilation 1-2, groups, "
      "depth multiplier, use_bias, mask, data_format, implementation 1/2, reset_after) x quantizer choices "
      "cycled over {quantized_bits, quantized_po2, ternary, binary, auto_po2, None} per slot x seeded "
      "short-dyadic weights (k/16) and inputs (k/4) so that every float32 sum is exact; non-trivial = "
      "distinct (class, geometry, quantizers) with at least one quantizer or activation configured")
  lines, live = [], []
  for idx, c in enumerate(cases):
    c.rng = np.random.default_rng([run.seed, idx])
    c.mask = None
    if c.cls in ("simplernn", "lstm", "gru"):
      run_recurrent(c)
    else:
      run_feedforward(c)
    lines.append(c.line)
    live.append(c)
    nontriv = any(v is not None for v in c.q.values())
    run.case(c.label, nontrivial=nontriv,
             sample={"class": c.cls, "geometry": c.geo, "quantizers": c.q,
                     "out0": None if c.impl is None else [str(v) for v in fr_list(c.impl[0])[:4]]})
    run.count("class_" + c.cls)
    for k in ("padding", "impl", "data_format"):
      if k in c.geo:
        run.count("%s_%s" % (k, c.geo[k]))
    for k, v in (("strides", (2, [2, 2], [2, 1], [1, 2])), ("dilation", (2, [2, 2], [1, 2])), ("groups", (2,)),
                 ("depth_multiplier", (2,)), ("mask", (True,)), ("reset_after", (True,))):
      if c.geo.get(k) in v:
        run.count(k + "_nondefault")
    if not c.geo.get("use_bias", True):
      run.count("no_bias")
    for s, v in c.q.items():
      run.count("q_%s" % ("none" if v is None else v.split("(")[0] + ("_auto" if v == AUTO else "")))
  outs = core.run_driver("C11", lines)

  for c, o in zip(live, outs):
    key0 = {"cls": c.cls}
    site = site_of(c)
    if site is not None:
      key0["site"] = site
      run.count("site_" + site)
    # ------------------------------------------------------------ model outputs (exact rationals)
    if c.cls in ("simplernn", "lstm", "gru"):
      steps = o["steps"]
      m_ok = all(t.get("ok", True) for S in steps for t in S)
      T = len(steps)
      B, u = c.geo["batch"], c.geo["units"]
      model = None
      if m_ok:
        hs = [model_tensor(S[0]) for S in steps]
        seq = np.empty((B, T, u), dtype=object)
        for t, h in enumerate(hs):
          seq[:, t, :] = np.array(h[1], dtype=object).reshape(B, u)
        model = [([B, T, u], list(seq.ravel()))] + [(model_tensor(t)[0], model_tensor(t)[1]) for t in steps[-1]]
    else:
      shp, data, m_ok = model_tensor(o["y"])
      model = [(shp, data)] if m_ok else None
    if not o.get("dropin", False) and m_ok:
      # the instance of the drop-in theorem evaluated by the driver itself must hold
      if not (c.cls == "sepconv1d" and AUTO in c.q.values()):
        run.disagree("theorem-instance", c.label, "-", "model's own drop-in equation is false on this instance")
    # ------------------------------------------------------------ crashes
    if c.err is not None:
      run.count("impl_raises_" + c.err[0])
      run.violate("runs", dict(key0, error=c.err[0]), {"case": c.label, "error": list(c.err)}, mirrored=False)
      continue
    if not m_ok:
      run.disagree("model-rejects", c.label, "runs", "model shape error")
      continue
    # ------------------------------------------------------------ tie 1: real layer vs Lean model
    # bit for bit; where the stock average divides by a non-power-of-two (no average quantizer) the
    # model's exact quotient is rounded once to binary32 (DESIGN 3.2 device 1: simulate)
    run.compared += 1
    bad = []
    for a_, (mshape, mdata) in zip(c.impl, model):
      if list(a_.shape) != list(mshape):
        bad.append(("shape", list(a_.shape), list(mshape)))
        continue
      av = fr_list(a_)
      for i, (iv, mv) in enumerate(zip(av, mdata)):
        if iv != mv:
          if c.cls in ("avgpool2d", "globalavgpool2d") and c.q["average"] is None and iv == rnd32(mv):
            run.count("rounded_quotient_points")
            continue
          bad.append((i, str(iv), str(mv)))
    mirrored = len(c.impl) == len(model) and not bad
    if not mirrored:
      run.disagree("layer:" + c.cls, {"case": c.label}, "impl != model", bad[:4])
    else:
      run.count("tie1_bit_exact")
    # ------------------------------------------------------------ tie 2: the property's oracle
    ok2 = len(c.impl) == len(c.oracle) and all(same(a, b) for a, b in zip(c.impl, c.oracle))
    run.compared += 1
    if not ok2:
      key = dict(key0)
      diffs = [[(int(i), str(F(float(a.ravel()[i]))), str(F(float(b.ravel()[i]))))
                for i in np.flatnonzero(a.ravel() != b.ravel())[:3]] if a.shape == b.shape else
               (str(a.shape), str(b.shape)) for a, b in zip(c.impl, c.oracle)]
      run.violate("dropin", key, {"case": c.label, "impl_vs_stock_on_quantized_weights": diffs}, mirrored=mirrored)
    else:
      run.count("tie2_dropin_holds")
    # ------------------------------------------------------------ no quantizer configured
    if all(v is None for k, v in c.q.items() if k not in ("act", "ract")) and c.q.get("act") is None \
        and c.stock_raw is not None and not c.geo.get("mask"):
      run.count("no_quantizer_cases")
      if not all(same(a, b) for a, b in zip(c.impl, c.stock_raw)):
        run.violate("no_quantizer", key0, {"case": c.label}, mirrored=mirrored)
    if c.cls in ("simplernn", "lstm", "gru") and all(c.q[k] is None for k in ("kernel", "recurrent", "bias", "state")):
      run.count("no_quantizer_cases")
      if not all(same(a, b) for a, b in zip(c.impl, c.stock_raw)):
        run.violate("no_quantizer", key0, {"case": c.label}, mirrored=mirrored)
    # ------------------------------------------------------------ tie 3: get_quantizers
    if c.cls != "activation":
      slots = SLOTS[c.cls]
      want = [None if s is None else str(fresh_q(c.q[slots[s]], slots[s] in TRAINABLE.get(c.cls, [])))
              for s in o["quantizers"]]
      run.compared += 1
      if c.reported != want:
        run.disagree("get_quantizers:" + c.cls, c.label, c.reported, want)
        run.violate("reported", key0, {"case": c.label, "reported": c.reported, "model": want}, mirrored=False)
      if o["applied"] != o["reported_live"]:
        run.disagree("applied-vs-reported", c.label, o["applied"], o["reported_live"])
  run.extra["cases"] = len(cases)
  run.assumptions.append(
      "exact regime: weights k/16, inputs k/4, quantized activations; every float32 partial sum is exactly "
      "representable, so TF's summation order does not matter (validated by the bit-for-bit ties)")
  run.assumptions.append(
      "quantizers without an element-wise Lean model (quantized_po2, ternary, binary, auto_po2) enter the concrete "
      "model as the table of the real quantizer's values at the tensors the layer term applies them to "
      "(oracle input, DESIGN 3.2 device 2); the abstract theorems hold for every quantizer function")
