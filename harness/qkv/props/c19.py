"""C19 — qtools operation counts are the true MAC counts and energy totals add up (DESIGN.md §4 C19).

Streams
  count    : random Keras/QKeras models -> QTools._output_dict[layer]['operation_count']
             vs the Lean `opCount` (exact) ; clause oracle = loop-nest count over the REAL layer
             (output positions from a real forward pass, taps from the real kernel), cross-checked
             against an empirical count (all-ones twin layer: sum(output) = number of real taps).
  est      : qkeras.estimate.extract_model_operations number_of_operations vs `estOps` and the oracle.
  energy   : QTools.pe(...) for placements x min_sram_size x rd_wr_on_io vs the Lean energy model
             evaluated on oracle values of the cost polynomials (taken from the live settings.cfg).
  extract  : (16 cost settings per report: empty / partial / full class lists, empty / missing default, absent
             and near-miss class keys; clause oracle `selected_keys` written from the property text)
             extract_energy_sum / extract_energy_profile vs `extractSum` / `extractProfile` on the
             returned dictionary, and vs an exact-fraction sum of the selected entries.
  documented: 16 pe() calls per QTools object; inputs / outputs / parameters AND op_cost of every layer of every
             call recomputed from the documented formula on the reported data (`doc_entries`, `doc_op_cost`:
             MAC, batch normalisation, pooling, merges of n operands = (n - 1) x count x unit).
  merge_spec: literal loop over (extra operand, element) of every generated n-ary merge vs `opsMergeNary`.
"""
import contextlib
import fractions
import io
import math
import os

import numpy as np

from .. import core

F = fractions.Fraction


# ----------------------------------------------------------------------------- helpers

def _prod(xs):
  p = 1
  for x in xs:
    p *= int(x)
  return p


def _shape(s):
  """Keras shape tuple without the batch entry"""
  return [int(d) for d in list(s)[1:]]


@contextlib.contextmanager
def _quiet():
  buf = io.StringIO()
  with contextlib.redirect_stdout(buf), contextlib.redirect_stderr(buf):
    yield


def _pair(v):
  if isinstance(v, (tuple, list)):
    return [int(x) for x in v]
  return [int(v)]


# ----------------------------------------------------------------------------- model generator

KQ = ["quantized_bits(4,0,1)", "quantized_bits(8,2,1)", "quantized_bits(3,0,1)", "binary()", "ternary()",
      "quantized_po2(4)", "quantized_bits(6,1,1)"]
AQ = ["quantized_relu(4)", "quantized_relu(6,2)", "quantized_bits(8,0,1)", "quantized_bits(4,0,1)",
      "quantized_relu(3,1)", "binary()"]
SRCQ = ["quantized_bits(8,0,1)", "quantized_bits(4,0,1)", "quantized_relu(6,2)"]


class Gen:
  """typed random model builder; every draw comes from `rng`"""

  def __init__(self, rng, run, K, Q):
    self.rng, self.run, self.K, self.Q = rng, run, K, Q

  def ri(self, lo, hi):
    return int(self.rng.integers(lo, hi + 1))

  def ch(self, xs):
    return xs[int(self.rng.integers(0, len(xs)))]

  def p(self, prob):
    return bool(self.rng.random() < prob)

  def kq(self):
    return self.ch(KQ)

  # -- single layers (x is a Keras tensor); return new tensor
  def act(self, x):
    return self.Q.QActivation(self.ch(AQ))(x)

  def conv2d(self, x, force=None):
    force = force or {}
    K, Q = self.K, self.Q
    h, w, c = [int(d) for d in x.shape[1:]]
    pad = force.get("padding", self.ch(["valid", "same"]))
    kh = self.ri(1, min(5, h) if pad == "valid" else 5)
    kw = self.ri(1, min(5, w) if pad == "valid" else 5)
    if self.p(0.35):
      kw = kh if (pad == "same" or kh <= w) else kw
    sh, sw, dh, dw = 1, 1, 1, 1
    mode = self.ch(["stride", "stride", "dil", "plain"])
    if mode == "stride":
      sh, sw = self.ri(1, 3), self.ri(1, 3)
    elif mode == "dil":
      dh, dw = self.ri(1, 3), self.ri(1, 3)
      if pad == "valid":
        while (kh - 1) * dh + 1 > h:
          dh -= 1
        while (kw - 1) * dw + 1 > w:
          dw -= 1
    filters = self.ri(1, 8)
    groups = force.get("groups", 1)
    if "groups" not in force and self.p(0.18):
      cands = [g for g in (2, 3, 4) if c % g == 0]
      if cands:
        groups = self.ch(cands)
    if groups > 1:
      filters = groups * self.ri(1, max(1, 8 // groups))
    use_bias = self.p(0.7)
    kwargs = dict(filters=filters, kernel_size=(kh, kw), strides=(sh, sw), padding=pad,
                  dilation_rate=(dh, dw), groups=groups, use_bias=use_bias)
    self.run.count("gen_conv2d_%s_%s%s" % (pad, mode, "_grouped" if groups > 1 else ""))
    if self.p(0.7):
      return Q.QConv2D(kernel_quantizer=self.kq(), bias_quantizer="quantized_bits(4,0,1)", **kwargs)(x)
    return K.layers.Conv2D(**kwargs)(x)

  def depthwise(self, x, force=None):
    force = force or {}
    K, Q = self.K, self.Q
    h, w, c = [int(d) for d in x.shape[1:]]
    pad = self.ch(["valid", "same"])
    kh = self.ri(1, min(5, h) if pad == "valid" else 5)
    kw = self.ri(1, min(5, w) if pad == "valid" else 5)
    s = self.ri(1, 3)
    dm = force.get("dm", 1)
    use_bias = self.p(0.6)
    self.run.count("gen_depthwise_%s%s" % (pad, "_dm" if dm > 1 else ""))
    if (dm == 1 and self.p(0.6)) or (dm > 1 and self.p(0.35)):
      # (depth_multiplier > 1 on the quantized class: qtools refuses it, estimate.py accepts it)
      return Q.QDepthwiseConv2D((kh, kw), strides=(s, s), padding=pad, use_bias=use_bias,
                                depth_multiplier=dm,
                                depthwise_quantizer=self.kq(), bias_quantizer="quantized_bits(4,0,1)")(x)
    return K.layers.DepthwiseConv2D((kh, kw), strides=(s, s), padding=pad, use_bias=use_bias,
                                    depth_multiplier=dm)(x)

  def conv1d(self, x, force=None):
    force = force or {}
    K, Q = self.K, self.Q
    n, c = [int(d) for d in x.shape[1:]]
    pad = self.ch(["valid", "same", "causal"])
    k = self.ri(1, min(5, n) if pad == "valid" else 5)
    s, d = 1, 1
    mode = self.ch(["stride", "dil", "plain"])
    if mode == "stride":
      s = self.ri(1, 3)
    elif mode == "dil":
      d = self.ri(1, 3)
      if pad == "valid":
        while (k - 1) * d + 1 > n:
          d -= 1
    filters = self.ri(1, 8)
    groups = 1
    if self.p(0.12):
      cands = [g for g in (2, 3, 4) if c % g == 0]
      if cands:
        groups = self.ch(cands)
        filters = groups * self.ri(1, max(1, 8 // groups))
    kwargs = dict(filters=filters, kernel_size=k, strides=s, padding=pad, dilation_rate=d, groups=groups,
                  use_bias=self.p(0.7))
    self.run.count("gen_conv1d_%s_%s%s" % (pad, mode, "_grouped" if groups > 1 else ""))
    if self.p(0.7):
      return Q.QConv1D(kernel_quantizer=self.kq(), bias_quantizer="quantized_bits(4,0,1)", **kwargs)(x)
    return K.layers.Conv1D(**kwargs)(x)

  def dense(self, x):
    K, Q = self.K, self.Q
    units = self.ri(1, 8)
    self.run.count("gen_dense")
    if self.p(0.7):
      return Q.QDense(units, kernel_quantizer=self.kq(), bias_quantizer="quantized_bits(4,0,1)",
                      use_bias=self.p(0.7))(x)
    return K.layers.Dense(units, use_bias=self.p(0.7))(x)

  def avgpool(self, x):
    h, w, c = [int(d) for d in x.shape[1:]]
    pad = self.ch(["valid", "same"])
    ph = self.ri(1, min(3, h))
    pw = ph if self.p(0.6) and ph <= w else self.ri(1, min(3, w))
    strides = None if self.p(0.5) else (self.ri(1, 3), self.ri(1, 3))
    self.run.count("gen_avgpool_%s" % pad)
    return self.K.layers.AveragePooling2D((ph, pw), strides=strides, padding=pad)(x)

  # -- whole models
  def head(self, shape, with_act=None):
    x_in = self.K.layers.Input(shape)
    x = x_in
    if with_act is None:
      with_act = self.p(0.7)
    if with_act:
      x = self.act(x)
    return x_in, x

  def m_conv2d(self):
    K = self.K
    shape = (self.ri(4, 12), self.ri(4, 12), self.ri(1, 8))
    x_in, x = self.head(shape)
    n = self.ri(1, 3)
    for i in range(n):
      h, w, _ = [int(d) for d in x.shape[1:]]
      if h < 1 or w < 1:
        break
      r = self.rng.random()
      if r < 0.55:
        x = self.conv2d(x)
      elif r < 0.75:
        x = self.depthwise(x)
      elif r < 0.82:
        x = self.act(x)
      elif r < 0.88:
        x = K.layers.MaxPooling2D(2 if min(h, w) >= 2 else 1)(x)
        self.run.count("gen_maxpool")
      elif r < 0.93:
        x = K.layers.UpSampling2D(2)(x)
        self.run.count("gen_upsampling")
      else:
        x = (self.Q.QBatchNormalization() if self.p(0.5) else K.layers.BatchNormalization())(x)
        self.run.count("gen_batchnorm")
    if self.p(0.3):
      x = K.layers.Flatten()(x)
      self.run.count("gen_flatten")
      x = self.dense(x)
    return K.Model(x_in, x), 1

  def m_conv1d(self):
    K = self.K
    shape = (self.ri(4, 12), self.ri(1, 8))
    x_in, x = self.head(shape)
    for i in range(self.ri(1, 2)):
      if int(x.shape[1]) < 1:
        break
      x = self.conv1d(x)
      if self.p(0.3):
        x = self.act(x)
    return K.Model(x_in, x), 1

  def m_dense(self):
    K = self.K
    x_in, x = self.head((self.ri(1, 12),))
    for i in range(self.ri(1, 3)):
      x = self.dense(x)
      if self.p(0.4):
        x = self.act(x)
    return K.Model(x_in, x), 1

  def m_dense_se(self):
    """dense on (1, 1, C) — the squeeze-and-excite shape get_operation_count documents"""
    K = self.K
    x_in, x = self.head((1, 1, self.ri(1, 8)), with_act=True)
    x = self.dense(x)
    self.run.count("gen_dense_se")
    return K.Model(x_in, x), 1

  def m_dense_lead(self):
    """Dense(1) on (C, 1) / (1, C, 1) / (C, 1, 1): every size assertion passes and the large
    dimension is NOT the feature axis (the kernel is 1x1, applied at C positions); the unrepaired
    code took np.max for both sizes (fix 174b8b4)"""
    K, Q = self.K, self.Q
    c = self.ri(2, 8)
    shape = self.ch([(c, 1), (c, 1), (1, c, 1), (c, 1, 1)])
    x_in, x = self.head(shape, with_act=True)
    if self.p(0.75):
      x = Q.QDense(1, kernel_quantizer=self.kq(), bias_quantizer="quantized_bits(4,0,1)")(x)
    else:
      x = K.layers.Dense(1)(x)
    self.run.count("gen_dense_leading_axis_rank%d" % len(shape))
    return K.Model(x_in, x), 1

  def m_pool(self):
    K = self.K
    shape = (self.ri(4, 12), self.ri(4, 12), self.ri(1, 8))
    x_in, x = self.head(shape)
    if self.p(0.5):
      x = self.conv2d(x)
    r = self.rng.random()
    if r < 0.55:
      x = self.avgpool(x)
    elif r < 0.8:
      x = K.layers.GlobalAveragePooling2D()(x)
      self.run.count("gen_globalavgpool")
    elif r < 0.9:
      x = self.Q.QGlobalAveragePooling2D(average_quantizer="quantized_bits(6,0,1)")(x)
      self.run.count("gen_qglobalavgpool")
    else:
      x = self.qavgpool(x)
    return K.Model(x_in, x), 1

  def qavgpool(self, x):
    """QAveragePooling2D: counted like AveragePooling2D since fix 2d53185 (it used to be in no
    branch of get_operation_count: 0)"""
    h, w, _ = [int(d) for d in x.shape[1:]]
    pad = self.ch(["valid", "same"])
    ph = self.ri(1, min(3, h))
    pw = ph if self.p(0.6) and ph <= w else self.ri(1, min(3, w))
    strides = None if self.p(0.5) else (self.ri(1, 3), self.ri(1, 3))
    self.run.count("gen_qavgpool_%s" % pad)
    return self.Q.QAveragePooling2D((ph, pw), strides=strides, padding=pad,
                                    average_quantizer=self.ch(["quantized_bits(6,0,1)", "quantized_bits(8,1,1)"]))(x)

  def m_qpool(self):
    K = self.K
    shape = (self.ri(4, 12), self.ri(4, 12), self.ri(1, 8))
    x_in, x = self.head(shape)
    if self.p(0.4):
      x = self.conv2d(x)
    x = self.qavgpool(x)
    return K.Model(x_in, x), 1

  def m_merge(self):
    K = self.K
    n = self.ch([2, 2, 3])
    rank = self.ch([1, 3])
    shape = (self.ri(1, 12),) if rank == 1 else (self.ri(2, 6), self.ri(2, 6), self.ri(1, 4))
    cls = self.ch(["Add", "Add", "Multiply", "Average", "Maximum", "Minimum", "Concatenate"])
    ins = [K.layers.Input(shape) for _ in range(n)]
    branches = []
    for t in ins:
      branches.append(self.Q.QActivation(self.ch(["quantized_bits(4,0,1)", "quantized_bits(5,1,1)",
                                                  "quantized_relu(4)", "quantized_bits(6,0,1)"]))(t))
    x = getattr(K.layers, cls)()(branches)
    self.run.count("gen_merge_%s_%d" % (cls, n))
    return K.Model(ins, x), n

  def m_multi_out(self):
    """shared trunk, 2-3 output heads of different classes (the output layers are NOT the last layers
    processed one after the other only: Keras lists all heads at the end, so a later head follows an
    earlier OUTPUT layer in energy_estimate's loop); sometimes an intermediate tensor is an output too"""
    K, Q = self.K, self.Q
    shape = (self.ri(4, 8), self.ri(4, 8), self.ri(1, 4))
    x_in, x = self.head(shape)
    x = self.conv2d(x)
    trunk = self.act(x)
    heads = []
    n_heads = self.ch([2, 2, 3])
    for _ in range(n_heads):
      kind = self.ch(["dense", "dense", "conv", "act", "pool_dense"])
      y = trunk
      if kind == "dense":
        y = K.layers.Flatten()(y)
        y = Q.QDense(self.ri(1, 6), kernel_quantizer=self.kq(), bias_quantizer="quantized_bits(4,0,1)",
                     use_bias=self.p(0.7))(y)
      elif kind == "conv":
        y = self.conv2d(y, force={"padding": "same"})
      elif kind == "act":
        y = self.act(y)
      else:
        y = K.layers.GlobalAveragePooling2D()(y)
        y = Q.QDense(self.ri(1, 4), kernel_quantizer=self.kq(), bias_quantizer="quantized_bits(4,0,1)")(y)
      if self.p(0.3):
        y = self.act(y)
      heads.append(y)
    if self.p(0.25):
      heads.insert(0, trunk)      # an inner tensor that is ALSO a model output
    self.run.count("gen_multi_out_%d" % len(heads))
    return K.Model(x_in, heads), 1

  def m_multi_in(self):
    """two model inputs, each with its own first layer (two INPUT layers), merged, then a head"""
    K, Q = self.K, self.Q
    shape = (self.ri(3, 6), self.ri(3, 6), self.ri(1, 4))
    ins = [K.layers.Input(shape) for _ in range(2)]
    bs = []
    c = self.ri(1, 4)
    for t in ins:
      if self.p(0.5):
        t = self.act(t)
      t = Q.QConv2D(c, 1, kernel_quantizer=self.kq(), bias_quantizer="quantized_bits(4,0,1)")(t)
      bs.append(self.act(t))
    x = K.layers.Add()(bs)
    x = K.layers.Flatten()(x)
    x = Q.QDense(self.ri(1, 4), kernel_quantizer=self.kq(), bias_quantizer="quantized_bits(4,0,1)")(x)
    self.run.count("gen_multi_in")
    return K.Model(ins, x), 2

  def m_grouped(self):
    K = self.K
    g = self.ch([2, 2, 3, 4])
    shape = (self.ri(4, 10), self.ri(4, 10), g * self.ri(1, 8 // g))
    x_in, x = self.head(shape)
    x = self.conv2d(x, force={"groups": g})
    return K.Model(x_in, x), 1

  def m_dw_mult(self):
    K = self.K
    shape = (self.ri(4, 10), self.ri(4, 10), self.ri(1, 4))
    x_in, x = self.head(shape)
    x = self.depthwise(x, force={"dm": self.ri(2, 3)})
    return K.Model(x_in, x), 1

  def m_sep(self):
    """QSeparableConv: estimate.py knows it (1x1 stage under-counted: recorded finding), qtools
    does not support it ("cannot parse", operation_count 0: recorded finding)"""
    K, Q = self.K, self.Q
    if self.p(0.5):
      shape = (self.ri(4, 10), self.ri(4, 10), self.ri(1, 6))
      x_in, x = self.head(shape, with_act=True)
      h, w, _ = shape
      pad = self.ch(["valid", "same"])
      k = self.ri(1, min(4, h, w))
      x = Q.QSeparableConv2D(self.ri(1, 8), k, strides=self.ri(1, 2), padding=pad,
                             depthwise_quantizer=self.kq(), pointwise_quantizer=self.kq(),
                             bias_quantizer="quantized_bits(4,0,1)")(x)
      self.run.count("gen_sepconv2d")
    else:
      shape = (self.ri(4, 12), self.ri(1, 6))
      x_in, x = self.head(shape, with_act=True)
      pad = self.ch(["valid", "same"])
      x = Q.QSeparableConv1D(self.ri(1, 8), self.ri(1, min(4, shape[0])), strides=self.ri(1, 2), padding=pad,
                             depthwise_quantizer=self.kq(), pointwise_quantizer=self.kq(),
                             bias_quantizer="quantized_bits(4,0,1)")(x)
      self.run.count("gen_sepconv1d")
    return K.Model(x_in, x), 1


  # -- strengthening round 3: n-ary merges inside models, batch normalisation (drawn from their OWN stream)
  MERGE_AQ = ["quantized_relu(4,1)", "quantized_relu(5,1)", "quantized_relu(6,2)", "quantized_relu(3,1)",
              "quantized_bits(4,0,1)", "quantized_bits(6,1,1)", "quantized_bits(8,2,1)", "binary()", "ternary()",
              "quantized_po2(4)"]

  def merge_of(self, ops, cls=None):
    """one element-wise merge layer over DISTINCT operand tensors `ops` (2..5 of them)"""
    K = self.K
    if cls is None:
      cls = self.ch(["Add", "Add", "Add", "Multiply", "Multiply", "Average", "Maximum", "Minimum"])
    self.run.count("gen_merge_%s_%d" % (cls, len(ops)))
    return getattr(K.layers, cls)()(list(ops))

  def m_merge_nary(self):
    """element-wise merges of 2..5 DISTINCT operands inside a model: the operands are branches of one
    trunk (QConv2D / QDense + QActivation with different output types, so the merge operator has different
    widths and implementations: adder, multiplier, mux, xor, and-gate, shifter) or separate model inputs;
    1-3 merge layers over random operand subsets, optionally followed by an activation; then either every
    merge is a model output, or the merges are merged again (merge of merges), optionally followed by
    Flatten + QDense.  (Subtract is refused by qtools' data-type map, repeated operands are de-duplicated
    by its graph: neither is generated, see notes.)"""
    K, Q = self.K, self.Q
    k = self.ch([3, 3, 4, 4, 5])
    variant = self.ch(["conv", "conv", "dense", "inputs"])
    if variant == "inputs":
      shape = (self.ri(1, 8),) if self.p(0.5) else (self.ri(2, 5), self.ri(2, 5), self.ri(1, 3))
      ins = [K.layers.Input(shape) for _ in range(k)]
      branches = [Q.QActivation(self.ch(self.MERGE_AQ))(t) for t in ins]
      n_in = k
    elif variant == "conv":
      shape = (self.ri(3, 6), self.ri(3, 6), self.ri(1, 3))
      x_in, x = self.head(shape)
      ins, n_in = x_in, 1
      f = self.ri(1, 4)
      branches = []
      for _ in range(k):
        t = Q.QConv2D(f, self.ch([1, 3]), padding="same", kernel_quantizer=self.kq(),
                      bias_quantizer="quantized_bits(4,0,1)", use_bias=self.p(0.7))(x)
        branches.append(Q.QActivation(self.ch(self.MERGE_AQ))(t))
    else:
      x_in, x = self.head((self.ri(2, 10),))
      ins, n_in = x_in, 1
      u = self.ri(1, 8)
      branches = []
      for _ in range(k):
        t = Q.QDense(u, kernel_quantizer=self.kq(), bias_quantizer="quantized_bits(4,0,1)")(x)
        branches.append(Q.QActivation(self.ch(self.MERGE_AQ))(t))
    merges = []
    n_merges = self.ch([1, 2, 2, 3])
    for mi in range(n_merges):
      n = k if mi == 0 else self.ri(2, k)          # the first merge takes every branch (3..5 operands)
      idx = sorted(int(i) for i in self.rng.permutation(k)[:n])
      y = self.merge_of([branches[i] for i in idx])
      if self.p(0.6):
        y = Q.QActivation(self.ch(["quantized_relu(6,2)", "quantized_bits(8,2,1)", "quantized_relu(8,3)"]))(y)
      merges.append(y)
    self.run.count("gen_merge_nary_%s" % variant)
    if len(merges) > 1 and self.p(0.6):
      ops = list(merges)
      if self.p(0.5):
        ops.append(branches[self.ri(0, k - 1)])
      y = self.merge_of(ops, cls=self.ch(["Add", "Add", "Multiply"]))     # merge of merges
      self.run.count("gen_merge_nested")
      if self.p(0.5):
        y = Q.QActivation("quantized_relu(8,3)")(y)
      if self.p(0.4):
        y = K.layers.Flatten()(y)
        y = Q.QDense(self.ri(1, 4), kernel_quantizer=self.kq(), bias_quantizer="quantized_bits(4,0,1)")(y)
      outs = y
    else:
      outs = merges if len(merges) > 1 else merges[0]
    return K.Model(ins, outs), n_in

  def m_bn(self):
    """(Q)BatchNormalization after conv / dense / activation, with scale / center switched off and po2
    parameter quantizers: divider and multiplier present / absent, adder / shifter / multiplier modes"""
    K, Q = self.K, self.Q
    if self.p(0.6):
      x_in, x = self.head((self.ri(3, 6), self.ri(3, 6), self.ri(1, 3)))
      x = Q.QConv2D(self.ri(1, 4), self.ch([1, 3]), padding="same", kernel_quantizer=self.kq(),
                    bias_quantizer="quantized_bits(4,0,1)")(x)
    else:
      x_in, x = self.head((self.ri(2, 10),))
      x = Q.QDense(self.ri(1, 8), kernel_quantizer=self.kq(), bias_quantizer="quantized_bits(4,0,1)")(x)
    for _ in range(self.ri(1, 3)):
      r = self.ri(0, 5)
      if r == 0:
        x = K.layers.BatchNormalization()(x)
      elif r == 1:
        x = Q.QBatchNormalization()(x)
      elif r == 2:
        x = Q.QBatchNormalization(scale=False)(x)
      elif r == 3:
        x = Q.QBatchNormalization(center=False)(x)
      elif r == 4:
        x = Q.QBatchNormalization(gamma_quantizer="quantized_po2(4)", variance_quantizer="quantized_po2(4)",
                                  beta_quantizer="quantized_bits(4,0,1)", mean_quantizer="quantized_bits(4,0,1)")(x)
      else:
        x = K.layers.BatchNormalization(scale=False, center=self.p(0.5))(x)
      self.run.count("gen_batchnorm_variant_%d" % r)
      if self.p(0.5):
        x = self.act(x)
    return K.Model(x_in, x), 1


  # -- strengthening round 4: merges of BROADCAST operands, floating-point reference models (own stream)
  BCAST_AQ = ["quantized_relu(4,1)", "quantized_relu(6,2)", "quantized_bits(4,0,1)", "quantized_bits(8,2,1)",
              "quantized_relu(3,1)", "quantized_bits(6,1,1)"]

  def m_merge_bcast(self):
    """element-wise merge whose operands have DIFFERENT shapes (Keras broadcasts them): one operand has the
    full (H, W, C) / (C,) shape of the result, the others are broadcast along the channel axis (H, W, 1),
    the spatial axes (1, 1, C) (squeeze-and-excite), one spatial axis (H, 1, C) / (1, W, C), every axis
    (1, 1, 1), or are rank-2 gates (1,) x (C,); 2-3 operands, the full operand first / last / in the middle
    of the Keras call; one model in five is a TWO-SIDED broadcast where no operand has the shape of the result
    ((H,1,C) x (1,W,C), (H,W,1) x (1,1,C): recorded finding C19-merge-two-sided-broadcast).  Every operand of one merge carries the SAME activation quantizer (energy_estimate
    pairs Keras' operand shapes with the graph's edge order, see notes)."""
    K, Q = self.K, self.Q
    aq = self.ch(self.BCAST_AQ)
    small_kinds = []
    if self.p(0.25):
      c = self.ri(2, 8)
      x_in, x = self.head((self.ri(2, 10),))
      full = Q.QActivation(aq)(Q.QDense(c, kernel_quantizer=self.kq(), bias_quantizer="quantized_bits(4,0,1)")(x))
      def small(kind):
        return Q.QActivation(aq)(Q.QDense(1, kernel_quantizer=self.kq(), bias_quantizer="quantized_bits(4,0,1)")(x))
      kinds = ["gate"]
    else:
      h, w, c = self.ri(2, 6), self.ri(2, 6), self.ri(2, 6)
      x_in, x = self.head((h, w, self.ri(1, 3)))
      full = Q.QActivation(aq)(Q.QConv2D(c, self.ch([1, 3]), padding="same", kernel_quantizer=self.kq(),
                                         bias_quantizer="quantized_bits(4,0,1)")(x))
      def small(kind):
        f, ks = {"channel": (1, (1, 1)), "spatial": (c, (h, w)), "row": (c, (1, w)), "col": (c, (h, 1)),
                 "scalar": (1, (h, w))}[kind]
        t = Q.QConv2D(f, ks, padding="valid", kernel_quantizer=self.kq(), bias_quantizer="quantized_bits(4,0,1)")(full)
        return Q.QActivation(aq)(t)
      kinds = ["channel", "channel", "channel", "spatial", "row", "col", "scalar"]
    n_small = self.ch([1, 1, 1, 2])
    ops = []
    two_sided = len(kinds) > 1 and self.p(0.2)
    if two_sided:
      # NO operand has the shape of the result: (H,1,C) x (1,W,C) or (H,W,1) x (1,1,C), either order
      small_kinds = list(self.ch([("row", "col"), ("col", "row"), ("channel", "spatial"), ("spatial", "channel")]))
      ops = [small(k_) for k_ in small_kinds]
      small_kinds.append("twosided")
      pos = -1
    else:
      for _ in range(n_small):
        kind = self.ch(kinds)
        small_kinds.append(kind)
        ops.append(small(kind))
      pos = self.ri(0, len(ops))            # where the full operand goes: 0 = first ... len = last
      ops.insert(pos, full)
    cls = self.ch(["Add", "Add", "Multiply", "Multiply", "Multiply", "Average", "Maximum", "Minimum"])
    y = getattr(K.layers, cls)()(ops)
    self.run.count("gen_merge_bcast_%s_%s_full_%s" % (cls, "+".join(sorted(small_kinds)),
                                                      "absent" if pos < 0 else "first" if pos == 0 else "last" if pos == len(ops) - 1 else "middle"))
    if self.p(0.5):
      y = Q.QActivation(self.ch(["quantized_relu(6,2)", "quantized_bits(8,2,1)"]))(y)
    if self.p(0.3):
      y = K.layers.Flatten()(y)
      y = Q.QDense(self.ri(1, 4), kernel_quantizer=self.kq(), bias_quantizer="quantized_bits(4,0,1)")(y)
    return K.Model(x_in, y), 1

  def m_ref_fp(self):
    """a model of one of the other builders (single input), meant for the floating-point REFERENCE route"""
    return self.ch([self.m_conv2d, self.m_conv2d, self.m_dense, self.m_pool, self.m_conv1d, self.m_bn,
                    self.m_merge_nary, self.m_merge_bcast, self.m_multi_out])()


# ----------------------------------------------------------------------------- oracle on a real layer

CONV2D = ("QConv2D", "Conv2D")
CONV1D = ("QConv1D", "Conv1D")
DEPTHWISE = ("QDepthwiseConv2D", "DepthwiseConv2D")
DENSE = ("QDense", "Dense")
AVGPOOL = ("AveragePooling2D", "QAveragePooling2D")
GAP = ("GlobalAveragePooling2D", "QGlobalAveragePooling2D")
ELEMWISE_MERGE = ("Add", "Multiply", "Subtract", "Average", "Maximum", "Minimum")
SEP2D = ("QSeparableConv2D",)
SEP1D = ("QSeparableConv1D",)


def real_out_shape(K, tf, layer, in_shapes):
  """shape of a REAL forward pass of the layer on zeros (not compute_output_shape)"""
  xs = [tf.zeros([1] + list(s)) for s in in_shapes]
  y = layer(xs if len(xs) > 1 else xs[0])
  return [int(d) for d in y.shape[1:]]


def twin_ones_sum(K, tf, layer, in_shape):
  """number of REAL (non-padded) multiply terms, measured: a float Keras twin of the layer's
  geometry with all-ones kernel(s), no bias, fed all ones; the sum of its output counts them."""
  cls = layer.__class__.__name__
  cfg = layer.get_config()
  x = tf.ones([1] + list(in_shape))
  if cls in CONV2D:
    t = K.layers.Conv2D(cfg["filters"], cfg["kernel_size"], strides=cfg["strides"], padding=cfg["padding"],
                        dilation_rate=cfg["dilation_rate"], groups=cfg["groups"], use_bias=False,
                        kernel_initializer="ones")
  elif cls in CONV1D:
    t = K.layers.Conv1D(cfg["filters"], cfg["kernel_size"], strides=cfg["strides"], padding=cfg["padding"],
                        dilation_rate=cfg["dilation_rate"], groups=cfg["groups"], use_bias=False,
                        kernel_initializer="ones")
  elif cls in DEPTHWISE:
    t = K.layers.DepthwiseConv2D(cfg["kernel_size"], strides=cfg["strides"], padding=cfg["padding"],
                                 depth_multiplier=cfg["depth_multiplier"],
                                 dilation_rate=cfg.get("dilation_rate", (1, 1)), use_bias=False,
                                 depthwise_initializer="ones")
  elif cls in DENSE:
    t = K.layers.Dense(cfg["units"], use_bias=False, kernel_initializer="ones")
  else:
    return None
  try:
    y = t(x)
  except Exception:  # pylint: disable=broad-except
    return None     # e.g. grouped convolution kernels missing on this CPU build
  return int(round(float(tf.reduce_sum(y).numpy())))


def layer_oracle(K, tf, layer, in_shapes):
  """(kind, brute-force loop-nest count, details) for one real layer; None if the class is not one
  the property names.  Output positions come from a real forward pass, taps from real kernels."""
  cls = layer.__class__.__name__
  in_shape = in_shapes[0]
  d = {"class": cls}
  if cls in CONV2D + CONV1D:
    out = real_out_shape(K, tf, layer, in_shapes)
    kern = layer.get_weights()[0].shape            # (*k, cin/groups, cout)
    taps_per_out = _prod(kern[:-1])
    n = 0
    for pos in np.ndindex(*out[:-1]):
      for co in range(out[-1]):
        n += taps_per_out
    d.update(out=out, kernel=list(kern), groups=int(layer.groups), positions=_prod(out[:-1]))
    return ("conv2d" if cls in CONV2D else "conv1d"), n, d
  if cls in DEPTHWISE:
    out = real_out_shape(K, tf, layer, in_shapes)
    kern = layer.get_weights()[0].shape            # (kh, kw, cin, dm)
    n = 0
    for pos in np.ndindex(*out[:-1]):
      for c in range(out[-1]):                     # cin*dm output channels, kh*kw taps each
        n += int(kern[0]) * int(kern[1])
    d.update(out=out, kernel=list(kern), dm=int(kern[3]), positions=_prod(out[:-1]))
    return "depthwise", n, d
  if cls in DENSE:
    out = real_out_shape(K, tf, layer, in_shapes)
    kern = layer.get_weights()[0].shape            # (n_in, units)
    n = 0
    for pos in np.ndindex(*out[:-1]) if len(out) > 1 else [()]:
      for u in range(out[-1]):
        n += int(kern[0])
    d.update(out=out, kernel=list(kern), lead=_prod(in_shape[:-1]))
    return "dense", n, d
  if cls in AVGPOOL:
    out = real_out_shape(K, tf, layer, in_shapes)
    pool = _pair(layer.pool_size)
    n = 0
    for pos in np.ndindex(*out[:-1]):
      for c in range(out[-1]):
        n += _prod(pool)
    d.update(out=out, pool=pool, positions=_prod(out[:-1]))
    return "avgpool", n, d
  if cls in GAP:
    out = real_out_shape(K, tf, layer, in_shapes)
    n = 0
    for c in range(out[-1]):
      n += _prod(in_shape[:-1])
    d.update(out=out)
    return "globalavgpool", n, d
  if cls in ELEMWISE_MERGE:
    out = real_out_shape(K, tf, layer, in_shapes)
    d.update(out=out, n_inputs=len(in_shapes), in_shapes=[list(x) for x in in_shapes])
    return "merge", _prod(out), d                  # operations per extra operand (see notes)
  if cls in SEP2D + SEP1D:
    out = real_out_shape(K, tf, layer, in_shapes)
    ws = layer.get_weights()
    dk, pk = ws[0].shape, ws[1].shape              # depthwise (*k, cin, dm), pointwise (1.., cin*dm, cout)
    positions = _prod(out[:-1])
    n = 0
    for pos in range(positions):
      for c in range(int(dk[-2]) * int(dk[-1])):
        n += _prod(dk[:-2])
      for co in range(out[-1]):
        n += int(pk[-2])
    d.update(out=out, kernel=list(dk), pointwise=list(pk), positions=positions)
    return ("sepconv2d" if cls in SEP2D else "sepconv1d"), n, d
  return None


def spec_line(kind, layer, in_shape):
  """geometry of a real layer -> `spec` request for the Lean index model"""
  cfg = layer.get_config()
  base = {"op": "spec", "kind": kind, "pad": "valid", "h": 1, "w": 1, "kh": 1, "kw": 1, "sh": 1, "sw": 1,
          "dh": 1, "dw": 1, "ci": 1, "co": 1, "groups": 1, "dm": 1}
  if kind in ("conv2d", "depthwise", "sepconv2d"):
    k, s, dl = _pair(cfg["kernel_size"]), _pair(cfg["strides"]), _pair(cfg.get("dilation_rate", (1, 1)))
    base.update(pad=cfg["padding"], h=in_shape[0], w=in_shape[1], kh=k[0], kw=k[1], sh=s[0], sw=s[1],
                dh=dl[0], dw=dl[1], ci=in_shape[2])
    if kind == "conv2d":
      base.update(co=cfg["filters"], groups=cfg["groups"])
    elif kind == "depthwise":
      base.update(dm=cfg["depth_multiplier"])
    else:
      base.update(co=cfg["filters"], dm=cfg["depth_multiplier"])
  elif kind in ("conv1d", "sepconv1d"):
    k, s, dl = _pair(cfg["kernel_size"]), _pair(cfg["strides"]), _pair(cfg.get("dilation_rate", 1))
    base.update(pad=cfg["padding"], h=in_shape[0], kh=k[0], sh=s[0], dh=dl[0], ci=in_shape[1], co=cfg["filters"])
    if kind == "conv1d":
      base.update(groups=cfg["groups"])
    else:
      base.update(dm=cfg["depth_multiplier"])
  elif kind == "avgpool":
    k = _pair(cfg["pool_size"])
    s = _pair(cfg["strides"]) if cfg.get("strides") is not None else k
    base.update(pad=cfg["padding"], h=in_shape[0], w=in_shape[1], kh=k[0], kw=k[1], sh=s[0], sw=s[1],
                ci=in_shape[2])
  elif kind == "globalavgpool":
    base.update(h=in_shape[0], w=in_shape[1], ci=in_shape[2])
  elif kind == "dense":
    # h = number of positions of the leading axes the kernel is applied at
    base.update(h=_prod(in_shape[:-1]), ci=in_shape[-1], co=cfg["units"])
  return base


def count_signature(kind, reported, brute, d):
  """name the way a wrong count is wrong, so that a different defect gives a different key"""
  if reported == brute:
    return "ok"
  if reported == 0:
    return "defaulted_zero"
  if kind == "avgpool" and reported * d["positions"] == brute:
    return "missing_output_positions"
  if kind in ("conv2d", "conv1d") and d.get("groups", 1) > 1 and reported == d["groups"] * brute:
    return "overcount_by_groups"
  if kind == "depthwise" and d.get("dm", 1) > 1 and reported * d["dm"] == brute:
    return "missing_depth_multiplier"
  if kind == "dense" and d.get("lead", 1) > 1 and d["kernel"] == [1, 1] and reported == d["lead"] ** 2:
    return "max_over_leading_axis"
  if kind == "merge" and d.get("in_shapes"):
    sizes = [_prod(x) for x in d["in_shapes"]]
    if max(sizes) < brute and reported == max(sizes):
      # no operand has the shape of the result and the LARGEST operand was counted
      return "largest_operand_of_two_sided_broadcast"
    if any(z < brute and reported == z for z in sizes):
      return "size_of_a_broadcast_operand"
  if kind in ("sepconv2d", "sepconv1d"):
    dk, pk = d["kernel"], d["pointwise"]
    dwpart = d["positions"] * _prod(dk)
    if reported == d["positions"] * _prod(dk[:-1]) + d["positions"] * pk[-1] and dk[-1] == 1:
      return "pointwise_missing_input_channels"
    del dwpart
  return "other"


# ----------------------------------------------------------------------------- energy adaptation

def _unit(u):
  if u is None:
    return None
  return {"gf": core.rj(u.gate_factor), "gb": core.rj(u.gate_bits), "mode": u.implemented_as(),
          "bits": core.rj(u.output.bits), "float": bool(u.output.is_floating_point)}


def elayer_of(layer, item, layer_map, gv):
  """what energy_estimate reads of one layer -> protocol record + the numbers the cost polynomials
  will be evaluated at"""
  cls = layer.__class__.__name__
  iq = gv(item, "input_quantizer_list")
  in_shape = layer.input_shape
  if not isinstance(in_shape, list):
    in_shape = [in_shape]
  inputs = [[_prod(s[1:]), core.rj(q.bits)] for s, q in zip(in_shape, iq)]
  out_shapes = gv(item, "output_shapes")
  outq = gv(item, "output_quantizer")
  rec = {"cls": cls, "is_input": layer in layer_map["input_layers"],
         "is_output": layer in layer_map["output_layers"], "inputs": inputs, "n_inputs": len(iq),
         "out_elems": _prod(list(out_shapes)[1:]), "out_bits": core.rj(outq.bits),
         "count": int(gv(item, "operation_count")), "bn_size": 0, "bn_bits": [], "w_elems": 0,
         "w_bits": core.rj(0), "bias": None, "multiplier": None, "accumulator": None,
         "pool_accumulator": None, "bn_div": None, "bn_mul": None}
  sizes = [i[0] for i in inputs] + [rec["out_elems"]]
  bits = [F(q.bits) for q in iq] + [F(outq.bits)]
  gate = []
  if cls in ("QBatchNormalization", "BatchNormalization"):
    rec["bn_size"] = int(len(layer.get_weights()[0]))
    for k in ("gamma_quantizer", "beta_quantizer", "mean_quantizer", "variance_quantizer"):
      q = item[k]
      if q:
        rec["bn_bits"].append(core.rj(q.bits))
        bits.append(F(q.bits))
    sizes.append(rec["bn_size"])
    rec["bn_div"] = _unit(item["internal_divide_quantizer"])
    rec["bn_mul"] = _unit(item["internal_multiplier"])
    for u in (item["internal_divide_quantizer"], item["internal_multiplier"]):
      if u:
        gate.append(F(float(u.gate_bits)))
  else:
    wq = gv(item, "weight_quantizer")
    if wq is not None and gv(item, "w_shapes") is not None:
      rec["w_elems"] = _prod(gv(item, "w_shapes"))
      rec["w_bits"] = core.rj(wq.bits)
      sizes.append(rec["w_elems"])
      bits.append(F(wq.bits))
    bq = gv(item, "bias_quantizer")
    if bq:
      rec["bias"] = [int(gv(item, "b_shapes")), core.rj(bq.bits)]
      sizes.append(rec["bias"][0])
      bits.append(F(bq.bits))
    mul = gv(item, "multiplier")
    rec["multiplier"] = _unit(mul)
    if mul is not None:
      gate.append(F(float(mul.gate_bits)))
    acc = gv(item, "accumulator")
    if acc is not None:
      rec["accumulator"] = {"bits": core.rj(acc.output.bits), "float": bool(acc.output.is_floating_point)}
      gate.append(F(acc.output.bits))
    pacc = gv(item, "pool_sum_accumulator")      # the pooling items (fix 2562e1d reads this key)
    if pacc is not None:
      rec["pool_accumulator"] = {"bits": core.rj(pacc.output.bits),
                                 "float": bool(pacc.output.is_floating_point)}
      gate.append(F(pacc.output.bits))
  return rec, sizes, bits, gate


def cost_tables(cfg, sram_mul_factor, sizes, bits, gate, min_sram):
  """oracle inputs: the live cost polynomials evaluated (in float64, as the code does) at every
  argument the energy code can form from these tensors, types and operators"""
  tbs = sorted({F(s) * b for s in set(sizes) for b in set(bits)})
  def tab(fn, xs):
    return [[core.rj(x), core.rj(float(fn(float(x))))] for x in xs]
  sram_args = sorted({max(tb, F(min_sram)) for tb in tbs if max(tb, F(min_sram)) > 0})
  g = sorted(set(gate))
  return {"fpm_add": tab(cfg.fpm_add, g), "fpm_mul": tab(cfg.fpm_mul, g),
          "fp16_add": tab(cfg.fp16_add, g), "fp16_mul": tab(cfg.fp16_mul, g),
          "fp32_add": tab(cfg.fp32_add, g), "fp32_mul": tab(cfg.fp32_mul, g),
          "dram_rd": tab(cfg.dram_rd, tbs),
          "sram_rd_log2": [[core.rj(x), core.rj(float(cfg.sram_rd(np.log2(float(x)))))] for x in sram_args],
          "sram_mul_factor": core.rj(sram_mul_factor)}


KEYS = ["inputs", "outputs", "parameters", "op_cost"]


def selected_keys(cfg_setting, class_name):
  """the entries a cost setting selects for a layer class, written from the property text (NOT with the
  code's `get(class, get("default", []))` expression): the list registered for the class — also when that
  list is empty, i.e. "count nothing" —, the "default" list only for classes the setting does not
  mention, nothing when there is no "default" either"""
  if class_name in cfg_setting:
    return list(cfg_setting[class_name])
  if "default" in cfg_setting:
    return list(cfg_setting["default"])
  return []


def exact_extract(cfg_setting, energy_dict):
  """clause oracle for extract_energy_sum / extract_energy_profile: exact-fraction sum of the selected
  entries, per layer and in total"""
  tot = F(0)
  prof = {}
  for name, row in energy_dict.items():
    if name == "total_cost":
      continue
    s = sum((F(row["energy"][k]) for k in selected_keys(cfg_setting, row["class_name"])), F(0))
    prof[name] = s
    tot += s
  return tot, prof


def extract_settings(g2, classes, live):
  """cost settings (the `cfg_setting` / include_energy dictionaries) aimed at the case split of the key
  lookup: class listed / not listed, list empty / partial / full, "default" present / empty / missing,
  keys of classes that do not occur in the model, near-miss class names.  `g2` draws from its own PRNG
  stream (seeded from VERIF_SEED) so that the model generator's stream is untouched."""
  def sub(nonempty=False):
    ks = [k for k in KEYS if g2.p(0.5)]
    if nonempty and not ks:
      ks = [g2.ch(KEYS)]
    g2.rng.shuffle(ks)
    return [str(k) for k in ks]
  cls = list(dict.fromkeys(classes))
  c0 = g2.ch(cls)
  out = [("live_include_energy", dict(live))]
  # the library's own setting with one class of the model switched off / the default switched off
  out.append(("live_class_emptied", dict(live, **{c0: []})))
  out.append(("live_default_emptied", dict(live, default=[])))
  out.append(("default_subset", {"default": sub()}))
  out.append(("no_default", {c0: sub(True)}))
  out.append(("class_override", {"default": sub(True), g2.ch(cls): [g2.ch(KEYS)], "QActivation": ["outputs"]}))
  # "count nothing for this class" next to a non-empty default (the falsy-but-legal list)
  out.append(("empty_class_full_default", {c0: [], "default": list(KEYS)}))
  out.append(("empty_class_some_default", {g2.ch(cls): [], "default": sub(True)}))
  # every class of the model switched off: the sum must be 0 whatever the default says
  out.append(("all_classes_empty", dict({c: [] for c in cls}, default=list(KEYS))))
  out.append(("empty_default_some_class", {"default": [], c0: sub(True)}))
  out.append(("empty_setting", {}))
  out.append(("only_absent_classes", {"NoSuchLayer": list(KEYS), "QNoSuchLayer": sub(True)}))
  out.append(("absent_classes_and_default", {"NoSuchLayer": list(KEYS), "default": sub()}))
  # near-miss names: the Q-less / Q-prefixed twin of a class of the model, a prefix, another case; none of
  # them names the class, so the default applies
  near = {}
  for c in cls:
    twin = c[1:] if c.startswith("Q") else "Q" + c
    for nm in (twin, c[:-1], c.lower(), c + "2"):
      if nm not in cls and nm != "default" and g2.p(0.6):
        near[nm] = sub()
  near["default"] = sub(True)
  out.append(("near_miss_names", near))
  # free mix: every class independently absent / [] / partial / full, default absent / [] / partial
  for i in range(2):
    cs = {}
    for c in cls + ["NoSuchLayer"]:
      r = g2.ri(0, 3)
      if r == 1:
        cs[c] = []
      elif r == 2:
        cs[c] = sub(True)
      elif r == 3:
        cs[c] = list(KEYS)
    r = g2.ri(0, 2)
    if r == 1:
      cs["default"] = []
    elif r == 2:
      cs["default"] = sub(True)
    out.append(("mix%d" % i, cs))
  return out


# ----------------------------------------------------------------------------- documented energy entries

def doc_memory_energy(cfg, mul_factor, elems, bits, mode, min_sram, rd_wr_on_io, io_layer):
  """the documented energy of moving one tensor (qenergy docstrings, theorems C19_entry_memory_read /
  _memory_write / _parameters_*): a tensor of an io layer lives in DRAM iff rd_wr_on_io, whatever the
  configured placement; DRAM access = dram polynomial (+ one SRAM access when rd_wr_on_io stages it);
  SRAM access = ceil(bits * mul_factor) * sram polynomial(log2 max(bits, min_sram)); fixed = free; every
  polynomial clamped at 0.  Written here from that description, evaluated in float64 on the live cfg."""
  if io_layer:
    mode = "dram" if rd_wr_on_io else "sram"
  tb = elems * bits
  with np.errstate(all="ignore"):
    sram = float(np.ceil(tb * mul_factor) * max(cfg.sram_rd(np.log2(max(tb, min_sram))), 0))
    dram = float(max(cfg.dram_rd(tb), 0))
  if mode == "dram":
    return dram + (sram if rd_wr_on_io else 0.0)
  if mode == "sram":
    return sram
  return 0.0


def keras_io_layers(model):
  """input / output layers read off the Keras graph (not from QTools' layer map): a layer fed by a model
  input; a layer none of whose outputs is consumed inside the model (qtools' convention: the sinks of the
  layer graph — a tensor that is consumed AND listed in model.outputs does not make its layer an output
  layer; that convention belongs to the graph builder, C19 takes it as given)"""
  ins, outs = set(), set()
  in_ids = {id(t) for t in model.inputs}
  consumed = set()
  for layer in model.layers:
    if layer.__class__.__name__ == "InputLayer":
      continue
    li = layer.input if isinstance(layer.input, list) else [layer.input]
    for t in li:
      consumed.add(id(t))
    if any(id(t) in in_ids for t in li):
      ins.add(layer.name)
  for layer in model.layers:
    if layer.__class__.__name__ == "InputLayer":
      continue
    lo = layer.output if isinstance(layer.output, list) else [layer.output]
    if not any(id(t) in consumed for t in lo):
      outs.add(layer.name)
  return ins, outs


def doc_entries(cfg, mul_factor, model, out_dict, io, opts, op_doc=None):
  """{layer: {"inputs"|"outputs"|"parameters"|"op_cost": documented value}} from the REPORTED data of
  QTools._output_dict (types, tensor shapes, counts) and the options of ONE pe() call; `op_doc` = the
  placement-independent documented op costs {layer: (family, operands, value)} of `doc_op_cost`"""
  wm, am, ms, rdwr = opts
  ins, outs = io
  res = {}
  for layer in model.layers:
    d = out_dict.get(layer.name)
    if not isinstance(d, dict) or "output_quantizer" not in d:
      continue
    ish = layer.input_shape if isinstance(layer.input_shape, list) else [layer.input_shape]
    e = {}
    try:
      e["inputs"] = sum(doc_memory_energy(cfg, mul_factor, _prod(list(sh)[1:]), q["bits"], am, ms, rdwr,
                                          layer.name in ins)
                        for sh, q in zip(ish, d["input_quantizer_list"]))
      oq = d["output_quantizer"]
      e["outputs"] = doc_memory_energy(cfg, mul_factor, _prod(list(oq["shape"])[1:]), oq["bits"], am, ms, rdwr,
                                       layer.name in outs)
      cls = layer.__class__.__name__
      if cls not in ("BatchNormalization", "QBatchNormalization"):
        par = 0.0
        wq = d.get("weight_quantizer")
        if wq is not None and wq.get("shape") is not None:
          shp = wq["shape"]
          par += doc_memory_energy(cfg, mul_factor, _prod(shp) if isinstance(shp, (list, tuple)) else int(shp),
                                   wq["bits"], wm, ms, rdwr, False)
          bq = d.get("bias_quantizer")
          if bq:
            shp = bq["shape"]
            par += doc_memory_energy(cfg, mul_factor, _prod(shp) if isinstance(shp, (list, tuple)) else int(shp),
                                     bq["bits"], wm, ms, rdwr, False)
        e["parameters"] = par
    except (KeyError, TypeError):
      continue
    if op_doc is not None and op_doc.get(layer.name) is not None:
      e["op_cost"] = op_doc[layer.name][2]
    res[layer.name] = e
  return res


ACT_CLASSES = ("QActivation", "QAdaptiveActivation", "Activation")
BN_CLASSES = ("QBatchNormalization", "BatchNormalization")
PRICED_MERGE = ("Add", "Multiply", "Subtract")
PRICED_POOL = ("AveragePooling2D", "AvgPool2D", "GlobalAvgPool2D", "GlobalAveragePooling2D")
MAC_CLASSES = ("QConv2D", "QConv1D", "QDepthwiseConv2D", "QDense", "Conv2D", "Conv1D", "DepthwiseConv2D", "Dense")
NO_ARITHMETIC = ("Flatten", "Reshape", "MaxPooling2D", "MaxPooling1D", "UpSampling2D", "UpSampling1D",
                 "ZeroPadding2D", "Dropout", "InputLayer")


def doc_gate_energy(cfg, reported, gate_arg):
  """energy of ONE application of an operator of the REPORTED type (`quantizer_type`, `bits`, `op_type` of
  the report entry), written from the cost table's description and NOT through qenergy.OP: floating point
  types have an adder and a multiplier polynomial per width (fp16 / fp32); for fixed-point types a real
  multiplier costs the multiplier polynomial and every adder-like gate array (add, mux, xor, and, or,
  shifter) the adder polynomial; every polynomial is clamped at 0.  `gate_arg` is the width the gate
  array works on."""
  op = reported["op_type"]
  if reported["quantizer_type"] == "floating_point":
    fn = getattr(cfg, "fp%d_%s" % (int(reported["bits"]), op))       # add / mul only
  elif op == "mul":
    fn = cfg.fpm_mul
  elif op in ("add", "mux", "xor", "and", "or", "shifter"):
    fn = cfg.fpm_add
  else:
    raise KeyError(op)
  with np.errstate(all="ignore"):
    return max(float(fn(gate_arg)), 0.0)


def doc_unit_energy(cfg, reported, unit, run):
  """gate_factor x E(reported type, reported implementation, gate_bits): the operator's relative gate cost
  and working width are attributes of the data-type map's operator object (trusted: C16-C18), its type and
  implementation are the REPORTED ones; where the report itself pins the width (adders and floating point
  operators work on their output width) that is cross-checked"""
  if unit.implemented_as() != reported["op_type"]:
    raise KeyError("reported op_type differs from the operator object")
  if reported["op_type"] == "add" and reported["quantizer_type"] != "floating_point" \
      and unit.__class__.__name__ in ("Add", "Adder", "Subtractor"):
    run.count("op_gate_width_crosscheck_%s" % ("ok" if float(unit.gate_bits) == float(reported["bits"]) else "differs"))
  return float(unit.gate_factor) * doc_gate_energy(cfg, reported, float(unit.gate_bits))


def doc_op_cost(cfg, layer, d, item, gv, run):
  """(family, operand class, documented `op_cost`) of one layer, independent of qenergy.energy_estimate:
       activation layers ......... 0
       layers without arithmetic . 0
       MAC layers ................ count x (unit(multiplier) + add(accumulator type, accumulator bits))
       batch normalisation ....... count x (unit(divider) + unit(multiplier)), absent operators contribute 0
       (Global)AveragePooling2D .. count x add(pool accumulator type, its bits)
       Add / Multiply / Subtract . (n - 1) x count x unit(merge operator): an element-wise merge of n operand
                                   tensors combines n - 1 of them into the running result, operation_count
                                   is the per-operand slice
     n = number of operand tensors of the KERAS layer; count = reported operation_count.
     None = the class has no documented operator cost (Average / Maximum / Minimum / Concatenate, the Q
     pooling classes, separable convolutions: `energy_estimate` leaves them at 0 — a convention, not judged)"""
  cls = layer.__class__.__name__
  count = int(d["operation_count"])
  if cls in ACT_CLASSES:
    return "activation", "1", 0.0
  if cls in NO_ARITHMETIC:
    return "no_arithmetic", "1", 0.0
  if cls in MAC_CLASSES:
    e = doc_unit_energy(cfg, d["multiplier"], gv(item, "multiplier"), run)
    acc = d["accumulator"]
    e += doc_gate_energy(cfg, dict(acc, op_type="add"), float(acc["bits"]))
    return "mac", "1", count * e
  if cls in BN_CLASSES:
    e = 0.0
    for key in ("internal_divide_quantizer", "internal_multiplier"):
      if item[key]:
        e += doc_unit_energy(cfg, d[key], item[key], run)
    return "batchnorm", "1", count * e
  if cls in PRICED_POOL:
    acc = d["pool_sum_accumulator"]
    return "avgpool", "1", count * doc_gate_energy(cfg, dict(acc, op_type="add"), float(acc["bits"]))
  if cls in PRICED_MERGE:
    n = len(layer.input) if isinstance(layer.input, (list, tuple)) else 1
    if n != len(d["input_quantizer_list"]):
      # the data-type map's graph de-duplicates repeated operands (Add()([a, a, b])): not generated
      run.count("merge_operand_list_differs_from_keras")
      return None
    e = doc_unit_energy(cfg, d[cls + "_quantizer"], gv(item, "multiplier"), run)
    return "merge", ("2" if n == 2 else "3+" if n >= 3 else "1"), (n - 1) * count * e
  return None


LATTICE = [(w, a, io) for w in ("dram", "sram", "fixed") for a in ("dram", "sram") for io in (True, False)]


# ----------------------------------------------------------------------------- the check

def run(run: core.Run, tier: str):
  core.assert_repo_import()
  with _quiet():
    import tensorflow as tf
    import tensorflow.keras as K
    import qkeras as Q
    from qkeras import estimate
    from qkeras.qtools import run_qtools, qtools_util, qgraph
    from qkeras.qtools import generate_layer_data_type_map as gldtm
    from qkeras.qtools import config_public
    from qkeras.qtools import settings as qsettings
    from qkeras.qtools.qenergy import qenergy
  rng = np.random.default_rng(run.seed)
  gv = qtools_util.get_val
  gen = Gen(rng, run, K, Q)
  g2 = Gen(np.random.default_rng([int(run.seed), 1904]), run, K, Q)   # cost settings: own stream
  g3 = Gen(np.random.default_rng([int(run.seed), 1905]), run, K, Q)   # pe() histories: own stream
  g4 = Gen(np.random.default_rng([int(run.seed), 1906]), run, K, Q)   # n-ary merge / BN models: own stream
  n_models = 150 if tier == "quick" else 900
  n_extra = 27 if tier == "quick" else 150     # models of the round-3 builders, AFTER the main models
  g5 = Gen(np.random.default_rng([int(run.seed), 1907]), run, K, Q)   # broadcast merges / fp references: own stream
  n_extra2 = 20 if tier == "quick" else 120    # models of the round-4 builders, AFTER those
  interm_default = config_public.config_settings.get("default_interm_quantizer")
  run.extra["rule"] = (
      "random Keras/QKeras models (legacy tf_keras): Conv2D/QConv2D, Conv1D/QConv1D, (Q)DepthwiseConv2D, "
      "(Q)Dense (also Dense(1) on (C,1)/(1,C,1)/(C,1,1)), (Q)AveragePooling2D, (Q)GlobalAveragePooling2D, "
      "QSeparableConv1D/2D, merge layers, MaxPooling/UpSampling/Flatten/"
      "BatchNormalization/QActivation fillers; kernel 1..5, strides 1..3, dilation 1..3, same/valid/causal, "
      "channels 1..8, spatial 4..12, groups, depth_multiplier, 7 kernel quantizers x 6 activation "
      "quantizers; every model x 3 of 12 memory placements (weights dram/sram/fixed x activations "
      "dram/sram x rd_wr_on_io x min_sram_size 0/2^k) x live and perturbed cost polynomials; "
      "extract_energy_sum / extract_energy_profile: every report x 16 cost settings on the first placement "
      "(4 on the others) aimed at the key lookup: class listed with an EMPTY / partial / full list, "
      "'default' empty / partial / full / missing, the live include_energy with one class of the model or "
      "the default emptied, every class of the model emptied, {} , keys of classes absent from the model, "
      "near-miss class names (Q-less / Q-prefixed twin, prefix, lower case), two free mixes; "
      "multi-output (2-3 heads) and two-input models; HISTORIES on one QTools object: 16 pe() calls per model "
      "(the 3 compared placements, the full 12-point placement lattice in a seeded order, the first call "
      "again), every call judged entry by entry against the documented formula on _output_dict data; every "
      "5th model against a fresh QTools twin; plus 27 models (own PRNG stream) with element-wise merges of "
      "2..5 distinct operands INSIDE the model (branches of a trunk or separate inputs, operand types fixed / "
      "binary / ternary / po2, 1-3 merges, merges of merges, multi-output) and with (Q)BatchNormalization "
      "variants (scale / center off, po2 parameters); op_cost of every layer of every call judged against "
      "the documented function of the reported operator type, implementation, count and operand number; "
      "plus 20 models (own PRNG stream) with merges of BROADCAST operands (channel / spatial / one-axis / all-axes / "
      "rank-2 gates, full operand first / middle / last, two-sided broadcasts) and floating-point REFERENCE models "
      "(keras_quantizer / keras_accumulator from fp16 / fp32 / None, default_interm_quantizer fp16 / fp32, own fp16 "
      "polynomials); every multi-operand merge of every model also through CreateGraph -> "
      "generate_layer_data_type_map with its operand edges re-inserted smallest-first and largest-first; "
      "non-trivial = distinct (class, geometry) layer or distinct (model, placement) or distinct later call")
  run.assumptions += [
      "Keras compute_output_shape / conv_output_length is trusted Keras code; its result is compared with "
      "the Lean convOutLen and with the shape of a real forward pass for every generated layer",
      "padded taps of `same`/`causal` windows count as operations (hardware convention, DESIGN §4 C19); "
      "the all-ones twin-layer measurement confirms the loop-nest oracle exactly for `valid` padding and "
      "as an upper bound otherwise",
      "merge layers: operation_count is the per-extra-operand element count; the (n-1) factor lives in "
      "energy_estimate (theorem C19_entry_merge)",
      "energy: the float64 cost polynomials and log2 are oracle inputs (values taken from the live "
      "settings.cfg); the model combines them in exact rationals; reported entries are compared after the "
      "code's own 2-decimal rounding with slack 0.01; total_cost and extract_energy_sum are compared exactly "
      "except inside a 1e-6 band around an integer boundary of the exact sum (either neighbour admitted)",
  ]
  builders = [("conv2d", gen.m_conv2d, 30), ("conv1d", gen.m_conv1d, 14), ("dense", gen.m_dense, 10),
              ("dense_se", gen.m_dense_se, 3), ("dense_lead", gen.m_dense_lead, 2), ("pool", gen.m_pool, 14),
              ("merge", gen.m_merge, 10), ("grouped", gen.m_grouped, 6), ("dw_mult", gen.m_dw_mult, 5),
              ("sep", gen.m_sep, 6), ("qpool", gen.m_qpool, 5), ("multi_out", gen.m_multi_out, 12),
              ("multi_in", gen.m_multi_in, 4)]
  weights = np.array([b[2] for b in builders], dtype=float)
  weights /= weights.sum()

  count_lines, count_meta = [], []
  spec_lines, spec_meta = [], []
  est_lines, est_meta = [], []
  energy_lines, energy_meta = [], []
  extract_lines, extract_meta = [], []
  orig_polys = None

  merge_spec_lines, merge_spec_meta = [], []
  for mi in range(n_models + n_extra + n_extra2):
    kq_ref, ka_ref, force_ref, interm = "fp32", "fp32", None, None
    if mi >= n_models + n_extra:
      # round-4 builders; every draw comes from g5.  Reference route: keras_quantizer / keras_accumulator from
      # fp16 / fp32 / None (None -> cfg.default_interm_quantizer, itself switched to fp16 for some models
      # through the public config_settings table QTools re-reads at construction)
      gx = g5
      j4 = mi - n_models - n_extra
      bname, bfn = (("ref_fp", g5.m_ref_fp) if j4 % 2 == 1 else ("merge_bcast", g5.m_merge_bcast))
      kq_ref = g5.ch(["fp16", "fp16", "fp32", None])
      ka_ref = g5.ch(["fp16", "fp16", "fp32", None])
      force_ref = True if bname == "ref_fp" else g5.p(0.3)
      interm = g5.ch([None, None, "fp16", "fp32"])
    elif mi < n_models:
      # the first len(builders) models take every builder once, then weighted draws
      bi = mi if mi < len(builders) else int(rng.choice(len(builders), p=weights))
      bname, bfn, _ = builders[bi]
      gx = gen
    else:
      # round-3 builders; every draw of these models (options, placements included) comes from g4, so
      # the main models above are exactly those of the earlier rounds
      gx = g4
      bname, bfn = (("bn", g4.m_bn) if (mi - n_models) % 3 == 2 else ("merge_nary", g4.m_merge_nary))
    K.backend.clear_session()
    with _quiet():
      model, n_in = bfn()
    mname = "m%d_%s" % (mi, bname)
    run.count("model_" + bname)
    srcq = [gx.ch(SRCQ) for _ in range(n_in)]
    for_reference = gx.p(0.12)
    if force_ref is not None:
      for_reference = force_ref
    custom_cost = gx.p(0.3)
    if interm is not None:
      config_public.config_settings["default_interm_quantizer"] = interm
      run.count("cfg_default_interm_quantizer_%s" % interm)
    elif interm_default is not None:
      config_public.config_settings["default_interm_quantizer"] = interm_default
    process = "horowitz"
    if custom_cost:
      # a process name config_settings does not know: cfg.update keeps whatever polynomials the
      # settings object holds, so the harness can exercise other cost functions (negative regions
      # included — the max(.,0) clamp) through the public settings object
      process = "verif_custom"
      if orig_polys is None:
        orig_polys = {k: getattr(qsettings.cfg, k) for k in
                      ("fpm_add", "fpm_mul", "fp16_add", "fp16_mul", "fp32_add", "fp32_mul", "sram_rd", "dram_rd")}
      def rp(deg, lo, hi):
        return np.poly1d([float(np.round(gx.rng.uniform(lo, hi), 4)) for _ in range(deg + 1)])
      qsettings.cfg.fpm_add = rp(1, -0.01, 0.02)
      qsettings.cfg.fpm_mul = rp(2, -0.005, 0.01)
      qsettings.cfg.fp32_add = rp(0, 0.1, 2.0)
      qsettings.cfg.fp32_mul = rp(0, 0.1, 5.0)
      if gx is g5:
        # the 16-bit floating point cells get their own polynomials (never equal to the fp32 ones)
        qsettings.cfg.fp16_add = rp(0, 2.1, 3.0)
        qsettings.cfg.fp16_mul = rp(0, 5.1, 7.0)
      qsettings.cfg.sram_rd = rp(2, -0.3, 0.5)
      qsettings.cfg.dram_rd = rp(1, -5.0, 30.0)
      run.count("cost_custom")
    elif orig_polys is not None:
      for k, v in orig_polys.items():
        setattr(qsettings.cfg, k, v)
    try:
      with _quiet():
        qt = run_qtools.QTools(model, process=process,
                               source_quantizers=[Q.quantizers.get_quantizer(s) for s in srcq],
                               is_inference=False, weights_path=None, keras_quantizer=kq_ref,
                               keras_accumulator=ka_ref, for_reference=for_reference)
      if for_reference:
        run.count("reference_route_kq=%s_ka=%s_interm=%s" % (kq_ref, ka_ref, interm or "default"))
    except Exception as e:  # pylint: disable=broad-except
      # outside C19: the data-type map could not be built (unsupported type combination, C16-C18)
      run.count("qtools_rejected_%s_%s" % (bname, type(e).__name__))
      qt = None
    # ------------------------------------------------------------ counts
    lmap = qt._layer_map if qt is not None else None
    for layer in model.layers:
      cls = layer.__class__.__name__
      if cls == "InputLayer":
        continue
      in_shapes = layer.input_shape if isinstance(layer.input_shape, list) else [layer.input_shape]
      in_shapes = [_shape(s) for s in in_shapes]
      with _quiet():
        orc = layer_oracle(K, tf, layer, in_shapes)
      if qt is not None and layer.name in qt._output_dict:
        reported = int(qt._output_dict[layer.name]["operation_count"])
        # what get_operation_count was given: the largest input (first on ties), Keras' output shape
        big = max(range(len(in_shapes)), key=lambda i: (_prod(in_shapes[i]), -i))
        in_shape = in_shapes[big]
        ws = layer.get_weights()
        with _quiet():
          try:
            kout = _shape(layer.compute_output_shape(tuple([None] + in_shape)))
          except Exception:  # pylint: disable=broad-except
            kout = _shape(layer.output_shape)   # multi-input layers; that branch never asks Keras
        line = {"op": "count", "name": cls, "in": in_shape, "out": kout,
                "w": [int(d) for d in ws[0].shape] if ws else [],
                "pool": _pair(layer.pool_size) if hasattr(layer, "pool_size") else None,
                "groups": int(getattr(layer, "groups", 1))}
        count_lines.append(line)
        count_meta.append((mname, layer.name, cls, reported, orc, line))
      if orc is not None and orc[0] == "merge":
        # the scalar operations of the whole n-ary merge, counted by a literal loop over (extra operand,
        # element) on the shape of a real forward pass, vs the Lean `opsMergeNary` / `macMerge`
        n_ops = orc[2]["n_inputs"]
        nary = 0
        for j in range(1, n_ops):
          for _e in np.ndindex(*orc[2]["out"]):
            nary += 1
        merge_spec_lines.append({"op": "merge_spec", "shape": orc[2]["out"], "n": n_ops})
        merge_spec_meta.append((cls, n_ops, orc[1], nary))
      if orc is not None and orc[0] != "merge":
        kind, brute, d = orc
        sl = spec_line(kind, layer, in_shapes[0])
        with _quiet():
          emp = twin_ones_sum(K, tf, layer, in_shapes[0])
          kout = _shape(layer.compute_output_shape(tuple([None] + in_shapes[0])))
        spec_lines.append(sl)
        spec_meta.append((cls, kind, brute, d, emp, kout, sl))
    # ------------------------------------------------------------ merge counts under BOTH edge orders
    # qgraph collects the edges of a merge node from a python set, so which operand the data-type map sees
    # first varies from process to process.  The same public pipeline QTools.__init__ runs (CreateGraph ->
    # GraphPropagateActivationsToEdges -> generate_layer_data_type_map) is driven here with the operand edges
    # of every merge node re-inserted smallest-first and largest-first: the count must be the loop-nest count
    # of the real forward pass in both.
    merge_layers = [l for l in model.layers if l.__class__.__name__ in ELEMWISE_MERGE
                    and isinstance(l.input, (list, tuple)) and len(l.input) > 1]
    if qt is not None and merge_layers:
      for order in ("smallest_first", "largest_first"):
        try:
          with _quiet():
            graph, sql = qgraph.CreateGraph(model, [Q.quantizers.get_quantizer(s) for s in srcq],
                                            qsettings.cfg.default_source_quantizer)
            qgraph.GraphPropagateActivationsToEdges(graph)
            for node in list(graph.nodes):
              lyr = graph.nodes[node].get("layer", [None])[0]
              if not any(lyr is m for m in merge_layers):
                continue
              preds = list(graph.predecessors(node))
              data = {p_: dict(graph.edges[(p_, node)]) for p_ in preds}
              preds.sort(key=lambda p_: _prod(list(data[p_]["shape"])[1:]), reverse=(order == "largest_first"))
              for p_ in preds:
                graph.remove_edge(p_, node)
              for p_ in preds:
                graph.add_edge(p_, node, **data[p_])
            lm2 = gldtm.generate_layer_data_type_map(graph, sql, False, kq_ref, ka_ref, for_reference)
        except Exception as e:  # pylint: disable=broad-except
          run.count("edge_order_route_raises_%s" % type(e).__name__)
          continue
        for lyr in merge_layers:
          if lyr not in lm2["layer_data_type_map"]:
            continue
          in_shapes = [_shape(s_) for s_ in lyr.input_shape]
          with _quiet():
            orc = layer_oracle(K, tf, lyr, in_shapes)
          reported = int(gv(lm2["layer_data_type_map"][lyr], "operation_count"))
          bcast = any(x != in_shapes[0] for x in in_shapes)
          run.case(("count_edge_order", mname, lyr.name, order), nontrivial=bcast)
          sig = count_signature("merge", reported, orc[1], orc[2])
          run.count("count_edge_order_%s_%s_%s" % ("broadcast" if bcast else "same_shape", order, sig))
          if sig == "largest_operand_of_two_sided_broadcast":
            continue      # recorded finding, reported (with the model tie) by the main count stream
          if sig != "ok":
            run.violate("operation_count_is_mac_count",
                        {"stream": "count_edge_order", "class": lyr.__class__.__name__, "signature": sig,
                         "operand_edges": order},
                        {"model": mname, "class": lyr.__class__.__name__, "operand_shapes": in_shapes,
                         "output_shape_of_a_real_forward_pass": orc[2]["out"], "reported": reported,
                         "loop_nest_count": orc[1], "operand_edge_order": order,
                         "replay": "graph, sql = qgraph.CreateGraph(model, ...); GraphPropagateActivationsToEdges(graph); "
                                   "re-insert the merge node's operand edges %s; generate_layer_data_type_map(graph, sql, "
                                   "False)['layer_data_type_map'][merge layer].operation_count" % order},
                        mirrored=False)
    # ------------------------------------------------------------ estimate.py
    if all(l.__class__.__name__ in ("InputLayer", "QActivation", "QConv2D", "QConv1D", "QDepthwiseConv2D",
                                    "QSeparableConv2D", "QSeparableConv1D", "QDense") for l in model.layers) \
        and model.layers[1].__class__.__name__ == "QActivation" and n_in == 1:
      try:
        with _quiet():
          ops = estimate.extract_model_operations(model)
      except AssertionError:
        ops = None
        run.count("est_assert")
      except Exception as e:  # pylint: disable=broad-except
        ops = None
        run.count("est_rejected_%s" % type(e).__name__)
      if ops is not None:
        for layer in model.layers:
          if layer.name not in ops:
            continue
          cls = layer.__class__.__name__
          in_shape = _shape(layer.input_shape)
          with _quiet():
            orc = layer_oracle(K, tf, layer, [in_shape])
            kout = _shape(layer.compute_output_shape(tuple([None] + in_shape)))
          line = {"op": "est", "name": cls, "in": in_shape, "out": kout,
                  "w": [int(d) for d in layer.get_weights()[0].shape], "pool": None,
                  "groups": int(getattr(layer, "groups", 1))}
          est_lines.append(line)
          est_meta.append((layer.name, cls, int(ops[layer.name]["number_of_operations"]), orc, line))
    # ------------------------------------------------------------ energy
    if qt is None:
      continue
    try:
      recs, sizes, bits, gate = [], [], [], []
      for layer in model.layers:
        if layer not in lmap["layer_data_type_map"]:
          continue
        rec, s, b, g = elayer_of(layer, lmap["layer_data_type_map"][layer], lmap, gv)
        recs.append((layer.name, rec))
        sizes += s
        bits += b
        gate += g
    except Exception as e:  # pylint: disable=broad-except
      raise core.InfraError("cannot read the layer map of %s: %r" % (mname, e))
    has_avgpool = any(r["cls"] in ("AveragePooling2D", "AvgPool2D", "GlobalAvgPool2D", "GlobalAveragePooling2D")
                      for _, r in recs)
    placements = []
    for _ in range(3):
      placements.append((gx.ch(["dram", "sram", "fixed"]), gx.ch(["dram", "sram"]),
                         gx.ch([0, 0, 64, 4096, 2 ** 20, 8 * 16 * 1024 * 1024]), gx.p(0.5)))
    for pi_, (wm, am, ms, rdwr) in enumerate(placements):
      err = None
      try:
        with _quiet(), np.errstate(all="ignore"):
          ed = qt.pe(weights_on_memory=wm, activations_on_memory=am, min_sram_size=ms, rd_wr_on_io=rdwr)
      except Exception as e:  # pylint: disable=broad-except
        ed, err = None, type(e).__name__
      line = {"op": "energy", "weights_on_memory": wm, "activations_on_memory": am,
              "min_sram_size": core.rj(ms), "rd_wr_on_io": rdwr, "layers": [r for _, r in recs],
              "costs": cost_tables(qsettings.cfg, qenergy.OP["sram"]["mul_factor"], sizes, bits, gate, ms)}
      energy_lines.append(line)
      energy_meta.append((mname, bname, [n for n, _ in recs], [r["cls"] for _, r in recs], ed, err,
                          has_avgpool, (wm, am, ms, rdwr), custom_cost))
      run.count("placement_w=%s_a=%s_io=%s_minsram=%s" % (wm, am, int(rdwr), "0" if ms == 0 else ">0"))
      if ed is None:
        continue
      # ---------------------------------------------------------- extract_energy_sum / profile
      ed_layers = [n for n in ed if n != "total_cost"]
      settings_list = extract_settings(g2, [ed[n]["class_name"] for n in ed_layers], qsettings.cfg.include_energy)
      if pi_ != 0:
        # every placement gets the live setting and the falsy-list cases, the first placement everything
        keep = {"live_include_energy", "live_class_emptied", "empty_class_full_default", "mix0"}
        settings_list = [t for t in settings_list if t[0] in keep]
      for sname, cs in settings_list:
        with _quiet():
          s_impl = qt.extract_energy_sum(cs, ed)
          p_impl = qt.extract_energy_profile(cs, ed)
        rows = [[ed[n]["class_name"], [core.rj(ed[n]["energy"][k]) for k in KEYS]] for n in ed_layers]
        extract_lines.append({"op": "extract", "cfg": cs, "rows": rows})
        shape_ok = (list(p_impl.keys()) == ed_layers and
                    all(p_impl[n].get("energy") == ed[n]["energy"] for n in ed_layers))
        extract_meta.append((mname, sname, cs, ed, s_impl,
                             [p_impl[n]["total"] for n in ed_layers] if shape_ok else None))
    # ---------------------------------------------------------- pe() histories on ONE QTools object
    # every entry of every call is recomputed from the documented formula on the REPORTED data
    # (`_output_dict`) and the options of THAT call: the k-th call must be what a first call would be.
    if any(m[4] is not None for m in energy_meta[-len(placements):]):
      io_layers = keras_io_layers(model)
      mulf = qenergy.OP["sram"]["mul_factor"]
      # documented op costs (placement independent): from the reported operator types / counts
      op_doc = {}
      for layer in model.layers:
        dd = qt._output_dict.get(layer.name)
        if not isinstance(dd, dict) or layer not in lmap["layer_data_type_map"]:
          continue
        try:
          with np.errstate(all="ignore"):
            op_doc[layer.name] = doc_op_cost(qsettings.cfg, layer, dd, lmap["layer_data_type_map"][layer], gv, run)
        except (KeyError, TypeError, AttributeError) as e:
          op_doc[layer.name] = None
          run.count("op_cost_documented_unavailable_%s_%s" % (layer.__class__.__name__, type(e).__name__))
        if op_doc[layer.name] is None:
          run.count("op_cost_not_documented_%s" % layer.__class__.__name__)
      n_outputs = len(model.outputs)
      history = [(plc, m[4]) for plc, m in zip(placements, energy_meta[-len(placements):])]
      walk_ms = g3.ch([0, 0, 4096, 2 ** 20])
      order = [LATTICE[int(i)] for i in g3.rng.permutation(len(LATTICE))]
      walk = [(w, a, walk_ms, io) for (w, a, io) in order]
      walk.append(placements[0])                      # the very first call again, at the end
      for opts in walk:
        try:
          with _quiet(), np.errstate(all="ignore"):
            edk = qt.pe(weights_on_memory=opts[0], activations_on_memory=opts[1], min_sram_size=opts[2],
                        rd_wr_on_io=opts[3])
        except Exception as e:  # pylint: disable=broad-except
          edk = None
          run.count("pe_history_raises_%s" % type(e).__name__)
        history.append((opts, edk))
      run.count("pe_history_calls", len(history))
      for k, (opts, edk) in enumerate(history):
        if edk is None:
          continue
        run.case(("pe_history", mname, k, opts), nontrivial=(k >= len(placements)))
        doc = doc_entries(qsettings.cfg, mulf, model, qt._output_dict, io_layers, opts, op_doc)
        tot = F(0)
        for lname, row in edk.items():
          if lname == "total_cost":
            continue
          for kk in KEYS:
            tot += F(row["energy"][kk])
          if lname not in doc:
            run.count("energy_documented_skipped_layer")
            continue
          role = ("input+output" if (lname in io_layers[0] and lname in io_layers[1]) else
                  "input" if lname in io_layers[0] else "output" if lname in io_layers[1] else "inner")
          for kk, dv in doc[lname].items():
            rep = row["energy"][kk]
            vkey = {"stream": "energy_documented", "entry": kk, "layer_role": role,
                    "call": "first" if k == 0 else "later",
                    "model_outputs": "single" if n_outputs == 1 else "multi"}
            vdet = {}
            if kk == "op_cost":
              fam, operands, _ = op_doc[lname]
              run.count("energy_documented_op_cost_%s_operands_%s" % (fam, operands))
              vkey = {"stream": "energy_documented", "entry": kk, "op_family": fam, "operands": operands,
                      "call": "first" if k == 0 else "later"}
              lyr = model.get_layer(lname)
              vdet = {"operation_count": qt._output_dict[lname]["operation_count"],
                      "n_operand_tensors": len(lyr.input) if isinstance(lyr.input, (list, tuple)) else 1,
                      "documented_formula": {"mac": "count x (gate_factor x E(multiplier) + E_add(accumulator))",
                                             "merge": "(n_operands - 1) x count x gate_factor x E(merge operator)",
                                             "batchnorm": "count x (unit(divider) + unit(multiplier))",
                                             "avgpool": "count x E_add(pool accumulator)"}.get(fam, "0")}
            else:
              run.count("energy_documented_%s_%s" % (kk, role))
            if not (abs(rep - dv) <= 0.01 + 1e-9 * abs(dv)):
              run.violate("energy_entry_is_documented_function", vkey,
                          {"model": mname, **vdet, "layers": [(l.name, l.__class__.__name__) for l in model.layers],
                           "output_layers": sorted(io_layers[1]), "input_layers": sorted(io_layers[0]),
                           "call_index": k, "options": {"weights_on_memory": opts[0], "activations_on_memory": opts[1],
                                                        "min_sram_size": opts[2], "rd_wr_on_io": opts[3]},
                           "earlier_calls_on_this_object": [list(h[0]) for h in history[:k]],
                           "layer": lname, "class_name": row["class_name"], "entry": kk, "reported": rep,
                           "documented": dv, "reported_types": qt._output_dict.get(lname),
                           "replay": "qt = QTools(model, ...); pe(*earlier calls); qt.pe(**options)[layer]['energy'][entry]"},
                          mirrored=False)
        T = edk["total_cost"]
        slack = F(2, 100) * (len(edk) - 1) + F(1, 10 ** 6) * max(1, abs(int(T)))
        if not (tot - slack - 1 < T <= tot + slack):
          run.violate("total_is_sum_of_entries", {"stream": "energy_documented", "clause_detail": "total_vs_rows"},
                      {"model": mname, "call_index": k, "options": list(opts), "total_cost": T,
                       "sum_of_reported_entries": float(tot)}, mirrored=False)
      # the same options twice on one object, and (every 5th model) on a FRESH QTools object
      first, last = history[0], history[-1]
      if first[1] is not None and last[1] is not None and first[1] != last[1]:
        diff = [(n, kk) for n in first[1] if n != "total_cost" for kk in KEYS
                if first[1][n]["energy"][kk] != last[1].get(n, {}).get("energy", {}).get(kk)]
        run.violate("pe_history_independent", {"stream": "energy_documented", "twin": "same_object_repeat"},
                    {"model": mname, "options": list(first[0]), "calls_in_between": [list(h[0]) for h in history[1:-1]],
                     "entries_that_changed": diff[:8], "first": first[1], "repeat": last[1]}, mirrored=False)
      if mi % 5 == 0:
        try:
          with _quiet(), np.errstate(all="ignore"):
            qt2 = run_qtools.QTools(model, process=process,
                                    source_quantizers=[Q.quantizers.get_quantizer(s) for s in srcq],
                                    is_inference=False, weights_path=None, keras_quantizer=kq_ref,
                                    keras_accumulator=ka_ref, for_reference=for_reference)
            k2 = len(history) - 2
            o2 = history[k2][0]
            ed2 = qt2.pe(weights_on_memory=o2[0], activations_on_memory=o2[1], min_sram_size=o2[2], rd_wr_on_io=o2[3])
        except Exception as e:  # pylint: disable=broad-except
          ed2 = None
          run.count("pe_twin_raises_%s" % type(e).__name__)
        if ed2 is not None and history[k2][1] is not None:
          run.count("pe_fresh_twin_compared")
          if ed2 != history[k2][1]:
            diff = [(n, kk) for n in ed2 if n != "total_cost" for kk in KEYS
                    if ed2[n]["energy"][kk] != history[k2][1].get(n, {}).get("energy", {}).get(kk)]
            run.violate("pe_history_independent", {"stream": "energy_documented", "twin": "fresh_object"},
                        {"model": mname, "call_index": k2, "options": list(o2),
                         "earlier_calls_on_the_reused_object": [list(h[0]) for h in history[:k2]],
                         "entries_that_differ": diff[:8], "reused_object": history[k2][1], "fresh_object": ed2},
                        mirrored=False)
  if orig_polys is not None:
    for k, v in orig_polys.items():
      setattr(qsettings.cfg, k, v)
  if interm_default is not None:
    config_public.config_settings["default_interm_quantizer"] = interm_default
    qsettings.cfg.default_interm_quantizer = interm_default

  # =============================================================== component clauses (real functions only)
  # C19_entry_memory_read / C19_entry_memory_write / C19_entry_parameters_fixed judged directly on
  # qenergy.memory_read_energy / memory_write_energy: equalities between calls of the real code.
  n_comp = 300 if tier == "quick" else 3000
  for ci in range(n_comp):
    shape = (None,) + tuple(gen.ri(1, 12) for _ in range(gen.ri(1, 3)))
    bits = gen.ch([1, 2, 3, 4, 8, 16, 32])
    mode = gen.ch(["dram", "sram", "fixed"])
    ms = gen.ch([0, 64, 4096, 2 ** 20])
    io = gen.p(0.5)
    rdwr = gen.p(0.5)
    eff = ("dram" if rdwr else "sram") if io else mode
    try:
      with np.errstate(all="ignore"):
        r = float(qenergy.memory_read_energy(io, shape, mode, ms, rdwr, bits))
        w = float(qenergy.memory_write_energy(io, shape, mode, ms, rdwr, bits))
        r_eff = float(qenergy.memory_read_energy(False, shape, eff, ms, rdwr, bits))
        r_flat = float(qenergy.memory_read_energy(False, (_prod(shape[1:]),), eff, ms, rdwr, bits, is_tensor=False))
    except TypeError:
      # the signature of these INTERNAL helpers is not part of the property: the pe()-level clause
      # energy_entry_is_documented_function judges the same facts through the public route
      run.count("component_helper_signature_changed")
      continue
    run.case(("component", shape, bits, mode, ms, io, rdwr))
    run.count("component_%s%s" % (eff, "_io" if io else ""))
    key = {"stream": "component", "effective_mode": eff, "io_layer": io, "rd_wr_on_io": rdwr}
    det = {"shape": shape, "bits": bits, "mode": mode, "min_sram_size": ms, "is_io_layer": io,
           "rd_wr_on_io": rdwr, "read": r, "write": w, "read_effective_mode": r_eff}
    if not (r >= 0 and w >= 0):
      run.violate("energy_nonneg", key, det, mirrored=False)
    if w != r:
      run.violate("write_energy_equals_read_energy", key, det, mirrored=False)
    if r != r_eff or r != r_flat:
      run.violate("io_layers_read_dram_iff_rd_wr_on_io", key, det, mirrored=False)
    if eff == "fixed" and r != 0:
      run.violate("fixed_placement_is_free", key, det, mirrored=False)
    if eff == "dram" and not rdwr:
      with np.errstate(all="ignore"):
        d = float(max(qsettings.cfg.dram_rd(_prod(shape[1:]) * bits), 0))
      if r != d:
        run.violate("dram_without_io_is_dram_polynomial", key, dict(det, dram_poly=d), mirrored=False)

  # =============================================================== compare: counts
  outs = core.run_driver("C19", count_lines)
  for (mname, lname, cls, reported, orc, line), o in zip(count_meta, outs):
    geo = (cls, tuple(line["in"]), tuple(line["out"]), tuple(line["w"]), tuple(line["pool"] or ()))
    run.case(("count",) + geo, sample={"layer": cls, "line": line, "impl": reported, "model": o["count"]})
    run.compared += 1
    run.count("count_branch_" + o["branch"])
    mirrored = (o["count"] == reported)
    if not mirrored:
      run.disagree("operation_count", {"class": cls, "line": line}, reported, o)
    if orc is None:
      continue
    kind, brute, d = orc
    sig = count_signature(kind, reported, brute, d)
    run.count("count_%s_%s" % (kind, sig))
    if sig != "ok":
      run.violate("operation_count_is_mac_count",
                  {"stream": "count", "class": cls, "signature": sig},
                  {"class": cls, "geometry": d, "input_shape": line["in"], "reported": reported,
                   "loop_nest_count": brute,
                   "replay": "QTools(model)._output_dict[layer]['operation_count'] for a %s with %s" % (cls, d)},
                  mirrored=mirrored)

  # =============================================================== the specification vs the oracle
  outs = core.run_driver("C19", spec_lines)
  for (cls, kind, brute, d, emp, kout, sl), o in zip(spec_meta, outs):
    run.compared += 1
    run.evaluations += 1
    run.count("spec_%s_%s" % (kind, sl["pad"]))
    if not o["literal_ok"]:
      run.disagree("spec_literal_nest", sl, None, o)
    # Lean index model vs Keras' output shape vs the real forward pass
    o_out = (kout[:-1] + o["out"]) if kind == "dense" else o["out"]   # dense: feature axis only
    if o_out != kout or kout != d["out"]:
      run.disagree("conv_output_length", {"spec": sl, "keras": kout, "forward": d["out"]}, kout, o["out"])
    # Lean loop-nest cardinality vs the Python loop nest over the real layer
    if kind == "dense" and d.get("lead", 1) > 1:
      run.count("spec_dense_leading_axes")
    if o["mac"] != brute:
      run.disagree("mac_spec", {"spec": sl, "class": cls}, brute, o["mac"])
    # measured real-tap count (all-ones twin)
    if emp is not None:
      run.count("twin_measured_%s" % ("eq" if emp == brute else "lt"))
      if sl["pad"] == "valid" and emp != brute:
        run.disagree("oracle_vs_measurement", {"spec": sl, "class": cls}, emp, brute)
      if emp > brute:
        run.disagree("oracle_vs_measurement", {"spec": sl, "class": cls}, emp, brute)
    else:
      run.count("twin_unavailable_%s" % kind)

  # =============================================================== n-ary merges: the specification
  outs = core.run_driver("C19", merge_spec_lines)
  for (cls, n_ops, per_operand, nary), o in zip(merge_spec_meta, outs):
    run.compared += 1
    run.evaluations += 1
    run.count("spec_merge_operands_%s" % (n_ops if n_ops < 3 else "3+"))
    if o["mac"] != per_operand or o["nary"] != nary or nary != (n_ops - 1) * per_operand:
      run.disagree("merge_nary_spec", {"class": cls, "n": n_ops}, [per_operand, nary], o)

  # =============================================================== compare: estimate.py
  outs = core.run_driver("C19", est_lines)
  for (lname, cls, reported, orc, line), o in zip(est_meta, outs):
    run.case(("est", cls, tuple(line["in"]), tuple(line["out"]), tuple(line["w"])))
    run.compared += 1
    mirrored = (o["count"] == reported)
    if not mirrored:
      run.disagree("estimate_number_of_operations", {"class": cls, "line": line}, reported, o)
    if orc is None:
      continue
    kind, brute, d = orc
    sig = count_signature(kind, reported, brute, d)
    run.count("est_%s_%s" % (kind, sig))
    if sig != "ok":
      run.violate("number_of_operations_is_mac_count",
                  {"stream": "estimate", "class": cls, "signature": sig},
                  {"class": cls, "geometry": d, "input_shape": line["in"], "reported": reported,
                   "loop_nest_count": brute,
                   "replay": "qkeras.estimate.extract_model_operations(model)[layer]['number_of_operations']"},
                  mirrored=mirrored)

  # =============================================================== compare: energy
  outs = core.run_driver("C19", energy_lines)
  n_slack = n_exact = 0
  for (mname, bname, names, classes, ed, err, has_avgpool, plc, custom), o, line in zip(energy_meta, outs, energy_lines):
    run.case(("energy", mname, plc), sample=None)
    run.compared += 1
    if ed is None:
      mirrored = "err" in o
      run.count("energy_raises_%s" % err)
      if not mirrored:
        run.disagree("energy_raises", {"model": mname, "classes": classes, "placement": plc}, err, "model computes")
      run.violate("energy_report_exists",
                  {"stream": "energy", "error": err, "avg_pooling_layer": has_avgpool},
                  {"classes": classes, "placement": plc, "error": err,
                   "replay": "QTools(model).pe(...) on a model with these layer classes"},
                  mirrored=mirrored)
      continue
    if "err" in o:
      run.disagree("energy", {"model": mname, "classes": classes, "placement": plc}, "computes", o)
      continue
    rows_m = o["rows"]
    got_names = [n for n in ed if n != "total_cost"]
    if got_names != names or len(rows_m) != len(names):
      run.disagree("energy_rows", {"model": mname, "placement": plc}, got_names, names)
      continue
    mirrored = True
    tot_impl = F(0)
    for n, cls, rm in zip(names, classes, rows_m):
      if ed[n]["class_name"] != cls:
        run.disagree("energy_class_name", {"layer": n}, ed[n]["class_name"], cls)
      for k, v in zip(KEYS, rm):
        impl = ed[n]["energy"][k]
        mv = core.unrj(v)
        tot_impl += F(impl)
        if not (impl >= 0):
          run.violate("energy_nonneg", {"stream": "energy", "class": cls, "entry": k},
                      {"class": cls, "entry": k, "value": impl, "placement": plc}, mirrored=(F(impl) == mv))
        diff = abs(F(impl) - mv)
        if diff == 0 or diff < F(1, 10 ** 9) * max(1, abs(mv)):
          n_exact += 1
        elif diff <= F(1, 100) + F(1, 10 ** 9) * max(1, abs(mv)):
          n_slack += 1
        else:
          mirrored = False
          run.disagree("energy_entry", {"class": cls, "entry": k, "placement": plc, "custom_cost": custom,
                                        "layer": line["layers"][names.index(n)]}, impl, float(mv))
    if not o["nonneg"]:
      run.disagree("energy_model_nonneg", {"model": mname}, None, o["raw"])
    # total_cost
    T = int(ed["total_cost"])
    raw = core.unrj(o["raw_total"])
    near = abs(raw - round(raw)) < F(1, 10 ** 6)
    if T == o["total"]:
      run.count("total_exact")
    elif near and abs(T - o["total"]) <= 1:
      run.count("total_band")
    else:
      mirrored = False
      run.disagree("total_cost", {"model": mname, "placement": plc}, T, o["total"])
    # clause, from the returned numbers alone: total = truncated sum of all entries of all layers
    # (C19_total_vs_reported: the 2-decimal entries pin the sum within 0.02 per layer)
    slack = F(2, 100) * len(names) + F(1, 10 ** 6) * max(1, T)
    if not (tot_impl - slack - 1 < T <= tot_impl + slack) or T < 0:
      run.violate("total_is_sum_of_entries", {"stream": "energy", "clause_detail": "total_vs_rows"},
                  {"classes": classes, "placement": plc, "total_cost": T, "sum_of_reported_entries": float(tot_impl)},
                  mirrored=mirrored)
  run.extra["energy_entries_exact"] = n_exact
  run.extra["energy_entries_within_rounding_slack"] = n_slack

  # =============================================================== compare: extract
  outs = core.run_driver("C19", extract_lines)
  for (mname, sname, cs, ed, s_impl, p_impl), o in zip(extract_meta, outs):
    run.case(("extract", mname, sname, s_impl))
    run.compared += 1
    run.count("extract_" + sname)
    ed_layers = [n for n in ed if n != "total_cost"]
    ed_classes = [ed[n]["class_name"] for n in ed_layers]
    # which branch of the key lookup each layer takes (the case split of `selectKeys` / C19_extract_keys)
    for c in dict.fromkeys(ed_classes):
      if c in cs:
        run.count("extract_lookup_class_" + ("empty" if len(cs[c]) == 0 else
                                             "full" if len(cs[c]) == len(KEYS) else "partial"))
      elif "default" in cs:
        run.count("extract_lookup_default_" + ("empty" if len(cs["default"]) == 0 else
                                               "full" if len(cs["default"]) == len(KEYS) else "partial"))
      else:
        run.count("extract_lookup_nothing")
    raw = core.unrj(o["raw_sum"])
    near = abs(raw - round(raw)) < F(1, 10 ** 6)
    mirrored = True
    if type(s_impl) is int and s_impl == o["sum"]:
      pass
    elif type(s_impl) is int and near and abs(s_impl - o["sum"]) <= 1:
      run.count("extract_band")
    else:
      mirrored = False
      run.disagree("extract_energy_sum", {"setting": cs, "rows": ed}, s_impl, o["sum"])
    if p_impl is None:
      mirrored = False
      run.disagree("extract_energy_profile", {"setting": cs}, "layers / energy rows differ from the report", "same")
    else:
      for a, b in zip(p_impl, o["profile"]):
        if abs(F(a) - core.unrj(b)) > F(1, 10 ** 6) * max(1, abs(core.unrj(b))):
          mirrored = False
          run.disagree("extract_energy_profile", {"setting": cs}, a, float(core.unrj(b)))
    # clause oracle (C19_extract): exact sum of the entries the setting selects, computed here from the
    # dictionary with `selected_keys` (independent of the model and of the code's lookup expression)
    tot, prof = exact_extract(cs, ed)
    branches = sorted({("class_empty" if (c in cs and len(cs[c]) == 0) else "class" if c in cs else
                        "default" if "default" in cs else "nothing") for c in ed_classes})
    lo = math.floor(tot - F(1, 10 ** 6))
    hi = math.floor(tot + F(1, 10 ** 6))
    if type(s_impl) is not int or not (lo <= s_impl <= hi):
      run.violate("extract_sum_is_sum_of_selected", {"stream": "extract", "setting": sname},
                  {"setting": cs, "extract_energy_sum": s_impl, "exact_sum": float(tot),
                   "floor_of_exact_sum": math.floor(tot), "lookup_branches": branches,
                   "classes": ed_classes, "rows": ed,
                   "replay": "QTools.extract_energy_sum(setting, rows)"},
                  mirrored=mirrored)
    # clause oracle for the profile: same layers, rows untouched, per-layer total = the selected entries
    bad = None
    if p_impl is None:
      bad = {"what": "profile layers / energy rows differ from the report"}
    else:
      for n, a in zip(ed_layers, p_impl):
        if abs(F(a) - prof[n]) > F(1, 10 ** 9) * max(1, abs(prof[n])):
          bad = {"layer": n, "class_name": ed[n]["class_name"], "profile_total": a,
                 "selected_keys": selected_keys(cs, ed[n]["class_name"]), "exact_sum": float(prof[n]),
                 "energy": ed[n]["energy"]}
          break
    if bad is not None:
      run.violate("extract_profile_total_is_sum_of_selected", {"stream": "extract", "setting": sname},
                  dict(bad, setting=cs, lookup_branches=branches,
                       replay="QTools.extract_energy_profile(setting, rows)[layer]['total']"),
                  mirrored=mirrored)
  run.extra["streams"] = {"count": len(count_lines), "spec": len(spec_lines), "estimate": len(est_lines),
                          "energy": len(energy_lines), "extract": len(extract_lines), "merge_spec": len(merge_spec_lines)}
  if len(count_lines) < n_models or len(energy_lines) < n_models:
    raise core.InfraError("generator degenerated: %d count cases, %d energy cases for %d models"
                          % (len(count_lines), len(energy_lines), n_models))
